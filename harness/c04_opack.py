"""C04 (OPACK part) - pyatv/support/opack.py against coq/C04/Opack*.v.

run_part(ctx)          called by c04.py after ctx.build_property() (which also builds and records
                       coq/C04/OpackProperties.v); registers cases, violations, broken ties on ctx.
                       Does not call build_property/finish.
replay_part(ctx, d)    re-runs one replay dict against the implementation; 1 = property fails.
run_part_c05(ctx)      decoder-termination half of C05 for OPACK (call count <= input length,
                       no hang), for c05.py.

Three independent things meet here:
  * the implementation (pyatv.support.opack), always run in a separate interpreter with a timeout
    (`python c04_opack.py worker in out`), driven with values in a neutral token form;
  * the Coq model coq/C04/OpackModel.v, executed (a) inside Coq by vm_compute on <= 400-case files
    with short byte strings and (b) as OCaml extracted with ExtrOcamlBasic behind the line driver
    below (all cases, including the 0xFFFF/0x10000 length classes and > 256-entry pointer tables);
  * a reference encoder/decoder written here from docs/documentation/protocols.md "OPACK" (the
    Python twin of coq/C04/OpackSpec.v): canonical encoding, random admissible variants (endless
    collections, non-minimal length classes, optional back-references, float32), and a decoder.

Value tokens (used in replay files and corpus):
  N | T | F | I <z> <sizehint> | D <16 hex> | S <hex|-> | B <hex|-> | U <32 hex> | L <n> v*n | M <n> (k v)*n
"""
import hashlib
import json
import os
import struct
import sys

# ------------------------------------------------------------------------------------------
# neutral values: ("N",) ("T",) ("F",) ("I", z, hint) ("D", b8) ("S", utf8) ("B", b) ("U", b16)
#                 ("L", [v...]) ("M", [(k, v)...])
# ------------------------------------------------------------------------------------------


def hx(b):
    return b.hex() if b else "-"


def unhx(s):
    return b"" if s == "-" else bytes.fromhex(s)


def ser(v):
    t = v[0]
    if t in "NTF":
        return t
    if t == "I":
        return "I %d %d" % (v[1], v[2])
    if t in "DSBU":
        return "%s %s" % (t, hx(v[1]))
    if t == "L":
        return " ".join(["L %d" % len(v[1])] + [ser(x) for x in v[1]])
    return " ".join(["M %d" % len(v[1])] + [ser(k) + " " + ser(x) for k, x in v[1]])


def de(s):
    toks = s.split()
    pos = [0]

    def nxt():
        pos[0] += 1
        return toks[pos[0] - 1]

    def go():
        t = nxt()
        if t in "NTF":
            return (t,)
        if t == "I":
            z = int(nxt())
            return ("I", z, int(nxt()))
        if t in "DSBU":
            return (t, unhx(nxt()))
        if t == "L":
            n = int(nxt())
            return ("L", [go() for _ in range(n)])
        if t == "M":
            n = int(nxt())
            out = []
            for _ in range(n):
                k = go()
                out.append((k, go()))
            return ("M", out)
        raise ValueError("bad token " + t)

    v = go()
    if pos[0] != len(toks):
        raise ValueError("trailing tokens")
    return v


def erase(v):
    """Forget int size hints (int_2b(300) == 300 in Python)."""
    t = v[0]
    if t == "I":
        return ("I", v[1], 0)
    if t == "L":
        return ("L", [erase(x) for x in v[1]])
    if t == "M":
        return ("M", [(erase(k), erase(x)) for k, x in v[1]])
    return v


def depth(v):
    if v[0] == "L":
        return 1 + max([depth(x) for x in v[1]] + [0])
    if v[0] == "M":
        return 1 + max([max(depth(k), depth(x)) for k, x in v[1]] + [0])
    return 0


def shape(v, out):
    """Input distribution: counts of node kinds and length classes."""
    t = v[0]
    if t in "SB":
        n = len(v[1])
        cls = ("0" if n == 0 else "<=0x20" if n <= 0x20 else "<=0xFF" if n <= 0xFF else
               "<=0xFFFF" if n <= 0xFFFF else ">0xFFFF")
        out[t + ":" + cls] = out.get(t + ":" + cls, 0) + 1
    elif t == "I":
        z, h = v[1], v[2]
        cls = ("sized%d" % h if h else "-1" if z < 0 else "<0x28" if z < 0x28 else "1B" if z <= 0xFF else
               "2B" if z <= 0xFFFF else "4B" if z <= 0xFFFFFFFF else "8B")
        out["I:" + cls] = out.get("I:" + cls, 0) + 1
    elif t in "LM":
        n = len(v[1])
        cls = str(n) if n in (0, 1, 14, 15, 16) else "2-13" if n < 14 else ">16"
        out[t + ":" + cls] = out.get(t + ":" + cls, 0) + 1
        for x in v[1]:
            if t == "L":
                shape(x, out)
            else:
                shape(x[0], out)
                shape(x[1], out)
    else:
        out[t] = out.get(t, 0) + 1


def cterm(v):
    """Coq term of type OpackModel.value."""
    t = v[0]
    if t == "N":
        return "VNone"
    if t == "T":
        return "(VBool true)"
    if t == "F":
        return "(VBool false)"
    if t == "I":
        return "(VInt (%d)%%Z %d)" % (v[1], v[2])
    if t in "DSBU":
        c = {"D": "VFloat", "S": "VStr", "B": "VBytes", "U": "VUUID"}[t]
        return "(%s [%s])" % (c, ";".join(str(b) for b in v[1]))
    if t == "L":
        return "(VList [%s])" % "; ".join(cterm(x) for x in v[1])
    return "(VDict [%s])" % "; ".join("(%s, %s)" % (cterm(k), cterm(x)) for k, x in v[1])


def cbytes(b):
    return "[%s]" % ";".join(str(x) for x in b)


ERRMAP = {"IndexError": "IndexError", "TypeError": "TypeError", "ValueError": "ValueError",
          "error": "StructError", "UnicodeDecodeError": "UnicodeDecodeError", "OverflowError": "OverflowError"}


def pykey(v):
    """A hashable Python stand-in with Python's key equality (True == 1 == 1.0)."""
    t = v[0]
    if t == "N":
        return None
    if t == "T":
        return True
    if t == "F":
        return False
    if t == "I":
        return v[1]
    if t == "D":
        return struct.unpack("<d", v[1])[0]
    if t == "S":
        return ("s", v[1])
    if t == "B":
        return ("b", v[1])
    if t == "U":
        return ("u", v[1])
    raise TypeError("unhashable")


# ------------------------------------------------------------------------------------------
# worker: runs inside a fresh interpreter with PYTHONPATH = repo under test
# ------------------------------------------------------------------------------------------

def to_py(v, opack, UUID):
    t = v[0]
    if t == "N":
        return None
    if t == "T":
        return True
    if t == "F":
        return False
    if t == "I":
        return opack._sized_int(v[1], v[2]) if v[2] else v[1]
    if t == "D":
        return struct.unpack("<d", v[1])[0]
    if t == "S":
        return v[1].decode("utf-8")
    if t == "B":
        return v[1]
    if t == "U":
        return UUID(bytes=v[1])
    if t == "L":
        return [to_py(x, opack, UUID) for x in v[1]]
    return {to_py(k, opack, UUID): to_py(x, opack, UUID) for k, x in v[1]}


def from_py(o, UUID):
    if o is None:
        return ("N",)
    if o is True:
        return ("T",)
    if o is False:
        return ("F",)
    if isinstance(o, UUID):
        return ("U", o.bytes)
    if isinstance(o, int):
        return ("I", int(o), int(getattr(o, "size", 0) or 0))
    if isinstance(o, float):
        return ("D", struct.pack("<d", o))
    if isinstance(o, str):
        return ("S", o.encode("utf-8"))
    if isinstance(o, (bytes, bytearray)):
        return ("B", bytes(o))
    if isinstance(o, list):
        return ("L", [from_py(x, UUID) for x in o])
    if isinstance(o, dict):
        return ("M", [(from_py(k, UUID), from_py(x, UUID)) for k, x in o.items()])
    raise TypeError("unexpected object from unpack: %r" % type(o))


class Hang(BaseException):
    """Raised by the per-operation alarm; not an Exception, so no handler in the code under test swallows it."""


def worker(inp, outp):
    import resource
    import signal
    from uuid import UUID
    from pyatv.support import opack

    def on_alarm(signum, frame):
        raise Hang()

    signal.signal(signal.SIGALRM, on_alarm)
    try:
        resource.setrlimit(resource.RLIMIT_AS, (6 << 30, 6 << 30))   # a runaway loop must not eat the machine
    except (ValueError, OSError):
        pass
    budget = 5.0        # seconds per operation; the largest honest case (64 KiB strings) takes milliseconds

    calls = [0]
    real = opack._unpack

    def counting(data, object_list):
        calls[0] += 1
        return real(data, object_list)

    opack._unpack = counting          # the recursion goes through the module global

    def do_unpack(data):
        calls[0] = 0
        signal.setitimer(signal.ITIMER_REAL, budget)
        try:
            val, rest = opack.unpack(data)
            signal.setitimer(signal.ITIMER_REAL, 0)
            return {"ok": [ser(from_py(val, UUID)), hx(bytes(rest))], "calls": calls[0]}
        except Hang:
            return {"err": "HANG", "calls": calls[0]}
        except Exception as ex:  # pylint: disable=broad-except
            signal.setitimer(signal.ITIMER_REAL, 0)
            return {"err": type(ex).__name__, "calls": calls[0]}
        finally:
            signal.setitimer(signal.ITIMER_REAL, 0)

    ops = json.load(open(inp))
    res = []
    for op in ops:
        if sum(1 for r in res if "HANG" in (r.get("err"), r.get("back", {}).get("err"), r.get("back_rest", {}).get("err"))) >= 3:
            res.append({"err": "SKIPPED"})      # three inputs that do not terminate are enough
            continue
        if op["op"] == "unpack":
            res.append(do_unpack(unhx(op["d"])))
        else:
            signal.setitimer(signal.ITIMER_REAL, budget)
            try:
                packed = opack.pack(to_py(de(op["v"]), opack, UUID))
            except Hang:
                res.append({"err": "HANG"})
                continue
            except Exception as ex:  # pylint: disable=broad-except
                res.append({"err": type(ex).__name__})
                continue
            finally:
                signal.setitimer(signal.ITIMER_REAL, 0)
            r = {"ok": hx(packed)}
            if op["op"] == "rt":
                r["back"] = do_unpack(packed)
                r["back_rest"] = do_unpack(packed + unhx(op["rest"]))
            res.append(r)
    with open(outp, "w") as f:
        json.dump(res, f)


if __name__ == "__main__" and len(sys.argv) == 4 and sys.argv[1] == "worker":
    worker(sys.argv[2], sys.argv[3])
    sys.exit(0)

import common  # noqa: E402  (not needed, and not importable, in the worker)

# ------------------------------------------------------------------------------------------
# reference codec written from docs/documentation/protocols.md, section OPACK
# ------------------------------------------------------------------------------------------

F32_EXACT = None


def f32_exact(b8):
    """4-byte float32 encoding if the double is exactly a float32 (non-NaN), else None."""
    x = struct.unpack("<d", b8)[0]
    if x != x:
        return None
    try:
        b4 = struct.pack("<f", x)
    except OverflowError:
        return None
    return b4 if struct.pack("<d", struct.unpack("<f", b4)[0]) == b8 else None


class RefEnc:
    """Encoder for the documented format.  rng=None: canonical form (shortest length class, counted
    collections below 15 elements, a back-reference whenever the same encoding was already emitted,
    int size hints honoured).  rng given: a random admissible variant."""

    def __init__(self, rng=None, code_big_data=False):
        self.rng = rng
        self.table = []            # (encoding, erased value) of every new multi-byte non-container object
        self.code_big_data = code_big_data   # canonical form with the code's 0x93 + 4 length bytes for >= 0x10000 bytes

    def le(self, n, k):
        return n.to_bytes(k, "little")

    def pointer(self, idx):
        forms = []
        if idx < 0x21:
            forms.append(bytes([0xA0 + idx]))
        for k in (1, 2, 3, 4):     # "The lower nibble (1-4) indicates how many bytes are used for the index"
            if idx < 256 ** k:
                forms.append(bytes([0xC0 + k]) + self.le(idx, k))
        return forms[0] if self.rng is None else self.rng.choice(forms)

    def leaf_forms(self, v):
        t = v[0]
        if t == "N":
            return [b"\x04"]
        if t == "T":
            return [b"\x01"]
        if t == "F":
            return [b"\x02"]
        if t == "U":
            return [b"\x05" + v[1]]
        if t == "D":
            forms = [b"\x36" + v[1]]
            b4 = f32_exact(v[1])
            if b4 is not None and self.rng is not None:
                forms.append(b"\x35" + b4)
            return forms
        if t == "I":
            z, h = v[1], v[2]
            if self.rng is None:
                if z < 0x28 and not h:
                    return [bytes([z + 8])]
                for k, sz in enumerate((1, 2, 4, 8)):
                    if (z < 256 ** sz and not h) or h == sz:
                        return [bytes([0x30 + k]) + self.le(z, sz)]
                return [b"\x33" + self.le(z, 8)]
            forms = [bytes([z + 8])] if -1 <= z < 0x28 else []
            for k, sz in enumerate((1, 2, 4, 8, 16)):
                if 0 <= z < 256 ** sz:
                    forms.append(bytes([0x30 + k]) + self.le(z, sz))
            return forms
        n = len(v[1])
        forms = []
        if t == "S":
            if n <= 0x20:
                forms.append(bytes([0x40 + n]) + v[1])
            for k in (1, 2, 3, 4):
                if n < 256 ** k:
                    forms.append(bytes([0x60 + k]) + self.le(n, k) + v[1])
        else:
            if n <= 0x20:
                forms.append(bytes([0x70 + n]) + v[1])
            if self.rng is None and self.code_big_data and n > 0xFFFF:
                forms.append(b"\x93" + self.le(n, 4) + v[1])
            for k, w in enumerate((1, 2, 3, 4)):
                if n < 256 ** w and (self.rng is None or k < 2):
                    # random variants stay within 0x91/0x92: 0x93/0x94 are where code and table differ
                    forms.append(bytes([0x91 + k]) + self.le(n, w) + v[1])
            if not forms:
                # 0x10000 bytes or more in a random variant: the form the code uses (0x93 + 4 length bytes), so that
                # the rest of the structure is still exercised; the difference itself is reported by the fixed probes
                forms.append(b"\x93" + self.le(n, 4) + v[1])
        return forms

    def enc(self, v):
        t = v[0]
        if t in "LM":
            items = v[1] if t == "L" else [x for kv in v[1] for x in kv]
            n = len(v[1])
            base = 0xD0 if t == "L" else 0xE0
            endless = n >= 15 or (self.rng is not None and self.rng.random() < 0.4)
            body = b"".join(self.enc(x) for x in items)
            return bytes([base + (15 if endless else n)]) + body + (b"\x03" if endless else b"")
        forms = self.leaf_forms(v)
        ev = erase(v)
        if self.rng is None:
            e = forms[0]
            if len(e) == 1:
                return e
            for i, (enc, _) in enumerate(self.table):
                if enc == e:
                    return self.pointer(i)
            self.table.append((e, ev))
            return e
        cands = [i for i, (_, val) in enumerate(self.table) if val == ev]
        if cands and self.rng.random() < 0.6:
            return self.pointer(self.rng.choice(cands))
        e = self.rng.choice(forms)
        if len(e) > 1 and all(enc != e for enc, _ in self.table):
            self.table.append((e, ev))
        return e


class RefDecodeError(Exception):
    pass


def ref_decode(data):
    """Decoder for the documented format (erased values).  Returns (value, rest)."""
    table = []

    def take(d, n):
        if len(d) < n:
            raise RefDecodeError("truncated")
        return d[:n], d[n:]

    def go(d):
        if not d:
            raise RefDecodeError("empty")
        b, r = d[0], d[1:]
        add = True
        if b == 1:
            return ("T",), r
        if b == 2:
            return ("F",), r
        if b == 4:
            return ("N",), r
        if 7 <= b <= 0x2F:
            return ("I", b - 8, 0), r
        if b == 5:
            u, r2 = take(r, 16)
            v = ("U", u)
        elif b == 0x35:
            f, r2 = take(r, 4)
            v = ("D", struct.pack("<d", struct.unpack("<f", f)[0]))
        elif b == 0x36:
            f, r2 = take(r, 8)
            v = ("D", f)
        elif 0x30 <= b <= 0x34:
            z, r2 = take(r, 1 << (b & 0xF))
            v = ("I", int.from_bytes(z, "little"), 0)
        elif 0x40 <= b <= 0x60:
            s, r2 = take(r, b - 0x40)
            v = ("S", s)
        elif 0x61 <= b <= 0x64:
            ln, r1 = take(r, b & 0xF)
            s, r2 = take(r1, int.from_bytes(ln, "little"))
            v = ("S", s)
        elif b == 0x6F:
            i = r.find(b"\x00")
            if i < 0:
                raise RefDecodeError("unterminated")
            v, r2 = ("S", r[:i]), r[i + 1:]
        elif 0x70 <= b <= 0x90:
            s, r2 = take(r, b - 0x70)
            v = ("B", s)
        elif 0x91 <= b <= 0x94:
            ln, r1 = take(r, b & 0xF)          # table: 1, 2, 3, 4 byte length
            s, r2 = take(r1, int.from_bytes(ln, "little"))
            v = ("B", s)
        elif 0xA0 <= b <= 0xC4:
            if b <= 0xC0:
                idx, r2 = b - 0xA0, r
            else:
                ib, r2 = take(r, b - 0xC0)
                idx = int.from_bytes(ib, "little")
            if idx >= len(table):
                raise RefDecodeError("pointer out of range")
            return table[idx][1], r2
        elif (b & 0xF0) in (0xD0, 0xE0):
            n = b & 0xF
            items = []
            r2 = r
            per = 1 if (b & 0xF0) == 0xD0 else 2
            if n == 15:
                while True:
                    if not r2:
                        raise RefDecodeError("unterminated collection")
                    if r2[0] == 3:
                        r2 = r2[1:]
                        break
                    for _ in range(per):
                        x, r2 = go(r2)
                        items.append(x)
            else:
                for _ in range(n * per):
                    x, r2 = go(r2)
                    items.append(x)
            if per == 1:
                return ("L", items), r2
            return ("M", [(items[i], items[i + 1]) for i in range(0, len(items), 2)]), r2
        else:
            raise RefDecodeError("reserved byte 0x%02x" % b)
        e = d[:len(d) - len(r2)]
        if add and len(e) > 1 and all(e != x[0] for x in table):
            table.append((e, v))
        return v, r2

    return go(data)


# ------------------------------------------------------------------------------------------
# generators (everything from ctx.rng)
# ------------------------------------------------------------------------------------------

SMALL_LENS = [0, 1, 2, 3, 5, 0x1F, 0x20, 0x21, 0xFF, 0x100]
BIG_LENS = [0xFFFF, 0x10000]
NONASCII = ["é", "漢", "\U0001F600", "ß", "Ж"]
INT_EDGES = [-1, 0, 1, 0x27, 0x28, 0xFF, 0x100, 0xFFFF, 0x10000, 0xFFFFFFFF, 0x100000000,
             0xFFFFFFFFFFFFFFFF, 50, 300]
FLOATS = [0.0, -0.0, 1.0, 50.0, -1.5, 1e300, 5e-324, float("inf"), float("-inf"), 0.1, 2.0 ** 63, 3.5]
NANS = [bytes.fromhex("000000000000f87f"), bytes.fromhex("010000000000f07f"), bytes.fromhex("000000000000f8ff"),
        bytes.fromhex("efbeadde0000f97f")]


class Gen:
    def __init__(self, rng, allow_big=False):
        self.rng = rng
        self.allow_big = allow_big
        self.pool = []             # leaves made so far: re-used to provoke back-references

    def text(self, n):
        """UTF-8 text of exactly n bytes, ASCII or mixed with multi-byte characters."""
        r = self.rng
        out = b""
        mixed = r.random() < 0.4
        while len(out) < n:
            if mixed and r.random() < 0.3:
                c = r.choice(NONASCII).encode("utf-8")
                if len(out) + len(c) <= n:
                    out += c
                    continue
            out += bytes([r.choice(b"abcdefghijklmnopqrstuvwxyz_ 0123456789")])
        return out

    def length(self):
        r = self.rng
        x = r.random()
        if self.allow_big and x < 0.25:
            return r.choice(BIG_LENS)
        if x < 0.55:
            return r.choice(SMALL_LENS)
        return r.randrange(0, 12)

    def int_(self):
        r = self.rng
        x = r.random()
        if x < 0.35:
            return ("I", r.choice(INT_EDGES), 0)
        if x < 0.6:
            return ("I", r.choice([r.randrange(-1, 0x30), r.randrange(0, 0x10000), r.randrange(0, 2 ** 64)]), 0)
        sz = r.choice([1, 2, 4, 8])
        z = r.choice([0, 5, 0x27, 0x28, 256 ** sz - 1, r.randrange(0, 256 ** sz)])
        return ("I", z, sz)

    def leaf(self, fresh=False):
        r = self.rng
        if self.pool and not fresh and r.random() < 0.35:
            return r.choice(self.pool)
        k = r.random()
        if k < 0.08:
            v = r.choice([("N",), ("T",), ("F",)])
        elif k < 0.33:
            v = self.int_()
        elif k < 0.45:
            if r.random() < 0.2:
                v = ("D", r.choice(NANS))
            elif r.random() < 0.6:
                v = ("D", struct.pack("<d", r.choice(FLOATS)))
            else:
                v = ("D", struct.pack("<d", r.uniform(-1e6, 1e6)))
        elif k < 0.7:
            v = ("S", self.text(self.length()))
        elif k < 0.9:
            n = self.length()
            v = ("B", bytes(r.randrange(256) for _ in range(min(n, 64))) + bytes(max(0, n - 64)))
        else:
            v = ("U", bytes(r.randrange(256) for _ in range(16)))
        self.pool.append(v)
        return v

    def key(self):
        r = self.rng
        for _ in range(50):
            k = r.random()
            if k < 0.55:
                v = ("S", self.text(r.choice([0, 1, 1, 2, 3, 8, 0x20, 0x21])))
            elif k < 0.75:
                v = self.int_()
            elif k < 0.9:
                v = ("B", bytes(r.randrange(256) for _ in range(r.choice([0, 1, 2, 0x21]))))
            else:
                v = r.choice([("N",), ("T",), ("F",), ("U", bytes(r.randrange(256) for _ in range(16))),
                              ("D", struct.pack("<d", r.choice(FLOATS)))])
            if self.pool and r.random() < 0.2:
                v = r.choice(self.pool)
            if v[0] == "D" and v[1] in NANS:
                continue
            self.pool.append(v)
            return v
        return ("S", b"k")

    def count(self):
        r = self.rng
        return r.choice([0, 1, 2, 3, 4, 14, 15, 16]) if r.random() < 0.5 else r.randrange(0, 5)

    def value(self, d):
        r = self.rng
        if d <= 0 or r.random() < 0.3:
            return self.leaf()
        n = self.count()
        if d < 3 and n > 4 and r.random() < 0.7:
            n = r.randrange(0, 4)
        if r.random() < 0.55:
            return ("L", [self.value(d - 1) for _ in range(n)])
        seen = set()
        out = []
        for _ in range(n):
            k = self.key()
            pk = pykey(k)
            if pk in seen:
                continue
            seen.add(pk)
            out.append((k, self.value(d - 1)))
        return ("M", out)


def targeted_values(rng):
    """Deterministic families: boundaries and back-references at every position."""
    out = []
    g = Gen(rng)
    # every int boundary, plain and sized
    for z in INT_EDGES + [0x26, 0x29, 0xFE, 0x101, 0xFFFE, 0x10001, 2 ** 63]:
        out.append(("I", z, 0))
    for sz in (1, 2, 4, 8):
        for z in (0, 0x27, 0x28, 256 ** sz - 1):
            out.append(("I", z, sz))
    for f in FLOATS:
        out.append(("D", struct.pack("<d", f)))
    out += [("D", b) for b in NANS]
    for n in SMALL_LENS:
        out.append(("S", g.text(n)))
        out.append(("B", bytes((i * 7) & 0xFF for i in range(n))))
    out += [("N",), ("T",), ("F",), ("U", bytes(range(16)))]
    # containers at the 14/15/16 boundary, with and without repeats
    for n in (0, 1, 14, 15, 16, 17):
        out.append(("L", [("I", i + 100, 0) for i in range(n)]))
        out.append(("L", [("S", b"ab")] * n))
        out.append(("M", [(("S", b"k%d" % i), ("S", b"v")) for i in range(n)]))
        out.append(("M", [(("I", i, 0), ("L", [("S", b"xy")] * 2)) for i in range(n)]))
    # a repeated multi-byte object at every pair of positions among fillers
    fill = [("T",), ("I", 3, 0), ("S", b""), ("L", [("I", 1, 0)]), ("M", [(("S", b"a"), ("I", 1, 0))]), ("D", struct.pack("<d", 50.0)),
            ("I", 50, 0), ("D", struct.pack("<d", -0.0)), ("D", struct.pack("<d", 0.0)), ("B", b"")]
    rep = [("S", b"ab"), ("B", b"ab"), ("I", 300, 0), ("U", bytes(range(16))), ("D", NANS[0]), ("I", 5, 1)]
    for x in rep:
        for i in range(4):
            for j in range(i + 1, 5):
                items = [rng.choice(fill) for _ in range(5)]
                items[i] = x
                items[j] = x
                out.append(("L", items))
                out.append(("M", [(("I", q, 0), it) for q, it in enumerate(items)]))
    # same text as key and as value, nested
    out.append(("M", [(("S", b"_c"), ("M", [(("S", b"a"), ("I", 1, 0))])), (("S", b"x"), ("S", b"abc")), (("S", b"y"), ("S", b"abc"))]))
    out.append(("M", [(("S", b"abc"), ("S", b"abc")), (("B", b"abc"), ("L", [("S", b"abc"), ("B", b"abc")]))]))
    # equal numbers of different types must not share a table entry
    out.append(("L", [("I", 50, 0), ("D", struct.pack("<d", 50.0)), ("I", 50, 1), ("I", 50, 2), ("I", 50, 0), ("I", 50, 1)]))
    # more than 0x21 distinct objects: one-byte and 0xC1 pointers
    many = [("S", b"s%02d" % i) for i in range(40)]
    out.append(("L", many + many))
    out.append(("L", many + [many[0x20], many[0x21], many[39]]))
    # depth 4
    out.append(("L", [("L", [("L", [("L", [("S", b"deep"), ("S", b"deep")])]), ("S", b"deep")])]))
    return out


def big_values(rng):
    """Only for the extracted model: 0xFFFF/0x10000 length classes and > 256 table entries."""
    out = []
    for n in BIG_LENS:
        out.append(("S", b"a" * n))
        out.append(("S", ("é" * (n // 2)).encode("utf-8") + b"a" * (n % 2)))
        out.append(("B", bytes(n)))
        out.append(("L", [("S", b"b" * n), ("B", b"c" * n), ("S", b"b" * n), ("B", b"c" * n)]))
    many = [("S", b"t%03d" % i) for i in range(300)]
    out.append(("L", many + [many[0], many[0x20], many[0x21], many[0xFF], many[0x100], many[299]]))
    out.append(("M", [(k, k) for k in many]))
    return out


def mutate(rng, b):
    b = bytearray(b)
    for _ in range(rng.choice([1, 1, 2, 3])):
        k = rng.random()
        if not b:
            b = bytearray([rng.randrange(256)])
        elif k < 0.35:
            b[rng.randrange(len(b))] = rng.choice([0, 3, 0x03, 0xA0, 0xA1, 0xC1, 0xDF, 0xEF, 0xD1, 0xE1, 0x6F, 0x9F, 0x35, 0x36,
                                                    0x05, 0x06, 0x34, 0x3F, 0x61, 0x64, 0x91, 0x94, 0xFF, rng.randrange(256)])
        elif k < 0.55:
            del b[rng.randrange(len(b)):]
        elif k < 0.7:
            del b[rng.randrange(len(b))]
        elif k < 0.85:
            b.insert(rng.randrange(len(b) + 1), rng.randrange(256))
        else:
            i = rng.randrange(len(b))
            b[i:i] = b[i:i + rng.randrange(1, 6)]
    return bytes(b)


ALPHA = [0x00, 0x01, 0x03, 0x04, 0x09, 0x30, 0x41, 0x61, 0x71, 0xA0, 0xC1, 0xD1, 0xD2, 0xDF, 0xE1, 0xEF, 0x36, 0x05, 0xFF, 0x80]


def malformed_stream(rng, seeds, n):
    out = []
    # all strings up to length 3 over a small alphabet, a slice of length 4
    small = [0x03, 0x41, 0xA0, 0xD1, 0xDF, 0xE1, 0xEF, 0x61]
    for a in small:
        out.append(bytes([a]))
        for b in small:
            out.append(bytes([a, b]))
            for c in small:
                out.append(bytes([a, b, c]))
    out.append(b"")
    for b in range(256):
        out.append(bytes([b]) + bytes([1, 0, 0, 0, 0x41, 0x42, 0x43, 0x44, 3, 3]))
    while len(out) < n:
        k = rng.random()
        if k < 0.6 and seeds:
            out.append(mutate(rng, rng.choice(seeds)))
        elif k < 0.85:
            out.append(bytes(rng.choice(ALPHA) for _ in range(rng.randrange(1, 12))))
        else:
            out.append(bytes(rng.randrange(256) for _ in range(rng.randrange(1, 24))))
    return out[:n]


# ------------------------------------------------------------------------------------------
# running the three sides
# ------------------------------------------------------------------------------------------

def run_worker(ops, tag, timeout=300):
    """Returns list of results or None on failure/timeout (with the output text).

    The worker has a per-operation alarm of its own, so a time-out of a whole batch means the machine
    is loaded, not that the decoder hangs: the batch is split and retried (coordinator's addition)."""
    res, why = _run_worker_once(ops, tag, timeout)
    if res is None and "rc=124" in why and len(ops) > 1:
        mid = len(ops) // 2
        a, wa = run_worker(ops[:mid], tag + "a", timeout)
        if a is None:
            return None, wa
        b, wb = run_worker(ops[mid:], tag + "b", timeout)
        if b is None:
            return None, wb
        return a + b, ""
    return res, why


def _run_worker_once(ops, tag, timeout=300):
    d = os.path.join(common.BUILD, "opack")
    os.makedirs(d, exist_ok=True)
    inp = os.path.join(d, "ops_%s.json" % tag)
    outp = os.path.join(d, "res_%s.json" % tag)
    with open(inp, "w") as f:
        json.dump(ops, f)
    if os.path.exists(outp):
        os.unlink(outp)
    rc, out = common.impl_python(os.path.abspath(__file__), ["worker", inp, outp], timeout=timeout)
    if rc != 0 or not os.path.exists(outp):
        return None, "rc=%s %s" % (rc, out[-1500:])
    return json.load(open(outp)), ""


DRIVER_ML = r'''
open Opack_model
let rec pos_of_int n = if n = 1 then XH else if n land 1 = 0 then XO (pos_of_int (n lsr 1)) else XI (pos_of_int (n lsr 1))
let n_of_int n = if n = 0 then N0 else Npos (pos_of_int n)
let rec int_of_pos = function XH -> 1 | XO p -> 2 * int_of_pos p | XI p -> 2 * int_of_pos p + 1
let int_of_n = function N0 -> 0 | Npos p -> int_of_pos p
let n10 = n_of_int 10
(* decimal <-> N, through the extracted arithmetic *)
let n_of_dec s = let a = ref N0 in String.iter (fun c -> a := N.add (N.mul !a n10) (n_of_int (Char.code c - 48))) s; !a
let dec_of_n n =
  if n = N0 then "0" else begin
    let b = Buffer.create 32 and x = ref n in
    while !x <> N0 do
      let (q, r) = N.div_eucl !x n10 in
      Buffer.add_char b (Char.chr (48 + int_of_n r)); x := q
    done;
    let s = Buffer.contents b in String.init (String.length s) (fun i -> s.[String.length s - 1 - i]) end
let z_of_dec s = if s.[0] = '-' then (match n_of_dec (String.sub s 1 (String.length s - 1)) with N0 -> Z0 | Npos p -> Zneg p)
                 else (match n_of_dec s with N0 -> Z0 | Npos p -> Zpos p)
let dec_of_z = function Z0 -> "0" | Zpos p -> dec_of_n (Npos p) | Zneg p -> "-" ^ dec_of_n (Npos p)
let hexv c = if c >= '0' && c <= '9' then Char.code c - 48 else Char.code c - 87
let bytes_of_hex s = if s = "-" then [] else
  List.init (String.length s / 2) (fun i -> n_of_int (16 * hexv s.[2*i] + hexv s.[2*i+1]))
let hex_of_bytes l = if l = [] then "-" else String.concat "" (List.map (fun b -> Printf.sprintf "%02x" (int_of_n b)) l)
let toks = ref []
let next () = match !toks with t :: r -> toks := r; t | [] -> failwith "eof"
let rec parse () =
  match next () with
  | "N" -> VNone | "T" -> VBool true | "F" -> VBool false
  | "I" -> let z = z_of_dec (next ()) in let h = n_of_dec (next ()) in VInt (z, h)
  | "D" -> VFloat (bytes_of_hex (next ())) | "S" -> VStr (bytes_of_hex (next ()))
  | "B" -> VBytes (bytes_of_hex (next ())) | "U" -> VUUID (bytes_of_hex (next ()))
  | "L" -> let n = int_of_string (next ()) in VList (List.init n (fun _ -> parse ()))
  | "M" -> let n = int_of_string (next ()) in
           VDict (List.init n (fun _ -> let k = parse () in let v = parse () in (k, v)))
  | t -> failwith ("token " ^ t)
let rec show = function
  | VNone -> "N" | VBool true -> "T" | VBool false -> "F"
  | VInt (z, h) -> "I " ^ dec_of_z z ^ " " ^ dec_of_n h
  | VFloat b -> "D " ^ hex_of_bytes b | VStr b -> "S " ^ hex_of_bytes b
  | VBytes b -> "B " ^ hex_of_bytes b | VUUID b -> "U " ^ hex_of_bytes b
  | VList l -> String.concat " " (("L " ^ string_of_int (List.length l)) :: List.map show l)
  | VDict l -> String.concat " " (("M " ^ string_of_int (List.length l)) :: List.map (fun (k, v) -> show k ^ " " ^ show v) l)
let err = function IndexError -> "IndexError" | TypeError -> "TypeError" | ValueError -> "ValueError"
  | StructError -> "StructError" | UnicodeDecodeError -> "UnicodeDecodeError" | OverflowError -> "OverflowError"
let () =
  try while true do
    let line = input_line stdin in
    let l = String.split_on_char ' ' line in
    (match l with
     | "P" :: r -> toks := r;
        (match pack (parse ()) with
         | Ok b -> print_endline ("OK " ^ hex_of_bytes b)
         | Raise e -> print_endline ("ERR " ^ err e)
         | OutOfFuel -> print_endline "FUEL")
     | ["U"; h] ->
        (match unpack (bytes_of_hex h) with
         | Ok (v, r) -> print_endline ("OK " ^ show v ^ " | " ^ hex_of_bytes r)
         | Raise e -> print_endline ("ERR " ^ err e)
         | OutOfFuel -> print_endline "FUEL")
     | _ -> print_endline "BAD")
  done with End_of_file -> ()
'''

EXTRACT_V = """From Coq Require Import NArith ZArith List.
From Coq Require Import ExtrOcamlBasic.
From PV Require Import C04.OpackModel.
Extraction "opack_model.ml" pack unpack N.add N.mul N.div_eucl.
"""


def build_ocaml_model():
    """Extract OpackModel.v (ExtrOcamlBasic only) and compile the line driver.  Returns (exe, log)."""
    with common.Lock("opack_ml"):
        return _build_ocaml_model()


def _build_ocaml_model():
    d = os.path.join(common.BUILD, "opack", "ml")
    os.makedirs(d, exist_ok=True)
    vo = os.path.join(common.COQ, "C04", "OpackModel.vo")
    src = open(os.path.join(common.COQ, "C04", "OpackModel.v"), "rb").read()
    dig = hashlib.sha1(src + DRIVER_ML.encode() + EXTRACT_V.encode()).hexdigest()[:16]
    exe = os.path.join(d, "driver_" + dig)
    if os.path.exists(exe) and os.path.exists(vo) and os.path.getmtime(vo) <= os.path.getmtime(exe):
        return exe, "cached"
    for f in os.listdir(d):
        try:
            os.unlink(os.path.join(d, f))
        except OSError:
            pass
    with open(os.path.join(d, "Extract.v"), "w") as f:
        f.write(EXTRACT_V)
    with open(os.path.join(d, "driver.ml"), "w") as f:
        f.write(DRIVER_ML)
    rc, out = common.sh("coqc -Q %s PV -w -extraction Extract.v" % common.COQ, cwd=d, timeout=300)
    if rc != 0:
        return None, out
    rc, out2 = common.sh("ocamlfind ocamlopt -w -a -O2 opack_model.mli opack_model.ml driver.ml -o %s 2>&1 || "
                         "ocamlfind ocamlopt -w -a opack_model.mli opack_model.ml driver.ml -o %s" % (exe, exe),
                         cwd=d, timeout=300)
    if rc != 0 or not os.path.exists(exe):
        return None, out + out2
    return exe, "built"


def run_ocaml(exe, lines, timeout=600):
    rc, out = common.sh("ulimit -s unlimited 2>/dev/null; exec %s" % exe, inp="\n".join(lines) + "\n", timeout=timeout)
    res = [l for l in out.split("\n") if l and not l.startswith("WARNING")]
    if rc != 0 or len(res) != len(lines):
        return None, "rc=%s lines=%d/%d %s" % (rc, len(res), len(lines), out[-800:])
    return res, ""


def model_line_of_pack(r):
    """What the OCaml driver prints for an implementation pack result."""
    if "ok" in r:
        return "OK " + r["ok"]
    return "ERR " + ERRMAP.get(r["err"], "Other:" + r["err"])


def model_line_of_unpack(r):
    if "ok" in r:
        return "OK %s | %s" % (r["ok"][0], r["ok"][1])
    return "ERR " + ERRMAP.get(r["err"], "Other:" + r["err"])


def coq_case_pack(v, r):
    if "ok" in r:
        return "CPack %s (Ok %s)" % (cterm(v), cbytes(unhx(r["ok"])))
    return "CPack %s (Raise %s)" % (cterm(v), ERRMAP[r["err"]])


def coq_case_unpack(data, r):
    if "ok" in r:
        return "CUnpack %s (Ok (%s, %s))" % (cbytes(data), cterm(de(r["ok"][0])), cbytes(unhx(r["ok"][1])))
    return "CUnpack %s (Raise %s)" % (cbytes(data), ERRMAP[r["err"]])


def coq_size_ok(data, r):
    if len(data) > 300:
        return False
    if "ok" in r:
        # sized ints carry a hint up to 32768 and a value up to 256^32768: keep the literal small
        return len(r["ok"][0]) < 1500
    return r["err"] in ERRMAP


# fixed probes for the two recorded documentation/decoder differences
PROBES_REJECT = [("6f666f6f00", ("S", b"foo"), "0x6F null terminated string (documented example)"),
                 ("9f03", ("B", b""), "0x9F endless data object, empty"),
                 ("9f72aabb03", ("B", b"\xaa\xbb"), "0x9F endless data object with one chunk")]
PROBES_DATALEN = [("93020000aabb", ("B", b"\xaa\xbb"), "0x93 data with 3 byte length (documented example)"),
                  ("9402000000aabb", ("B", b"\xaa\xbb"), "0x94 data with 4 byte length (documented example)")]


def hangs(ctx, r, rep):
    """Report an operation the per-operation alarm had to stop (C05: must terminate)."""
    if r.get("err") == "SKIPPED":
        return True
    if r.get("err") == "HANG" or r.get("back", {}).get("err") == "HANG" or r.get("back_rest", {}).get("err") == "HANG":
        ctx.violation("C05:opack:does-not-terminate", "opack did not finish within 5 s on this input", rep)
        return True
    return False


def judge_unpack(r, want, rest=b""):
    """None if the implementation result r is `want` (up to int size hints) with `rest` left."""
    if "ok" not in r:
        return "raised " + r["err"]
    if erase(de(r["ok"][0])) != erase(want):
        return "decoded to a different value: " + r["ok"][0][:200]
    if unhx(r["ok"][1]) != rest:
        return "left %s instead of %s" % (r["ok"][1][:60], hx(rest)[:60])
    return None


def corpus_values():
    out = []
    for name, d in common.load_corpus("C04"):
        if name.startswith("opack_") and "value" in d:
            out.append((name, de(d["value"])))
    return out


def run_part(ctx):
    rng = ctx.rng
    thorough = ctx.thorough
    n_rand = 15000 if thorough else 1200
    n_mal = 30000 if thorough else 2500
    rule = ("OPACK: corpus witnesses, boundary families (every int size class, string/bytes lengths 0,1,0x20,0x21,0xFF,0x100 and - extracted "
            "model only - 0xFFFF,0x10000; 0/1/14/15/16/17-element containers; one repeated multi-byte object at every pair of positions; "
            ">0x21 and >0x100 table entries), %d random nested values of depth <= 4 with a shared leaf pool, one random documented variant "
            "per value, %d malformed streams (all strings <= 3 over 8 head bytes, every first byte, mutations of valid encodings); "
            "non-trivial = a container or a multi-byte object; distinct by token form / bytes" % (n_rand, n_mal))
    ctx.rule = (ctx.rule + " || " + rule) if ctx.rule else rule

    # ---- values
    vals = [(n, v) for n, v in corpus_values()]
    vals += [("targeted", v) for v in targeted_values(rng)]
    g = Gen(rng)
    for i in range(n_rand):
        if i % 40 == 0:
            g.pool = []
        vals.append(("random", g.value(rng.choice([0, 1, 2, 2, 3, 4]))))
    nbig0 = len(vals)
    vals += [("big", v) for v in big_values(rng)]
    gb = Gen(rng, allow_big=True)
    for i in range(12 if not thorough else 60):
        gb.pool = []
        vals.append(("big", gb.value(rng.choice([0, 1, 2]))))

    # ---- pack-side errors (outside the documented domain): model must raise the same class
    bad_vals = [("I", -2, 0), ("I", -9, 0), ("I", 2 ** 64, 0), ("I", 300, 1), ("I", 70000, 2), ("I", -1, 1), ("I", -1, 8), ("I", 2 ** 64, 8),
                ("I", 5, 16), ("I", 2 ** 70, 16), ("I", 2 ** 32, 4), ("L", [("S", b"ok"), ("I", -5, 0)]),
                ("M", [(("S", b"k"), ("I", 2 ** 65, 0))]), ("L", [("I", 7, 3), ("I", 7, 8), ("I", 7, 0)])]

    ops = []
    for _, v in vals:
        ops.append({"op": "rt", "v": ser(v), "rest": hx(bytes(rng.randrange(256) for _ in range(rng.choice([0, 1, 3]))))})
    for v in bad_vals:
        ops.append({"op": "pack", "v": ser(v)})

    # ---- documented variants of each value and canonical reference encodings
    variants = []
    canon = []
    for _, v in vals:
        canon.append(RefEnc(None).enc(v))
        variants.append(RefEnc(rng).enc(v))
    for b in variants:
        ops.append({"op": "unpack", "d": hx(b)})
    for h, _, _ in PROBES_REJECT + PROBES_DATALEN:
        ops.append({"op": "unpack", "d": h})

    # ---- malformed stream
    seeds = [c for c in canon[:nbig0] if len(c) < 200]
    mal = malformed_stream(rng, seeds, n_mal)
    for b in mal:
        ops.append({"op": "unpack", "d": hx(b)})

    res, why = run_worker(ops, "c04")
    if res is None:
        ctx.violation("C05:opack:decoder-hangs-or-crashes", "the implementation driver did not finish: " + why,
                      {"codec": "opack", "kind": "worker", "detail": why})
        return
    nv = len(vals)
    r_rt = res[:nv]
    r_bad = res[nv:nv + len(bad_vals)]
    r_var = res[nv + len(bad_vals):2 * nv + len(bad_vals)]
    o = 2 * nv + len(bad_vals)
    r_probe = res[o:o + len(PROBES_REJECT) + len(PROBES_DATALEN)]
    r_mal = res[o + len(r_probe):]
    assert len(r_mal) == len(mal)

    # ---- property oracle on the implementation
    pack_cases = []      # (value, impl result)  -> model pack
    unpack_cases = []    # (bytes, impl result)  -> model unpack
    dist = {}
    for (h, want, what), r in zip(PROBES_REJECT + PROBES_DATALEN, r_probe):
        if hangs(ctx, r, {"codec": "opack", "kind": "bytes", "data": h}):
            continue
        why4 = judge_unpack(r, want)
        unpack_cases.append((unhx(h), r))
        if why4:
            key = "C04:opack:rejects-documented-variant" if (h, want, what) in PROBES_REJECT else "C04:opack:data-length-class-differs-from-doc"
            ctx.violation(key, "%s: %s" % (what, why4), {"codec": "opack", "kind": "probe", "data": h, "expect": ser(want)})
    for (src, v), r, rest_op, cb, vb, rv in zip(vals, r_rt, ops[:nv], canon, variants, r_var):
        shape(v, dist)
        rep = {"codec": "opack", "kind": "value", "value": ser(v), "source": src}
        nontriv = v[0] in "LM" or len(cb) > 1
        ctx.case(("opack", ser(v)), nontrivial=nontriv,
                 sample={"opack_value": ser(v)[:300], "packed": r.get("ok", r.get("err"))[:120]} if src == "random" and nontriv else None)
        if hangs(ctx, r, rep):
            continue
        pack_cases.append((v, r))
        if "ok" not in r:
            ctx.violation("C04:opack:pack-raises", "pack raises %s on a value of the documented domain" % r["err"], rep)
            continue
        packed = unhx(r["ok"])
        # (1) decode(encode(x)) == x, alone and followed by other bytes
        why1 = judge_unpack(r["back"], v) or judge_unpack(r["back_rest"], v, unhx(rest_op["rest"]))
        if why1:
            ctx.violation("C04:opack:roundtrip", "unpack(pack(x)) is not x: " + why1, dict(rep, packed=r["ok"][:400]))
        unpack_cases.append((packed, r["back"]))
        if rest_op["rest"] != "-":
            unpack_cases.append((packed + unhx(rest_op["rest"]), r["back_rest"]))
        # (2) encode(x) == reference_encode(x); the reference decoder reads it back
        if packed != cb:
            try:
                rd = ref_decode(packed)
            except RefDecodeError as ex:
                rd = ("undecodable: %s" % ex, b"")
            if _has_big_bytes(v) and packed == RefEnc(None, code_big_data=True).enc(v):
                ctx.violation("C04:opack:data-length-class-differs-from-doc",
                              "bytes of 0x10000 or more are packed with 0x93 + 4 length bytes; the documentation table says 3",
                              dict(rep, packed=r["ok"][:40]))
            else:
                ctx.violation("C04:opack:differs-from-reference",
                              "pack(x) differs from the canonical documented encoding (reference decoder reads %s)" % (str(rd[0])[:120],),
                              dict(rep, packed=r["ok"][:400], reference=hx(cb)[:400]))
        # (3) decode(reference variants) == x
        if hangs(ctx, rv, dict(rep, kind="variant", data=hx(vb))):
            continue
        why3 = judge_unpack(rv, v)
        if why3:
            ctx.violation("C04:opack:variant-not-accepted", "a documented encoding of x is not decoded to x: " + why3,
                          dict(rep, kind="variant", data=hx(vb)))
        unpack_cases.append((vb, rv))
    for v, r in zip(bad_vals, r_bad):
        if hangs(ctx, r, {"codec": "opack", "kind": "value", "value": ser(v)}):
            continue
        pack_cases.append((v, r))
        ctx.count("pack-outside-domain:" + r.get("err", "ok"))
        ctx.case(("opack-bad", ser(v)), nontrivial=True)
    for b, r in zip(mal, r_mal):
        if hangs(ctx, r, {"codec": "opack", "kind": "bytes", "data": hx(b)}):
            continue
        ctx.case(("opack-mal", b), nontrivial="ok" in r)
        ctx.count("malformed:" + (r.get("err") or "ok"))
        unpack_cases.append((b, r))
        # the termination half of C05, observed: every call but the last consumes a byte
        if r.get("calls", 0) > len(b) + 1:
            ctx.violation("C05:opack:decoder-steps", "unpack made %d calls on %d bytes" % (r["calls"], len(b)),
                          {"codec": "opack", "kind": "bytes", "data": hx(b)})
    for k, n in dist.items():
        ctx.count("opack:" + k, n)
    ctx.traces += len(pack_cases) + len(unpack_cases)

    # errors outside the model's enum (RecursionError etc.) cannot be compared
    for b, r in unpack_cases:
        if "err" in r and r["err"] not in ERRMAP:
            ctx.tie_broken("correspondence:opack:unexpected-exception", json.dumps({"data": hx(b)[:400], "err": r["err"]}))
    unpack_cases = [(b, r) for b, r in unpack_cases if "ok" in r or r["err"] in ERRMAP]
    for v, r in pack_cases:
        if "err" in r and r["err"] not in ERRMAP:
            ctx.tie_broken("correspondence:opack:unexpected-exception", json.dumps({"value": ser(v)[:400], "err": r["err"]}))
    pack_cases = [(v, r) for v, r in pack_cases if "ok" in r or r["err"] in ERRMAP]

    # ---- model side 1: extracted OCaml, every case
    exe, log = build_ocaml_model()
    if exe is None:
        ctx.tie_broken("correspondence:opack:extraction", log)
    else:
        lines = ["P " + ser(v) for v, _ in pack_cases] + ["U " + hx(b) for b, _ in unpack_cases]
        want = [model_line_of_pack(r) for _, r in pack_cases] + [model_line_of_unpack(r) for _, r in unpack_cases]
        got, why = run_ocaml(exe, lines)
        if got is None:
            ctx.tie_broken("correspondence:opack:ocaml-run", why)
        else:
            nbad = 0
            for ln, w, gt in zip(lines, want, got):
                if w != gt:
                    nbad += 1
                    if nbad <= 5:
                        ctx.tie_broken("correspondence:opack:" + ("pack" if ln[0] == "P" else "unpack"),
                                       json.dumps({"input": ln[:600], "implementation": w[:600], "model": gt[:600]}))
            ctx.extra["opack_ocaml_cases"] = len(lines)
            ctx.extra["opack_ocaml_disagreements"] = nbad

    # ---- model side 2: inside Coq (kernel vm_compute), short cases
    small = [coq_case_pack(v, r) for v, r in pack_cases if len(ser(v)) < 900 and len(r.get("ok", "")) < 600]
    small_u = [coq_case_unpack(b, r) for b, r in unpack_cases if coq_size_ok(b, r)]
    # corpus + targeted first, then an even sample
    maxfiles = 16 if thorough else 4
    per = 400
    sel = small[:300] + small_u[:300]
    restc = small[300:] + small_u[300:]
    rng.shuffle(restc)
    sel += restc[:maxfiles * per - len(sel)]
    items = []
    for i in range(0, len(sel), per):
        chunk = sel[i:i + per]
        txt = ("From Coq Require Import NArith ZArith List. Import ListNotations.\n"
               "From PV Require Import Common.Cases C04.OpackModel.\nLocal Open Scope N_scope.\n"
               "Definition cases : list ocase := [\n%s\n].\n"
               "Eval vm_compute in (bad_indices check_case cases).\n" % ";\n".join(chunk))
        items.append(("opack_cases_%03d" % (i // per), txt))
    out = common.coq_run_many(items, ctx.pid)
    for name, (rc, txt) in sorted(out.items()):
        bad = common.parse_eval_nat_list(txt) if rc == 0 else None
        if bad is None:
            ctx.tie_broken("correspondence:opack:" + name, txt)
        elif bad:
            base = int(name.split("_")[-1]) * per
            for b in bad[:5]:
                ctx.tie_broken("correspondence:opack:coq", sel[base + b][:1500])
    ctx.extra["opack_coq_cases"] = len(sel)

    ctx.trusted += [
        "hand-written model coq/C04/OpackModel.v of pyatv/support/opack.py, tied by the differential run in harness/c04_opack.py: "
        "byte-exact pack, value-exact unpack (incl. int size hints, float bit patterns, exception class), evaluated in Coq by vm_compute "
        "(short cases) and as OCaml extracted with ExtrOcamlBasic only (all cases); the OCaml line driver and token parser",
        "reference encoder/decoder RefEnc/ref_decode in harness/c04_opack.py, written from docs/documentation/protocols.md (Python twin of "
        "coq/C04/OpackSpec.v; the pointer table rule 'new object' is read as 'encoding not yet in the table')",
    ]
    ctx.assumptions += [
        "OPACK: str values are valid UTF-8 (the model validates strictly like bytes.decode); datetime, tuples and other Python types are "
        "outside the value domain; CPython's recursion limit (~1000 nested containers -> RecursionError) is not modelled; two NaN dict "
        "keys are never identified by the model (CPython identifies a NaN key with a back-reference to the same object)",
        "OPACK round trip is proved for messages with at most 65536 table entries: pack writes pointer indices above 0xFFFF with 4/8 bytes "
        "while unpack and the documentation read 3/4 (lemma opack_ptr_index_mismatch)",
    ]


def _has_big_bytes(v):
    if v[0] == "B":
        return len(v[1]) > 0xFFFF
    if v[0] == "L":
        return any(_has_big_bytes(x) for x in v[1])
    if v[0] == "M":
        return any(_has_big_bytes(k) or _has_big_bytes(x) for k, x in v[1])
    return False


def run_part_c05(ctx):
    """Decoder termination for OPACK on hostile input: no hang, at most len(data)+1 _unpack calls."""
    rng = ctx.rng
    seeds = [RefEnc(None).enc(v) for v in targeted_values(rng)]
    seeds = [s for s in seeds if len(s) < 200]
    mal = malformed_stream(rng, seeds, 8000 if ctx.thorough else 2000)
    # deep nesting and long endless collections, still below the interpreter's recursion limit
    mal += [b"\xd1" * 400, b"\xdf" * 400, b"\xef" * 300 + b"\x03" * 300, b"\xdf" + b"\x09" * 5000, b"\xe1" * 400 + b"\x41"]
    res, why = run_worker([{"op": "unpack", "d": hx(b)} for b in mal], "c05", timeout=120)
    if res is None:
        ctx.violation("C05:opack:decoder-hangs-or-crashes", "opack.unpack did not finish on the hostile stream: " + why,
                      {"codec": "opack", "kind": "worker", "detail": why})
        return
    for b, r in zip(mal, res):
        if hangs(ctx, r, {"codec": "opack", "kind": "bytes", "data": hx(b)}):
            continue
        ctx.case(("opack-c05", b), nontrivial=r.get("calls", 0) > 1)
        ctx.count("opack:" + (r.get("err") or "ok"))
        if r.get("calls", 0) > len(b) + 1:
            ctx.violation("C05:opack:decoder-steps", "unpack made %d calls on %d bytes" % (r["calls"], len(b)),
                          {"codec": "opack", "kind": "bytes", "data": hx(b)})
    ctx.traces += len(mal)


def replay_part(ctx, d):
    """d is the replay dict of a violation registered above (d['replay'] when read from a replay file)."""
    rp = d.get("replay", d)
    kind = rp.get("kind")
    if kind == "value":
        v = de(rp["value"])
        res, why = run_worker([{"op": "rt", "v": ser(v), "rest": "-"}], "replay", timeout=60)
        if res is None:
            print("implementation driver failed:", why)
            return 1
        r = res[0]
        if "ok" not in r:
            print("pack raised", r["err"])
            return 1
        why1 = judge_unpack(r["back"], v)
        cb = RefEnc(None).enc(v)
        print("value=%s\npacked=%s\nreference=%s\nunpack(pack)=%s" % (ser(v)[:300], r["ok"][:300], hx(cb)[:300], str(r["back"])[:300]))
        if why1:
            print("round trip fails:", why1)
            return 1
        if unhx(r["ok"]) != cb:
            print("pack differs from the canonical documented encoding")
            return 1
        return 0
    if kind in ("variant", "probe"):
        want = de(rp["expect"]) if "expect" in rp else de(rp["value"])
        res, why = run_worker([{"op": "unpack", "d": rp["data"]}], "replay", timeout=60)
        if res is None:
            print("implementation driver failed:", why)
            return 1
        why1 = judge_unpack(res[0], want)
        print("data=%s expect=%s got=%s" % (rp["data"][:300], ser(want)[:300], str(res[0])[:300]))
        if why1:
            print("documented encoding not decoded to its value:", why1)
            return 1
        return 0
    if kind == "bytes":
        b = unhx(rp["data"])
        res, why = run_worker([{"op": "unpack", "d": rp["data"]}], "replay", timeout=60)
        if res is None:
            print("unpack did not finish:", why)
            return 1
        print("data=%s result=%s" % (rp["data"][:300], res[0]))
        return 1 if (res[0].get("calls", 0) > len(b) + 1 or res[0].get("err") == "HANG") else 0
    print("unknown replay kind", kind)
    return 1
