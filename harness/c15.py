"""C15 - crash-atomic save of FileStorage.

Theorems in coq/C15 (temp file + rename protocol keeps the storage file old-or-new at every
crash point; the in-place protocol does not).  Here:

  * the file-system calls of the REAL FileStorage.save()/_save_file are recorded from outside
    (builtins.open / io.open / os.replace / os.rename / os.fsync / os.remove / os.truncate are
    substituted while it runs) and compared with the model's op list;
  * every crash point (k calls completed, j bytes of the pending user-space buffer written) is
    materialised: the real code runs with real effects up to the crash point, after which all
    further effects are dropped; the directory left behind is compared with the model's crash
    state, and - the property oracle - a fresh FileStorage.load() must succeed on it and yield
    exactly the previous or exactly the new settings.
"""
import asyncio
import builtins
import errno
import io
import json
import os
import shutil
import tempfile
import time

import common

TARGET = "pyatv.conf"
TMPNAME = TARGET + ".tmp"
LAYOUT = "plain"        # what kind of thing the storage path is (see Driver.restore)
LAYOUTS = ["plain", "symlink-same-dir", "symlink-other-dir", "dangling-symlink", "hardlink", "in-symlinked-dir"]


def storage_rel():
    """The storage path handed to FileStorage, relative to the scenario directory."""
    return os.path.join("linkdir", TARGET) if LAYOUT == "in-symlinked-dir" else TARGET


def tree(d):
    """Everything under d without following links (files: content, links: where they point)."""
    out = {}
    for base, dirs, files in os.walk(d):
        for n in sorted(dirs + files):
            p = os.path.join(base, n)
            r = os.path.relpath(p, d)
            if os.path.islink(p):
                out[r] = ("link", os.readlink(p))
            elif os.path.isfile(p):
                with open(p, "rb") as fh:
                    out[r] = ("file", fh.read())
    return out


def snapshot(d):
    """What load() would read at the storage path (links followed), and the temporary file."""
    out = {}
    for key, rel in ((TARGET, storage_rel()), (TMPNAME, TMPNAME)):
        p = os.path.join(d, rel)
        if os.path.isfile(p):
            with open(p, "rb") as fh:
                out[key] = fh.read()
    return out


# --------------------------------------------------------------------------- recorder

class _Short(Exception):
    """raised by Recorder.tick to the proxy: this flush is a short write"""


class _Proxy:
    """Stand-in for the file object returned by open(path, 'w'...): user-space buffer that
    reaches the real file only on flush/close (or partially, at the crash point)."""

    def __init__(self, rec, path, kind, flags, perm, binary, encoding, raw=False):
        self.rec = rec
        self.raw = raw              # buffering=0: every write goes straight to the kernel, short counts are returned
        self.full = False           # the device took a short write: nothing more gets through
        self.last_short = None
        self.path = path
        self.name = path
        self.mode = "wb" if binary else "w"
        self.binary = binary
        self.encoding = encoding or "utf-8"
        self.pending = b""
        self.fd = None
        self.vfd = 1000000 + len(rec.proxies)
        rec.proxies.append(self)
        self.closed = True          # not yet open while the open call itself is the crash point
        live = rec.tick(("open-" + kind, rec.rel(path)))
        self.closed = False
        if live:
            self.fd = rec.real["os.open"](path, flags, perm)

    @staticmethod
    def from_mode(rec, path, mode, encoding, buffering=-1):
        """open(path, mode): which of create / truncate / append the mode asks for."""
        if "w" in mode:
            kind, flags = "trunc", os.O_WRONLY | os.O_CREAT | os.O_TRUNC
        elif "a" in mode:
            kind, flags = "append", os.O_WRONLY | os.O_CREAT | os.O_APPEND
        elif "x" in mode:
            kind, flags = "excl", os.O_WRONLY | os.O_CREAT | os.O_EXCL
        elif "+" in mode:           # "r+": existing file, not truncated, written from offset 0
            kind, flags = "notrunc", os.O_WRONLY
        else:
            raise NotImplementedError("recorder: unsupported open mode %r" % mode)
        return _Proxy(rec, path, kind, flags, 0o666, "b" in mode, encoding, raw=(buffering == 0 and "b" in mode))

    @staticmethod
    def from_flags(rec, path, flags, perm):
        """os.open(path, flags): the flags actually passed decide."""
        if flags & os.O_TRUNC:
            kind = "trunc"
        elif flags & os.O_APPEND:
            kind = "append"
        elif flags & os.O_EXCL:
            kind = "excl"
        else:
            kind = "notrunc"
        return _Proxy(rec, path, kind, flags, perm, True, None)

    # file API used by writers
    def write(self, data):
        n = len(data)
        raw = bytes(data) if self.binary else data.encode(self.encoding)
        if self.rec.tick(("write", self.rec.rel(self.path), raw)):
            self.pending += raw
        if self.raw:
            # unbuffered: one write(2) right away; a short count is what the caller gets back
            self.last_short = None
            self.flush()
            if self.last_short is not None:
                return self.last_short
        return n

    def drain(self, upto=None):
        if self.full:
            self.pending = b""
            return
        data = self.pending if upto is None else self.pending[:upto]
        if self.fd is not None:
            view = memoryview(data)
            while len(view):
                w = self.rec.real["os.write"](self.fd, view)
                view = view[w:]
        self.pending = self.pending[len(data):]

    def flush(self):
        try:
            if self.rec.tick(("flush", self.rec.rel(self.path)), self):
                self.drain()
        except _Short as sh:
            self.last_short = sh.args[0]
            if not self.raw:        # the buffered writer retries the remainder and is told there is no room
                raise OSError(errno.ENOSPC, "injected: no space left on device") from None

    def fileno(self):
        return self.fd if self.fd is not None else self.vfd

    def close(self):
        if self.closed:
            return
        short = False
        try:
            if self.rec.tick(("close", self.rec.rel(self.path)), self):
                self.drain()
        except _Short:
            short = True            # the flush inside close() was short; the file is closed all the same
            self.rec.tick(("close", self.rec.rel(self.path)))
        self.closed = True
        if self.fd is not None:
            self.rec.real["os.close"](self.fd)
            self.fd = None
        if short and not self.raw:
            raise OSError(errno.ENOSPC, "injected: no space left on device")

    def writable(self):
        return True

    def __enter__(self):
        return self

    def __exit__(self, *a):
        self.close()
        return False


class Recorder:
    """Records (and, from the crash point on, drops) the file-system effects under `root`."""

    def __init__(self, root, crash=None, fault=None, short=None):
        self.root = os.path.realpath(root)
        self.crash = crash              # (k, j): k calls completed, j pending bytes written
        self.fault = fault              # f: call number f (0-based) fails with OSError instead of being carried out
        self.fault_done = False
        self.short = short              # with fault=f: call f, if it is a flush, is a short write of that many bytes
        self.ops = []
        self.pending_before = []        # pending bytes of open files before op i
        self.proxies = []
        self.frozen = False
        self.real = {}

    def watched(self, p):
        try:
            p = os.fspath(p)
        except TypeError:
            return False
        if isinstance(p, bytes):
            p = os.fsdecode(p)
        return os.path.realpath(p).startswith(self.root + os.sep)

    def rel(self, p):
        """Name of a path in the op list: the storage path - under whatever name, link or directory link it
        is reached - is TARGET; everything else its path below the scenario directory (links not resolved)."""
        p = os.fspath(p)
        if isinstance(p, bytes):
            p = os.fsdecode(p)
        a = os.path.normpath(os.path.abspath(p))
        t = os.path.normpath(os.path.join(self.root, storage_rel()))
        if a == t or os.path.realpath(a) == os.path.realpath(t):
            return TARGET
        d = os.path.dirname(a)
        return os.path.relpath(os.path.join(os.path.realpath(d), os.path.basename(a)), self.root) \
            if os.path.realpath(d).startswith(self.root) else os.path.relpath(a, self.root)

    def pending(self):
        return sum(len(x.pending) for x in self.proxies if not x.closed)

    def freeze(self, j):
        for x in self.proxies:
            if not x.closed and x.pending:
                x.drain(j)
        self.frozen = True

    def tick(self, op, proxy=None):
        """Register one call; returns True when its effect is to be carried out."""
        if not self.frozen:
            if self.crash is not None and len(self.ops) == self.crash[0]:
                self.freeze(self.crash[1])
            elif self.fault is not None and not self.fault_done and len(self.ops) == self.fault:
                self.fault_done = True
                if self.short is None:
                    raise OSError(errno.EIO, "injected: %s fails" % op[0])
                if proxy is not None and op[0] in ("flush", "close") and proxy.pending and not proxy.full:
                    k = min(self.short, len(proxy.pending))
                    self.pending_before.append(self.pending())
                    self.ops.append(("flush-short", op[1], k))
                    proxy.drain(k)
                    proxy.pending = b""
                    proxy.full = True
                    raise _Short(k)
                self.fault_done = "not-applicable"      # a short write needs a flush with data
                self.pending_before.append(self.pending())
                self.ops.append(op)
            else:
                self.pending_before.append(self.pending())
                self.ops.append(op)
        return not self.frozen

    # patched entry points
    def _open(self, file, mode="r", buffering=-1, encoding=None, errors=None, newline=None,
              closefd=True, opener=None):
        if isinstance(file, int):
            x = self._proxy_of(file)
            if x is not None:           # os.fdopen / open(fd) on a descriptor from the recorded os.open
                x.binary = "b" in mode
                x.encoding = encoding or "utf-8"
                return x
        elif self.watched(file) and any(c in mode for c in "wax+"):
            return _Proxy.from_mode(self, os.fspath(file), mode, encoding, buffering)
        return self.real["open"](file, mode, buffering, encoding, errors, newline, closefd, opener)

    def _osopen(self, path, flags, mode=0o777, *a, **kw):
        if self.watched(path) and (flags & os.O_ACCMODE) in (os.O_WRONLY, os.O_RDWR) and not a and not kw:
            return _Proxy.from_flags(self, os.fspath(path), flags, mode).fileno()
        return self.real["os.open"](path, flags, mode, *a, **kw)

    def _osclose(self, fd):
        x = self._proxy_of(fd)
        if x is None:
            return self.real["os.close"](fd)
        x.close()
        return None

    def _fsync(self, fd):
        for x in self.proxies:
            if fd in (x.vfd, x.fd) and not x.closed:
                self.tick(("fsync", self.rel(x.path)))
                return None
        return self.real["os.fsync"](fd)

    def _proxy_of(self, fd):
        for x in self.proxies:
            if not x.closed and fd in (x.vfd, x.fd):
                return x
        return None

    def _sendfile(self, out_fd, in_fd, *a, **kw):
        if self._proxy_of(out_fd) is not None:
            # make copy helpers fall back to read()/write(), which are recorded
            raise OSError(errno.ENOTSOCK, "recorder: no zero-copy into a recorded file")
        return self.real["os.sendfile"](out_fd, in_fd, *a, **kw)

    def _oswrite(self, fd, data):
        x = self._proxy_of(fd)
        if x is None:
            return self.real["os.write"](fd, data)
        if self.tick(("os-write", self.rel(x.path), bytes(data))):
            x.drain()
            return self.real["os.write"](x.fd, data)
        return len(data)

    def _rename(self, name):
        def f(src, dst, **kw):
            if not (self.watched(src) or self.watched(dst)):
                return self.real[name](src, dst, **kw)
            if self.tick(("rename", self.rel(src), self.rel(dst))):
                self.real[name](src, dst, **kw)
                for x in self.proxies:
                    if not x.closed and os.path.realpath(x.path) == os.path.realpath(os.fspath(dst)):
                        x.path = None     # handle of the replaced file: its inode is gone
                for x in self.proxies:
                    if x.path is not None and os.path.realpath(x.path) == os.path.realpath(os.fspath(src)):
                        x.path = os.fspath(dst)
            return None
        return f

    def _remove(self, name):
        def f(p, **kw):
            if not self.watched(p):
                return self.real[name](p, **kw)
            if self.tick(("remove", self.rel(p))):
                self.real[name](p, **kw)
            return None
        return f

    def _truncate(self, p, length):
        if isinstance(p, int) or not self.watched(p):
            return self.real["os.truncate"](p, length)
        if self.tick(("truncate", self.rel(p), length)):
            self.real["os.truncate"](p, length)
        return None

    def __enter__(self):
        self.real = {
            "open": builtins.open, "io.open": io.open, "os.open": os.open, "os.fsync": os.fsync,
            "os.fdatasync": os.fdatasync, "os.replace": os.replace, "os.rename": os.rename,
            "os.remove": os.remove, "os.unlink": os.unlink, "os.truncate": os.truncate,
            "os.sendfile": os.sendfile, "os.write": os.write, "os.close": os.close,
        }
        os.open = self._osopen
        os.close = self._osclose
        os.sendfile = self._sendfile
        os.write = self._oswrite
        builtins.open = self._open
        io.open = self._open
        os.fsync = self._fsync
        os.fdatasync = self._fsync
        os.replace = self._rename("os.replace")
        os.rename = self._rename("os.rename")
        os.remove = self._remove("os.remove")
        os.unlink = self._remove("os.unlink")
        os.truncate = self._truncate
        return self

    def __exit__(self, *a):
        builtins.open = self.real["open"]
        io.open = self.real["io.open"]
        os.fsync = self.real["os.fsync"]
        os.fdatasync = self.real["os.fdatasync"]
        os.replace = self.real["os.replace"]
        os.rename = self.real["os.rename"]
        os.remove = self.real["os.remove"]
        os.unlink = self.real["os.unlink"]
        os.truncate = self.real["os.truncate"]
        os.sendfile = self.real["os.sendfile"]
        os.write = self.real["os.write"]
        os.open = self.real["os.open"]
        os.close = self.real["os.close"]
        # a crash point after the last call
        if self.crash is not None and not self.frozen and len(self.ops) == self.crash[0]:
            self.freeze(self.crash[1])
        self.final_pending = self.pending()
        for x in self.proxies:
            if x.fd is not None:
                try:
                    os.close(x.fd)
                except OSError:
                    pass
                x.fd = None
        return False


def use_names(drv, sc):
    """Storage file name of the scenario, and the name the code really uses for its temporary file
    (learned from a recorded save: the first path other than the storage file opened for writing)."""
    global TARGET, TMPNAME, LAYOUT
    TARGET = sc.get("filename") or "pyatv.conf"
    LAYOUT = sc.get("layout") or "plain"
    if LAYOUT == "dangling-symlink" and (sc.get("old") is not None or sc.get("old_file") is not None):
        LAYOUT = "symlink-same-dir"         # an old content needs something to live in
    TMPNAME = storage_rel() + ".tmp"
    d = drv.restore(None, None)
    st = drv.storage(d)
    drv.set_devices(st, [{"protocols": {"mrp": {"identifier": "probe"}}}])
    rec = Recorder(d)
    with rec:
        try:
            drv.run(st.save())
        except Exception:
            pass
    shutil.rmtree(d, ignore_errors=True)
    for o in rec.ops:
        if o[0].startswith("open-") and o[1] != TARGET:
            TMPNAME = o[1]
            break


FILENAMES = ["pyatv.tmp", "pyatv", ".pyatv.conf", "a.b.c.json", "conf.tmp.bak", "x.tmp.tmp", "tmp", ".tmp"]


# --------------------------------------------------------------------------- scenarios

UNI = ["", "a", "åäö", "日本", "\U0001f600", "x\"y\\z", "tab\there", "\u0000", "A" * 40]


def rand_text(rng):
    if rng.random() < 0.5:
        return rng.choice(UNI)
    return "".join(rng.choice("abcXYZ019:-_ é中") for _ in range(rng.randrange(1, 24)))


def rand_device(rng, tag):
    """A device record as a (partial) dict accepted by pyatv.settings.Settings."""
    protos = {}
    names = ["airplay", "companion", "dmap", "mrp", "raop"]
    rng.shuffle(names)
    for i, p in enumerate(names[:rng.randrange(1, 4)]):
        d = {"identifier": "%s-%s-%d" % (tag, p, i)}
        if rng.random() < 0.8:
            d["credentials"] = rand_text(rng) + ":" + "".join(rng.choice("0123456789abcdef") for _ in range(rng.choice([8, 64, 200])))
        if p in ("airplay", "raop") and rng.random() < 0.4:
            d["password"] = rand_text(rng)
        protos[p] = d
    dev = {"protocols": protos}
    if rng.random() < 0.4:
        dev["info"] = {"name": rand_text(rng)}
    return dev


def scenarios(ctx):
    rng = ctx.rng
    a = {"protocols": {"mrp": {"identifier": "mrp-A", "credentials": "secret-A:0011"},
                       "airplay": {"identifier": "ap-A", "credentials": "ap-secret", "password": "påss"}}}
    b = {"protocols": {"raop": {"identifier": "raop-B", "credentials": "cred-B"}}, "info": {"name": "日本"}}
    out = [
        {"name": "first-save", "old": None, "stale_tmp": None, "new": [a], "faults": True},
        {"name": "grow", "old": [a], "stale_tmp": None, "new": [a, b], "faults": True},
        {"name": "shrink", "old": [a, b], "stale_tmp": None, "new": [b]},
        {"name": "to-empty", "old": [a], "stale_tmp": None, "new": []},
        {"name": "stale-tmp", "old": [a], "stale_tmp": "{\"version\": 1, \"devi", "new": [b, a]},
        {"name": "unchanged", "old": [a], "stale_tmp": None, "new": [a]},
        # a stale temporary file longer than / as long as / shorter than what is written now
        {"name": "stale-longer", "old": [a], "stale_rel": "longer", "new": [b], "faults": True},
        {"name": "stale-equal", "old": [a], "stale_rel": "equal", "new": [b]},
        {"name": "stale-shorter", "old": [a], "stale_rel": "shorter", "new": [b]},
        {"name": "stale-longer-first-save", "old": None, "stale_rel": "longer", "new": [a]},
        # two generations: the save of gen_a (long) dies at some point, then `new` (short) is saved
        {"name": "two-gen", "old": [b], "gen_a": [a, b, dict(a, info={"name": "x" * 120})], "new": [b]},
        {"name": "two-gen-first", "old": None, "gen_a": [a, b], "new": [{"protocols": {"dmap": {"identifier": "d"}}}]},
    ]
    # storage file names: own suffix .tmp, no suffix, hidden, several dots, ...
    for fn in FILENAMES:
        out.append({"name": "filename:" + fn, "filename": fn, "old": [a], "stale_tmp": None, "new": [b, a],
                    "limit": 48, "faults": fn in ("pyatv.tmp", "pyatv")})
    # what kind of thing the storage path is
    for lay in LAYOUTS[1:]:
        out.append({"name": "layout:" + lay, "layout": lay, "old": None if lay == "dangling-symlink" else [a],
                    "stale_tmp": None, "new": [b, a], "limit": 48, "faults": lay in ("symlink-same-dir", "in-symlinked-dir")})
    out.append({"name": "layout:symlink-other-dir:stale", "layout": "symlink-other-dir", "old": [a, b], "stale_rel": "longer", "new": [b], "limit": 48})
    for i in range(1 if not ctx.thorough else 6):
        ga = [rand_device(rng, "a%d" % i) for _ in range(rng.randrange(2, 5))]
        out.append({"name": "two-gen-random-%d" % i, "old": None if rng.random() < 0.3 else [rand_device(rng, "o")],
                    "gen_a": ga, "new": ga[:1] if rng.random() < 0.5 else [rand_device(rng, "b%d" % i)]})
    n = 3 if not ctx.thorough else 24
    for i in range(n):
        old = None if rng.random() < 0.15 else [rand_device(rng, "o%d" % i) for _ in range(rng.randrange(0, 4))]
        new = [rand_device(rng, "n%d" % i) for _ in range(rng.randrange(0, 4))]
        if old and rng.random() < 0.5:
            new = old[:rng.randrange(0, len(old) + 1)] + new
        stale = None
        if rng.random() < 0.3:
            stale = rng.choice(["", "{", "garbage\n", json.dumps({"version": 1, "devices": []})])
        out.append({"name": "random-%d" % i, "old": old, "stale_tmp": stale, "new": new,
                    "filename": rng.choice(["pyatv.conf"] + FILENAMES + ["s%d.%s" % (i, rng.choice(["tmp", "conf.tmp", "json"]))]),
                    "layout": rng.choice(LAYOUTS), "faults": rng.random() < 0.5})
    return out


# --------------------------------------------------------------------------- driving the real code

class Driver:
    def __init__(self):
        self.loop = asyncio.new_event_loop()
        self.root = tempfile.mkdtemp(prefix="c15-", dir=common.BUILD)
        self.n = 0

    def close(self):
        try:
            self.loop.run_until_complete(self.loop.shutdown_default_executor())
        except Exception:
            pass
        self.loop.close()
        shutil.rmtree(self.root, ignore_errors=True)

    def run(self, coro):
        return self.loop.run_until_complete(coro)

    def fresh_dir(self):
        self.n += 1
        d = os.path.join(self.root, "d%d" % self.n)
        os.mkdir(d)
        return d

    def storage(self, d):
        from pyatv.storage.file_storage import FileStorage
        return FileStorage(os.path.join(d, storage_rel()), self.loop)

    def set_devices(self, st, devs):
        from pyatv.settings import Settings
        from pyatv.storage import StorageModel
        st.storage_model = StorageModel(version=1, devices=[Settings.parse_obj(x) for x in devs])

    def contents(self, st):
        return [json.loads(s.json()) for s in st.settings]

    def prepare(self, sc):
        """Bytes of the old storage file (written by the real, unpatched save) and of the stale tmp."""
        old_bytes = None
        if sc.get("old_file") is not None:          # the old file given literally (two-generation scenarios)
            old_bytes = sc["old_file"].encode("utf-8")
        elif sc.get("old") is not None:
            from pyatv.storage.file_storage import FileStorage
            d = self.fresh_dir()
            st = FileStorage(os.path.join(d, "old.conf"), self.loop)
            self.set_devices(st, sc["old"])
            # an old file always exists in this scenario, also for an empty device list
            if not st.changed:
                st._save_file()
            else:
                self.run(st.save())
            with open(os.path.join(d, "old.conf"), "rb") as fh:
                old_bytes = fh.read()
            shutil.rmtree(d)
        stale = None if sc.get("stale_tmp") is None else sc["stale_tmp"].encode("utf-8")
        return old_bytes, stale

    def restore(self, old_bytes, stale):
        """The directory before the save, laid out as the scenario says:
             plain              the storage path is a regular file
             symlink-same-dir   ... a symbolic link to a file next to it
             symlink-other-dir  ... a symbolic link to a file in another directory
             dangling-symlink   ... a symbolic link to nothing (no old content)
             hardlink           ... a second name of a file
             in-symlinked-dir   ... a regular file reached through a symbolic link to its directory"""
        d = self.fresh_dir()
        real = os.path.join(d, TARGET)
        if LAYOUT == "symlink-same-dir":
            real = os.path.join(d, "real-" + TARGET)
            os.symlink("real-" + TARGET, os.path.join(d, TARGET))
        elif LAYOUT == "symlink-other-dir":
            os.mkdir(os.path.join(d, "elsewhere"))
            real = os.path.join(d, "elsewhere", "real.conf")
            os.symlink(os.path.join("elsewhere", "real.conf"), os.path.join(d, TARGET))
        elif LAYOUT == "dangling-symlink":
            real = None
            os.symlink("nowhere-" + TARGET, os.path.join(d, TARGET))
        elif LAYOUT == "in-symlinked-dir":
            os.mkdir(os.path.join(d, "realdir"))
            os.symlink("realdir", os.path.join(d, "linkdir"))
            real = os.path.join(d, "realdir", TARGET)
        if old_bytes is not None and real is not None:
            with open(real, "wb") as fh:
                fh.write(old_bytes)
            if LAYOUT == "hardlink":
                os.link(real, os.path.join(d, "other-name-" + TARGET))
        if stale is not None:
            with open(os.path.join(d, TMPNAME), "wb") as fh:
                fh.write(stale)
        return d

    def load_fresh(self, d):
        st = self.storage(d)
        self.run(st.load())
        return self.contents(st)

    def save_with(self, sc, old_bytes, stale, crash, fault=None, short=None):
        """Run the real save of sc['new'] on top of the old directory under the recorder."""
        d = self.restore(old_bytes, stale)
        st = self.storage(d)
        self.run(st.load())
        self.set_devices(st, sc["new"])
        want = self.contents(st)
        rec = Recorder(d, crash, fault, short)
        err = None
        with rec:
            try:
                self.run(st.save())
            except Exception as ex:          # the save itself raising is reported by the caller
                if not rec.frozen:           # (whatever happens after the crash point is fiction)
                    err = "%s: %s" % (type(ex).__name__, ex)
        files = snapshot(d)
        rec.tree = tree(d)
        return d, rec, files, want, err


def new_bytes_of(drv, sc, old_bytes):
    _d, rec, _files, want, _err = drv.save_with(sc, old_bytes, None, None)
    rec.want = want
    return rec, b"".join(o[2] for o in rec.ops if o[0] in ("write", "os-write"))


def expand(ctx, drv, sc, limit):
    """Concrete scenarios (with their crash-point budget) for the relative / two-generation ones,
    and for each: the variants in which one call of the save is made to fail."""
    use_names(drv, sc)
    limit = min(limit, sc.get("limit", limit))
    base = expand_base(ctx, drv, sc, limit)
    out = list(base)
    if sc.get("faults"):
        for c, _lim in base[:2]:
            old_bytes, stale = drv.prepare(c)
            _d, rec, _f, _w, _e = drv.save_with(c, old_bytes, stale, None)
            for f in pick_calls(rec.ops, 8):
                o = rec.ops[f]
                if o[0] != "close":
                    out.append((dict(c, name="%s:fault-at-%d-%s" % (c["name"], f, o[0]), fault=f), min(limit, 24)))
                # the kernel takes only part of the data handed over by this flush
                p = rec.pending_before[f]
                if o[0] in ("flush", "close") and p:
                    for k in sorted({0, 1, p // 2, p - 1}):
                        out.append((dict(c, name="%s:short-write-%d-of-%d-at-%d" % (c["name"], k, p, f), fault=f, short=k), 8))
    return out


def expand_base(ctx, drv, sc, limit):
    if "stale_rel" in sc:
        old_bytes, _ = drv.prepare(dict(sc, stale_tmp=None))
        _rec, nb = new_bytes_of(drv, sc, old_bytes)
        n = {"longer": len(nb) + 41, "equal": len(nb), "shorter": len(nb) // 2}[sc["stale_rel"]]
        stale = ('{"version": 1, "devices": [{"info": {"name": "' + "s" * n)[:n - 5] + '"}}]}'[:5]
        c = {k: v for k, v in sc.items() if k not in ("stale_rel", "faults")}
        return [(dict(c, stale_tmp=stale), limit)]
    if "gen_a" in sc:
        old_bytes, _ = drv.prepare(dict(sc, stale_tmp=None))
        sc_a = {"name": sc["name"] + ":A", "new": sc["gen_a"], "filename": sc.get("filename"), "layout": sc.get("layout")}
        rec_a, a_bytes = new_bytes_of(drv, sc_a, old_bytes)
        _rec_b, b_bytes = new_bytes_of(drv, sc, old_bytes)
        pend = list(rec_a.pending_before) + [rec_a.final_pending]
        d0 = drv.restore(old_bytes, None)
        expect_old = drv.load_fresh(d0)
        states = {}
        for k in range(len(rec_a.ops) + 1):
            js = {0, 1, len(b_bytes) - 1, len(b_bytes), len(b_bytes) + 1, len(a_bytes) // 2, len(a_bytes) - 1, len(a_bytes)}
            for j in sorted(x for x in js if 0 <= x <= pend[k]):
                _d, _r, files, _w, _e = drv.save_with(sc_a, old_bytes, None, (k, j))
                loaded, load_err = None, None
                try:
                    loaded = drv.load_fresh(_d)
                except Exception as ex:
                    load_err = "%s: %s" % (type(ex).__name__, str(ex)[:120])
                shutil.rmtree(_d, ignore_errors=True)
                ctx.traces += 1
                bad = judge(loaded, load_err, expect_old, rec_a.want, rec_a.ops, files.get(TARGET), a_bytes, None)
                if bad:     # the first generation alone already breaks the property: report, do not build on it
                    ctx.violation(bad[0], bad[1], {"scenario": dict(sc_a, old=sc.get("old"), stale_tmp=None), "crash": [k, j],
                                                   "recorded_ops": op_names(rec_a.ops), "load_error": load_err})
                    continue
                states.setdefault((files.get(TARGET), files.get(TMPNAME)), (k, j))
        out = []
        # the states with the longest left-over temporary file get every crash point of the second save
        order = sorted(states.items(), key=lambda kv: -(len(kv[0][1]) if kv[0][1] is not None else -1))
        for i, ((tgt, tmp), (k, j)) in enumerate(order):
            c = {"name": "%s:A-died-at-%d.%d" % (sc["name"], k, j), "new": sc["new"], "filename": sc.get("filename"), "layout": sc.get("layout"),
                 "old_file": None if tgt is None else tgt.decode("utf-8"),
                 "stale_tmp": None if tmp is None else tmp.decode("utf-8")}
            out.append((c, limit if i < 2 else 16))
        ctx.count("two-generation:first-save-crash-states", len(out))
        return out
    return [({k: v for k, v in sc.items() if k != "faults"}, limit)]


def is_mixture(tgt, new, stale):
    """new content (or a prefix of it) followed by the tail of the stale temporary file"""
    if tgt is None or stale is None or not tgt or tgt == stale:
        return False
    k = 0
    while k < len(tgt) and k < len(new) and tgt[k] == new[k]:
        k += 1
    return k < len(tgt) and tgt[k:] == stale[k:len(tgt)] and len(tgt) == max(len(stale), k)


def describe(content, old, new):
    if content is None:
        return ("absent",)
    if old is not None and content == old:
        return ("old",)
    if content == new[:len(content)]:
        return ("newprefix", len(content))
    return ("raw", content)


def cdesc(x):
    if x[0] == "absent":
        return "DAbsent"
    if x[0] == "old":
        return "DOld"
    if x[0] == "newprefix":
        return "(DNewPrefix %d)" % x[1]
    return "(DRaw %s)" % common.cbytes(x[1])


def path_no(names, p):
    if p == TARGET:
        return 0
    if p == TMPNAME:
        return 1
    if p not in names:
        names.append(p)
    return 2 + names.index(p)


def cop(op, names):
    k = op[0]
    if k == "open-trunc":
        return "OpenTrunc %d" % path_no(names, op[1])
    if k == "open-notrunc":
        return "OpenNoTrunc %d" % path_no(names, op[1])
    if k == "write":
        return "Write %d %s" % (path_no(names, op[1]), common.cbytes(op[2]))
    if k in ("flush", "fsync", "close"):
        return "%s %d" % (k.capitalize(), path_no(names, op[1]))
    if k == "flush-short":
        return "FlushShort %d %d" % (path_no(names, op[1]), op[2])
    if k == "rename":
        return "Rename %d %d" % (path_no(names, op[1]), path_no(names, op[2]))
    return None


def op_names(ops):
    return [o[0] + ":" + ",".join(str(x) for x in o[1:] if not isinstance(x, bytes)) for o in ops]


MAX_CALLS = 14          # calls of one save used as crash / fault positions (all of them when there are fewer)
MAX_POINTS = 420        # crash points per scenario
MAX_VIOLATIONS = 5      # a scenario stops at that many failing crash points


def pick_calls(ops, cap=MAX_CALLS):
    """Indexes of the calls used as positions when a save issues many of them (e.g. a streaming
    writer): the first ones, the last ones, everything that is not a plain write, and writes at even
    distances in between."""
    n = len(ops)
    if n <= cap:
        return list(range(n))
    keep = {0, 1, 2, n - 1, n - 2}
    keep |= {i for i, o in enumerate(ops) if o[0] not in ("write", "os-write")}
    keep |= {i + 1 for i in list(keep) if i + 1 < n}      # ... and the call right after each of them
    writes = [i for i in range(n) if i not in keep]
    room = max(0, cap - len(keep))
    if writes and room:
        step = max(1, len(writes) // room)
        keep |= set(writes[::step][:room])
    return sorted(keep)


def crash_points(ctx, rec_full, limit):
    pts = []
    n = len(rec_full.ops)
    pend = list(rec_full.pending_before) + [rec_full.final_pending]
    ks = pick_calls(rec_full.ops) + [n]
    if n > MAX_CALLS:
        ctx.count("calls-sampled")
        limit = min(limit, 24)
    for k in ks:
        p = pend[k]
        if p <= limit:
            js = range(p + 1)
        else:
            s = {0, 1, 2, 3, p - 2, p - 1, p, p // 2}
            while len(s) < limit:
                s.add(ctx.rng.randrange(p + 1))
            js = sorted(s)
        for j in js:
            pts.append((k, j))
    if len(pts) > MAX_POINTS:
        # keep every (k, 0) and (k, all pending), thin out the rest evenly
        must = [x for x in pts if x[1] == 0 or x[1] == pend[x[0]]]
        rest = [x for x in pts if not (x[1] == 0 or x[1] == pend[x[0]])]
        step = max(1, len(rest) // max(1, MAX_POINTS - len(must)))
        pts = sorted(set(must + rest[::step]))
        ctx.count("points-sampled")
    return pts


def judge(loaded, load_err, expect_old, expect_new, ops, tgt=None, new_bytes=b"", stale=None):
    """The property, on what a fresh FileStorage.load() makes of the crash state."""
    inplace = any(o[0].startswith("open-") and o[1] == TARGET for o in ops) or \
        any(o[0] in ("truncate", "remove") and o[1] == TARGET for o in ops)
    key = "C15:save:truncate-in-place" if inplace else "C15:save:not-atomic"
    if not inplace and is_mixture(tgt, new_bytes, stale):
        key = "C15:save:mixed-content-from-stale-tmp"
        if load_err is not None or (loaded != expect_old and loaded != expect_new):
            return key, ("the storage file holds the new content followed by the tail of a temporary file left by an earlier "
                         "interrupted save (%s)" % (load_err or "loads as neither the previous nor the new settings"))
    kinds = [o[0] for o in ops]
    if kinds and kinds[0] == "open-trunc" and kinds[-1] == "close" and set(kinds[1:-1]) <= {"write"} \
            and all(o[1] == TARGET for o in ops):
        note = " [the recorded calls are the model's inplace_ops: theorem C15_inplace_refuted applies]"
    else:
        note = ""
    if load_err is not None:
        return key, "after a crash during save() the storage file no longer loads (%s)%s" % (load_err, note)
    if loaded != expect_old and loaded != expect_new:
        return key, "after a crash during save() the storage file holds neither the previous nor the new settings" + note
    return None


def run_scenario(ctx, drv, sc, limit, cases, only_crash=None):
    use_names(drv, sc)
    fault = sc.get("fault")
    short = sc.get("short")
    old_bytes, stale = drv.prepare(sc)
    # what the previous file means
    d0 = drv.restore(old_bytes, stale)
    try:
        expect_old = drv.load_fresh(d0)
    except Exception as ex:
        raise RuntimeError("old file of scenario %s does not load: %r" % (sc["name"], ex))
    # complete run: op list, pending sizes, and the unpatched reference result
    # reference: the same save without any substitution
    d_ref = drv.restore(old_bytes, stale)
    st = drv.storage(d_ref)
    drv.run(st.load())
    drv.set_devices(st, sc["new"])
    try:
        drv.run(st.save())
    except Exception as ex:
        ctx.tie_broken("save-raises", json.dumps({"scenario": sc["name"], "error": "%s: %s" % (type(ex).__name__, ex)}))
        return
    d, full, files_full, expect_new, err = drv.save_with(sc, old_bytes, stale, None, fault, short)
    if fault is not None and full.fault_done is not True:
        return                      # the save issues fewer calls than that / no flush with data at that call
    if fault is not None:
        ctx.count("fault-injected")
        ctx.count("fault:save-%s" % ("raised" if err else "returned"))
    if err and fault is None:
        ctx.tie_broken("correspondence:recorder-unsupported-call", json.dumps({"scenario": sc["name"], "error": err, "recorded_ops": op_names(full.ops)}))
        return
    ops = full.ops
    new_bytes = b"".join(o[2] for o in ops if o[0] in ("write", "os-write"))
    # completeness of the recording: both runs leave the same directory
    ref = tree(d_ref)
    if fault is None and ref != full.tree:
        ctx.tie_broken("correspondence:recorder-incomplete", json.dumps(
            {"scenario": sc["name"], "recorded_ops": op_names(ops),
             "files_with_recorder": {k: (v[0], len(v[1])) for k, v in full.tree.items()},
             "files_without": {k: (v[0], len(v[1])) for k, v in ref.items()}}))
    names = []
    cops = [cop(o, names) for o in ops]
    ctx.count("ops:" + (",".join(o[0] for o in ops) or "none"))
    pts = crash_points(ctx, full, limit) if only_crash is None else [tuple(only_crash)]
    obs = []
    nbad = 0
    for (k, j) in pts:
        if nbad >= MAX_VIOLATIONS or (only_crash is None and time.time() > ctx.extra.get("deadline", 1e18)):
            ctx.count("scenario-cut-short")
            break
        d, rec, files, _want, err = drv.save_with(sc, old_bytes, stale, (k, j), fault, short)
        ctx.traces += 1
        tgt = files.get(TARGET)
        tmp = files.get(TMPNAME)
        load_err = None
        loaded = None
        try:
            loaded = drv.load_fresh(d)
        except Exception as ex:
            load_err = "%s: %s" % (type(ex).__name__, str(ex)[:120])
        shutil.rmtree(d, ignore_errors=True)
        dt = describe(tgt, old_bytes, new_bytes)
        dm = describe(tmp, stale, new_bytes)
        obs.append((k, j, dt, dm))
        nontrivial = (k not in (0, len(ops))) or len(ops) == 0
        ctx.case((sc["name"], fault, k, j, dt[:2], dm[:2]), nontrivial=nontrivial,
                 sample={"scenario": sc["name"], "ops": op_names(ops), "crash_after_calls": k, "pending_bytes_written": j,
                         "storage_file": dt[0] if dt[0] != "newprefix" else "first %d bytes of new" % dt[1],
                         "tmp_file": dm[0] if dm[0] != "newprefix" else "first %d bytes of new" % dm[1],
                         "load": load_err or ("old" if loaded == expect_old else "new" if loaded == expect_new else "other")}
                 if (j in (0, 7) and k in (1, 2, 6)) else None)
        ctx.count("crash-after:%s" % (ops[k - 1][0] if 0 < k <= len(ops) else "nothing" if k == 0 else "end"))
        bad = judge(loaded, load_err, expect_old, expect_new, ops, tgt, new_bytes, stale)
        if bad and short is not None and tgt is not None and tgt != new_bytes and tgt == new_bytes[:len(tgt)] \
                and bad[0] == "C15:save:not-atomic":
            bad = ("C15:save:short-write-moved-in-place",
                   "the kernel accepted only part of the data (short write); the partially written temporary file was moved over the storage file")
        if bad:
            nbad += 1
            ctx.violation(bad[0], bad[1], {
                "scenario": sc, "crash": [k, j], "recorded_ops": op_names(ops)[:40],
                "storage_file_after_crash": None if tgt is None else tgt.decode("utf-8", "replace")[:300],
                "load_error": load_err})
        if fault is None and k == len(ops) and load_err is None and loaded != expect_new and not bad:
            ctx.violation("C15:save:completed-save-not-new", "a save() that ran to completion does not load as the new settings",
                          {"scenario": sc, "crash": [k, j]})
    if None in cops:
        ctx.tie_broken("correspondence:ops-outside-model", json.dumps({"scenario": sc["name"], "recorded_ops": op_names(ops)}))
    else:
        cases.append((sc, "(%s, %s, %s, %s, %s)" % (
            common.copt(old_bytes, common.cbytes), common.copt(stale, common.cbytes),
            "None" if fault is None else "(Some (%d, %s))" % (
                fault, common.copt(next((o[2] for o in ops if o[0] == "flush-short"), None) if short is not None else None, str)),
            common.clist(cops),
            common.clist(["(%d, %d, %s, %s)" % (k, j, cdesc(a), cdesc(b)) for (k, j, a, b) in obs])),
            op_names(ops)))


def run(ctx):
    ctx.build_property()
    if ctx.thorough:
        ctx.coqchk()
    global MAX_POINTS
    limit = 700 if not ctx.thorough else 100000
    MAX_POINTS = 420 if not ctx.thorough else 8000
    ctx.rule = ("per scenario (old storage file | none, optional stale temporary file - also longer than / equal to / shorter than "
                "the new content, and every directory an interrupted earlier save of a longer generation leaves behind - , new settings, "
                "storage file names with suffix .tmp / no suffix / several dots, the storage path a regular file / symbolic link (same dir, other dir, dangling) / hard link / "
                "inside a symlinked directory, optionally ONE call of the save made to fail with OSError or, for a flush, to be a short write): every crash point "
                "(k recorded file-system calls completed, j bytes of the pending buffer written; all j up to %d per buffer, "
                "sampled above) of the real FileStorage.save(); non-trivial = crash strictly inside the save; "
                "distinct by (scenario, k, j, resulting directory)" % limit)
    drv = Driver()
    cases = []
    try:
        scs = [dict(c["scenario"], name="corpus:" + f) for f, c in common.load_corpus(ctx.pid)] + scenarios(ctx)
        ctx.extra["deadline"] = time.time() + (150 if not ctx.thorough else 1200)
        failing = 0
        for sc0 in scs:
            if time.time() > ctx.extra["deadline"] or failing >= 6:
                ctx.count("scenarios-skipped")      # out of time, or enough failing scenarios to report
                continue
            for sc, lim in expand(ctx, drv, sc0, limit):
                nv = len(ctx.violations)
                run_scenario(ctx, drv, sc, lim, cases)
                failing += len(ctx.violations) > nv
                if time.time() > ctx.extra["deadline"] or failing >= 6:
                    break
        del ctx.extra["deadline"]
    finally:
        drv.close()
    items = []
    for i, (sc, term, _names) in enumerate(cases):
        txt = ("From Coq Require Import List NArith. Import ListNotations.\n"
               "From PV Require Import Common.Cases C15.Model.\n"
               "Definition cases : list (option bytes * option bytes * option (nat * option nat) * list op * list (nat * nat * desc * desc)) := [\n%s\n].\n"
               "Eval vm_compute in (bad_indices check_case cases).\n" % term)
        items.append(("cases_%03d" % i, txt))
    res = common.coq_run_many(items, ctx.pid, timeout=150 if not ctx.thorough else 600)
    for name, (rc, out) in sorted(res.items()):
        bad = common.parse_eval_nat_list(out) if rc == 0 else None
        sc, _t, names = cases[int(name.split("_")[1])]
        if bad is None:
            ctx.tie_broken("correspondence:" + name, out)
        elif bad:
            ctx.tie_broken("correspondence:save-protocol", json.dumps(
                {"scenario": sc["name"], "recorded_ops": names,
                 "expected": "open-trunc tmp, write.., flush, fsync, close, rename tmp->target; crash states as in the model"}))
    ctx.extra["crash_points_complete_per_scenario"] = bool(ctx.thorough)
    ctx.trusted += [
        "hand-written model coq/C15/Model.v of the file-system protocol of pyatv/storage/file_storage.py _save_file; tied on every run by "
        "comparing the recorded op list of the real save() with save_ops and every materialised crash directory with the model's crash state (vm_compute)",
        "harness/c15.py recorder: substitutes builtins.open/io.open/os.replace/os.rename/os.fsync/os.remove/os.truncate around the real save(); "
        "completeness of the recording is checked against an unsubstituted save of the same data",
        "crash model: process death (kernel state survives; the user-space buffer of an open file survives only as an arbitrary prefix); "
        "power loss / page-cache reordering is outside the model (fsync is recorded, not interpreted)",
    ]
    ctx.assumptions += [
        "os.replace (rename(2)) is atomic on the file system holding the storage file",
        "data handed to write(2) before the process dies is in the file afterwards; no other process writes the storage file or its .tmp sibling during the save",
    ]


def replay(ctx, path):
    d = json.load(open(path))
    r = d.get("replay", d)
    sc = dict(r["scenario"])
    sc.setdefault("name", "replay")
    drv = Driver()
    cases = []
    try:
        for sc2, _lim in expand(ctx, drv, sc, 100000):
            run_scenario(ctx, drv, sc2, 100000, cases, only_crash=r.get("crash"))
    finally:
        drv.close()
    for v in ctx.violations:
        print("%s: %s crash=%s ops=%s" % (v["key"], v["what"], v["replay"].get("crash"), v["replay"].get("recorded_ops")))
    print("property-errors=%d" % len(ctx.violations))
    return 1 if ctx.violations else 0
