"""C07 - encrypted channels deliver exactly what was sent, or fail.

Theorems in coq/C07.  This file
  * drives the REAL objects (HAPSession, AbstractHAPChannel, CompanionConnection, MrpConnection,
    AirPlayV2.send_audio_packet, Chacha20Cipher*) with real keys; their inner AEAD objects are
    replaced from outside by recorders that log (key, nonce, aad, plaintext, ciphertext) and
    return what the real library returned;
  * judges the property with an INDEPENDENT peer written directly on cryptography.hazmat
    (class Peer): what pyatv sends must be recovered exactly by the peer, what the peer sends must
    be delivered exactly by pyatv under every segmentation, every single-byte corruption must be
    rejected (never altered plaintext), no frame above 1024 bytes, no nonce reused under a key;
  * evaluates the Gallina model (coq/C07/Model.v) inside Coq on the same scenarios, with the AEAD
    answered from the table of recorded calls, and compares bytes / counters / deliveries.

A scenario is a small JSON-able dict; everything in it derives from ctx.rng.  Replay files and
corpus files hold one scenario.
"""
import hashlib
import json
import os
import re
import struct

import common

from cryptography.exceptions import InvalidTag
from cryptography.hazmat.primitives.ciphers.aead import ChaCha20Poly1305 as RefAEAD

TAG = 16
HAP_MAX = 1024
CHANS = ("hap", "hapchan", "comp", "mrp", "ap2")
KIND = {"hap": "(Gen 8)", "hapchan": "(Gen 8)", "comp": "(Gen 12)", "mrp": "LQ", "ap2": "LQ"}
NONCE_FMT = {"hap": "pad8", "hapchan": "pad8", "comp": "le12", "mrp": "pad8", "ap2": "pad8"}
COUNTER_LIMIT = {"hap": 1 << 64, "hapchan": 1 << 64, "comp": 1 << 96, "mrp": 1 << 64, "ap2": 1 << 64}
KEYNAME = {"hapchan": "hap", "comp": "companion"}
EXN = {"OverflowError": "OverflowError", "error": "StructError", "InvalidTag": "InvalidTag",
       "ValueError": "ValueError"}


# --------------------------------------------------------------------------- byte strings

def pattern(a, b, off, n):
    return bytes((((off + i) * a + b) % 251) for i in range(n))


def keys(kseed):
    ka = hashlib.sha256(b"C07-out-%d" % kseed).digest()
    kb = hashlib.sha256(b"C07-in-%d" % kseed).digest()
    return ka, kb


def lit(b):
    return "[" + ";".join(str(x) for x in b) + "]%N" if b else "[]"


class Sources:
    """Known long byte strings of one scenario, so that values can be written as slices."""

    def __init__(self):
        self.src = []       # (bytes, fn(off, n) -> coq text)
        self.literal = 0    # number of literal bytes emitted (cost estimate)

    def add_pattern(self, spec):
        a, b, off, n = spec
        if n > 24:
            self.src.append((pattern(a, b, off, n), lambda o, m, a=a, b=b, off=off: "(pat %d %d %d %d)" % (a, b, off + o, m)))

    def add_named(self, name, data):
        self.src.append((data, lambda o, m, name=name: "(slice %d %d %s)" % (o, m, name)))

    def whole(self, b):
        for s, fn in self.src:
            i = s.find(b)
            if i >= 0:
                return fn(i, len(b))
        return None

    def bx(self, b):
        """Coq text of a byte string: pieces of the known sources where possible, literals otherwise."""
        b = bytes(b)
        if len(b) <= 24:
            self.literal += len(b)
            return lit(b)
        w = self.whole(b)
        if w:
            return w
        parts, pos, pending = [], 0, bytearray()

        def flush():
            if pending:
                self.literal += len(pending)
                parts.append(lit(bytes(pending)))
                pending.clear()

        while pos < len(b):
            best = None
            probe = b[pos:pos + 32]
            if len(probe) >= 12:
                for s, fn in self.src:
                    o = s.find(probe)
                    if o < 0:
                        continue
                    n = len(probe)
                    while pos + n < len(b) and o + n < len(s) and b[pos + n] == s[o + n]:
                        n += 1
                    if best is None or n > best[0]:
                        best = (n, fn(o, n))
            if best:
                flush()
                parts.append(best[1])
                pos += best[0]
            else:
                pending.append(b[pos])
                pos += 1
        flush()
        return "(" + " ++ ".join(parts) + ")"


# --------------------------------------------------------------------------- recorder

class Rec:
    """Stands in front of one real AEAD object of pyatv."""

    def __init__(self, inner, kid, log):
        self.inner, self.kid, self.log = inner, kid, log

    def encrypt(self, nonce, data, aad):
        ct = self.inner.encrypt(nonce, data, aad)
        self.log.append(("enc", self.kid, bytes(nonce), bytes(aad or b""), bytes(data), bytes(ct)))
        return ct

    def decrypt(self, nonce, data, aad):
        try:
            pt = self.inner.decrypt(nonce, data, aad)
        except Exception:
            self.log.append(("dec", self.kid, bytes(nonce), bytes(aad or b""), None, bytes(data)))
            raise
        self.log.append(("dec", self.kid, bytes(nonce), bytes(aad or b""), bytes(pt), bytes(data)))
        return pt


def instrument(cipher, log):
    cipher._enc_out = Rec(cipher._enc_out, 0, log)
    cipher._enc_in = Rec(cipher._enc_in, 1, log)


# --------------------------------------------------------------------------- independent peer

def peer_nonce(fmt, c):
    if fmt == "pad8":
        return b"\x00\x00\x00\x00" + struct.pack("<Q", c)
    return c.to_bytes(12, "little")


def varint(n):
    out = bytearray()
    while True:
        if n < 0x80:
            out.append(n)
            return bytes(out)
        out.append((n & 0x7F) | 0x80)
        n >>= 7


class Peer:
    """The other end of a channel: framing per docs/documentation/protocols.md and the HAP
    specification, AEAD straight from cryptography.  send key = pyatv's input key."""

    def __init__(self, chan, kseed, send_counter=0, recv_counter=0):
        ka, kb = keys(kseed)
        self.chan = chan
        self.fmt = NONCE_FMT[chan]
        self.tx = RefAEAD(kb)
        self.rx = RefAEAD(ka)
        self.sc = send_counter
        self.rc = recv_counter
        self.table = []     # what this peer encrypted: (kid=1, nonce, aad, pt, ct)

    def _seal(self, pt, aad):
        n = peer_nonce(self.fmt, self.sc)
        self.sc += 1
        ct = self.tx.encrypt(n, pt, aad if aad else None)
        self.table.append((1, n, aad or b"", pt, ct))
        return ct

    def _open(self, ct, aad):
        n = peer_nonce(self.fmt, self.rc)
        self.rc += 1
        return self.rx.decrypt(n, ct, aad if aad else None)

    # -- HAP
    def hap_seal(self, data, sizes):
        out, pos, i = b"", 0, 0
        while pos < len(data):
            sz = sizes[i % len(sizes)] if sizes else HAP_MAX
            i += 1
            frame = data[pos:pos + sz]
            pos += len(frame)
            lb = struct.pack("<H", len(frame))
            out += lb + self._seal(frame, lb)
        return out

    def hap_empty_frame(self):
        """A frame without payload: length 0 and the tag over nothing (uses up one counter value)."""
        lb = struct.pack("<H", 0)
        return lb + self._seal(b"", lb)

    def hap_open(self, stream):
        out, pos = b"", 0
        while pos < len(stream):
            if pos + 2 > len(stream):
                raise ValueError("truncated length")
            (n,) = struct.unpack("<H", stream[pos:pos + 2])
            if n > HAP_MAX:
                raise ValueError("frame of %d bytes exceeds 1024" % n)
            blk = stream[pos + 2:pos + 2 + n + TAG]
            if len(blk) != n + TAG:
                raise ValueError("truncated frame")
            out += self._open(blk, stream[pos:pos + 2])
            pos += 2 + n + TAG
        return out

    # -- Companion
    def comp_seal(self, ft, data, encrypted=True):
        if encrypted and data:
            hdr = bytes([ft]) + (len(data) + TAG).to_bytes(3, "big")
            return hdr + self._seal(data, hdr)
        return bytes([ft]) + len(data).to_bytes(3, "big") + data

    def comp_open(self, stream, encrypted=True):
        out, pos = [], 0
        while pos < len(stream):
            hdr = stream[pos:pos + 4]
            if len(hdr) != 4:
                raise ValueError("truncated header")
            n = int.from_bytes(hdr[1:], "big")
            body = stream[pos + 4:pos + 4 + n]
            if len(body) != n:
                raise ValueError("truncated frame")
            pos += 4 + n
            out.append([hdr[0], self._open(body, hdr) if (encrypted and n) else body])
        return out

    # -- MRP
    def mrp_seal(self, data, encrypted=True):
        ct = self._seal(data, b"") if encrypted else data
        return varint(len(ct)) + ct

    def mrp_open(self, stream, encrypted=True):
        out, pos = [], 0
        while pos < len(stream):
            n, shift = 0, 0
            while True:
                if pos >= len(stream):
                    raise ValueError("truncated varint")
                b = stream[pos]
                pos += 1
                n |= (b & 0x7F) << shift
                shift += 7
                if not b & 0x80:
                    break
            body = stream[pos:pos + n]
            if len(body) != n:
                raise ValueError("truncated message")
            pos += n
            out.append(self._open(body, b"") if encrypted else body)
        return out

    # -- AirPlay 2 audio packet (RTP header 12 bytes, ciphertext, tag, 8 nonce bytes)
    def ap2_open(self, pkt, encrypted=True):
        if not encrypted:
            return pkt[12:]
        if len(pkt) < 12 + TAG + 8:
            raise ValueError("short packet")
        return self.rx.decrypt(b"\x00\x00\x00\x00" + pkt[-8:], pkt[12:-8], pkt[4:12])


# --------------------------------------------------------------------------- real objects

class FakeTransport:
    def __init__(self):
        self.out = []
        self.closed = False

    def write(self, data):
        self.out.append(bytes(data))

    def sendto(self, data, addr=None):
        self.out.append(bytes(data))

    def close(self):
        self.closed = True

    def is_closing(self):
        return self.closed


class CompListener:
    def __init__(self):
        self.got = []

    def frame_received(self, frame_type, data):
        self.got.append([frame_type.value, bytes(data)])


class MrpListener:
    def __init__(self):
        self.got = []

    def message_received(self, parsed, data):
        self.got.append(bytes(data))

    def stop(self):
        pass


def exn_name(ex):
    return EXN.get(type(ex).__name__, type(ex).__name__)


class Real:
    """One pyatv endpoint of the given channel with recorders installed."""

    def __init__(self, chan, kseed, enc=True, out_counter=0, in_counter=0):
        ka, kb = keys(kseed)
        self.chan, self.enc = chan, enc
        self.log = []
        self.tr = FakeTransport()
        self.cipher = None
        if chan == "hap":
            from pyatv.auth.hap_session import HAPSession
            self.obj = HAPSession()
            if enc:
                self.obj.enable(ka, kb)
                self.cipher = self.obj.chacha20
        elif chan == "hapchan":
            from pyatv.auth.hap_channel import AbstractHAPChannel

            class Chan(AbstractHAPChannel):
                def handle_received(self):
                    pass

            self.obj = Chan(ka, kb)
            self.obj.transport = self.tr
            self.cipher = self.obj.session.chacha20
        elif chan == "comp":
            from pyatv.protocols.companion.connection import CompanionConnection
            self.obj = CompanionConnection(None, "verif", 0)
            self.obj.transport = self.tr
            self.listener = CompListener()
            self.obj.set_listener(self.listener)
            if enc:
                self.obj.enable_encryption(ka, kb)
                self.cipher = self.obj._chacha
        elif chan == "mrp":
            from pyatv.protocols.mrp.connection import MrpConnection
            self.obj = MrpConnection("verif", 0, None)
            self.obj._transport = self.tr
            self.listener = MrpListener()
            self.obj.listener = self.listener
            if enc:
                self.obj.enable_encryption(ka, kb)
                self.cipher = self.obj._chacha
        elif chan == "ap2":
            from pyatv.protocols.raop.protocols import StreamContext
            from pyatv.protocols.raop.protocols.airplayv2 import AirPlayV2
            from pyatv.support.chacha20 import Chacha20Cipher8byteNonce
            self.obj = AirPlayV2(StreamContext(), None)
            if enc:
                # what setup_audio_stream does with the shared secret
                self.obj._cipher = Chacha20Cipher8byteNonce(ka, ka)
                self.cipher = self.obj._cipher
        else:
            raise ValueError(chan)
        if self.cipher is not None:
            instrument(self.cipher, self.log)
            # a fresh object must start at 0 by itself; other start values are set from outside
            if out_counter:
                self.cipher._out_counter = out_counter
            if in_counter:
                self.cipher._in_counter = in_counter

    # -- sending: returns the bytes written for this message
    def send(self, msg):
        n0 = len(self.tr.out)
        if self.chan == "hap":
            return bytes(self.obj.encrypt(msg))
        if self.chan == "hapchan":
            self.obj.send(msg)
        elif self.chan == "comp":
            from pyatv.protocols.companion.connection import FrameType
            self.obj.send(FrameType(msg[0]), msg[1])
        elif self.chan == "mrp":
            if isinstance(msg, tuple):      # ("msg", serialized): go through send(message)
                from pyatv.protocols.mrp import protobuf
                pm = protobuf.ProtocolMessage()
                pm.ParseFromString(msg[1])
                self.obj.send(pm)
            else:
                self.obj.send_raw(msg)
        elif self.chan == "ap2":
            coro = self.obj.send_audio_packet(self.tr, msg[0], msg[1])
            try:
                coro.send(None)
                raise RuntimeError("send_audio_packet suspended")
            except StopIteration as done:
                pkt = done.value[1]
            if self.tr.out[n0:] != [pkt]:
                raise RuntimeError("send_audio_packet returned a packet it did not send")
        return b"".join(self.tr.out[n0:])

    def out_counter(self):
        return self.cipher._out_counter if self.cipher is not None else 0

    def in_counter(self):
        return self.cipher._in_counter if self.cipher is not None else 0

    # -- receiving one read
    def feed(self, data):
        if self.chan == "hap":
            return bytes(self.obj.decrypt(data))
        if self.chan == "hapchan":
            n0 = len(self.obj.buffer)
            self.obj.data_received(data)
            return bytes(self.obj.buffer[n0:])
        self.obj.data_received(data)
        return None

    def residual(self):
        if self.chan == "hap":
            return len(self.obj._encrypted_data)
        if self.chan == "hapchan":
            return len(self.obj.session._encrypted_data)
        return len(self.obj._buffer)


# --------------------------------------------------------------------------- scenario helpers

def msg_bytes(chan, m):
    """Scenario message spec -> what is handed to the real send / the plaintext."""
    if chan in ("hap", "hapchan"):
        return pattern(*m)
    if chan == "comp":
        return (m[0], pattern(*m[1]))
    if chan == "mrp":
        return mrp_message(m) if m[0] == "msg" else pattern(*m)
    if chan == "ap2":
        return (bytes.fromhex(m[0]), pattern(*m[1]))
    raise ValueError(chan)


def mrp_message(m):
    """('msg', type, letter, n): a real ProtocolMessage whose identifier is n copies of a letter."""
    from pyatv.protocols.mrp import protobuf
    pm = protobuf.ProtocolMessage()
    pm.type = m[1]
    pm.identifier = chr(m[2]) * m[3]
    return pm.SerializeToString()


def plain_of(chan, m):
    b = msg_bytes(chan, m)
    if chan == "comp":
        return [b[0], b[1]]
    if chan == "ap2":
        return b[1]
    return b


def add_sources(src, chan, msgs):
    for m in msgs:
        if chan in ("hap", "hapchan"):
            src.add_pattern(m)
        elif chan == "comp":
            src.add_pattern(m[1])
        elif chan == "mrp":
            if m[0] == "msg":
                src.add_pattern((0, m[2], 0, m[3]))
            else:
                src.add_pattern(m)
        elif chan == "ap2":
            src.add_pattern(m[1])


def coq_msg(src, chan, m):
    b = msg_bytes(chan, m)
    if chan == "comp":
        return "(%d%%N, %s)" % (b[0], src.bx(b[1]))
    if chan == "ap2":
        return "(%s, %s)" % (src.bx(b[0]), src.bx(b[1]))
    if chan == "mrp" and isinstance(b, tuple):
        b = b[1]
    return src.bx(b)


def coq_tab(src, entries):
    seen, rows = set(), []
    for (kid, n, a, p, c) in entries:
        k = (kid, n, a, p, c)
        if k in seen:
            continue
        seen.add(k)
        rows.append("(%d%%N, %s, %s, %s, %s)" % (kid, lit(n), lit(a), src.bx(p), src.bx(c)))
        src.literal += len(n) + len(a)
    return "[" + ";\n  ".join(rows) + "]"


def coq_state(chan, enc, co, ci):
    return "(mko %s %s %d %d)" % ("true" if enc else "false", KIND[chan], co, ci)


# --------------------------------------------------------------------------- send scenarios

def run_send(sc):
    """Drive the real sender; judge with the peer.  Returns (obs, violations)."""
    chan, enc, c0 = sc["chan"], sc.get("enc", True), sc.get("c0", 0)
    real = Real(chan, sc["kseed"], enc, out_counter=c0)
    outs, exc = [], None
    for m in sc["msgs"]:
        b = msg_bytes(chan, m)
        if chan == "mrp" and m[0] == "msg" and sc.get("via_send", True):
            b = ("msg", b)
        try:
            outs.append(real.send(b))
        except Exception as ex:  # noqa
            exc = exn_name(ex)
            break
    obs = {"outs": outs, "exc": exc, "counter": real.out_counter(), "log": real.log}
    viol = []
    key = KEYNAME.get(chan, chan)
    sent = [plain_of(chan, m) for m in sc["msgs"][:len(outs)]]
    # 1. the peer recovers exactly what was sent
    peer = Peer(chan, sc["kseed"], recv_counter=c0)
    try:
        if chan in ("hap", "hapchan"):
            got = peer.hap_open(b"".join(outs)) if enc else b"".join(outs)
            want = b"".join(sent)
        elif chan == "comp":
            got = peer.comp_open(b"".join(outs), enc)
            want = sent
        elif chan == "mrp":
            got = peer.mrp_open(b"".join(outs), enc)
            want = sent
        else:
            got = [peer.ap2_open(o, enc) for o in outs]
            want = sent
            for o, m in zip(outs, sc["msgs"]):
                if o[:len(m[0]) // 2] != bytes.fromhex(m[0]):
                    viol.append(("C07:ap2:header-altered", "audio packet does not start with the RTP header it was given"))
        if got != want:
            viol.append(("C07:%s:peer-cannot-recover" % key, "independent peer decrypts something else than what was sent"))
    except (InvalidTag, ValueError) as ex:
        viol.append(("C07:%s:peer-cannot-recover" % key, "independent peer cannot decrypt what pyatv sent: %s %s" % (type(ex).__name__, ex)))
    # 2. frame bound, nonce reuse, overflow only at the limit
    seen = set()
    for (op, kid, n, a, p, c) in real.log:
        if op != "enc":
            continue
        if chan in ("hap", "hapchan") and len(p) > HAP_MAX:
            viol.append(("C07:hap:frame-too-large", "a %d byte plaintext frame was encrypted (limit 1024)" % len(p)))
        if chan in ("hap", "hapchan") and (len(p) == 0 or a != struct.pack("<H", len(p))):
            viol.append(("C07:hap:length-not-authenticated", "frame length is not the AAD of the frame"))
        if (kid, n) in seen:
            viol.append(("C07:%s:nonce-reuse" % key, "nonce %s used twice under one key" % n.hex()))
        seen.add((kid, n))
    if enc and chan == "comp":
        nonempty = [m for m in sc["msgs"][:len(outs)] if m[1][3] > 0]
        if len([e for e in real.log if e[0] == "enc"]) != len(nonempty):
            viol.append(("C07:companion:payload-not-encrypted", "a non-empty payload was sent without encryption"))
    if enc and chan in ("mrp", "ap2", "hap", "hapchan") and outs and not [e for e in real.log if e[0] == "enc"] and any(sent):
        viol.append(("C07:%s:payload-not-encrypted" % key, "data was sent without encryption"))
    if exc is not None:
        # the only legitimate failure: the counter no longer fits its nonce field
        if not (enc and exc in ("OverflowError", "StructError") and real.out_counter() >= COUNTER_LIMIT[chan]):
            viol.append(("C07:%s:send-raises" % key, "sending raised %s" % exc))
    return obs, viol


def coq_send_case(sc, obs, src, sname):
    chan, enc, c0 = sc["chan"], sc.get("enc", True), sc.get("c0", 0)
    tab = coq_tab(src, [(kid, n, a, p, c) for (op, kid, n, a, p, c) in obs["log"] if op == "enc"])
    msgs = "[" + "; ".join(coq_msg(src, chan, m) for m in sc["msgs"]) + "]"
    outs = "[" + "; ".join(src.bx(o) for o in obs["outs"]) + "]"
    fin = "(inl %d%%N)" % obs["counter"] if obs["exc"] is None else "(inr %s)" % obs["exc"]
    return "(%s, %s, %s, (%s, %s))" % (tab, coq_state(chan, enc, c0, 0), msgs, outs, fin)


# --------------------------------------------------------------------------- receive scenarios

def build_stream(sc):
    """The peer's byte stream for the scenario's messages, the plaintext per frame and the byte
    range of every frame in the stream."""
    chan, enc, c0 = sc["chan"], sc.get("enc", True), sc.get("c0", 0)
    peer = Peer(chan, sc["kseed"], send_counter=c0)
    parts, plains = [], []
    for m in sc["msgs"]:
        p = plain_of(chan, m)
        if chan in ("hap", "hapchan"):
            sizes = sc.get("peer_frames") or [HAP_MAX]
            # one part per HAP frame so that the corrupted frame can be located
            pos, i = 0, sc.get("_fi", 0)
            while pos < len(p):
                sz = sizes[i % len(sizes)]
                i += 1
                fr = p[pos:pos + sz]
                pos += len(fr)
                if enc and not fr:
                    parts.append(peer.hap_empty_frame())     # a peer may send frames without payload
                else:
                    parts.append(peer.hap_seal(fr, [HAP_MAX]) if enc else fr)
                plains.append(fr)
            sc["_fi"] = i
        elif chan == "comp":
            parts.append(peer.comp_seal(p[0], p[1], enc))
            plains.append(p)
        elif chan == "mrp":
            parts.append(peer.mrp_seal(p, enc))
            plains.append(p)
    sc.pop("_fi", None)
    if sc.get("replay_part") is not None:
        # an old frame is sent again at the end: it must not be delivered a second time
        parts.append(parts[sc["replay_part"]])
    return peer, parts, plains


def run_recv_variant(sc, parts, plains, var):
    """Feed one (segmentation, corruption) variant to a fresh real receiver."""
    chan, enc, c0 = sc["chan"], sc.get("enc", True), sc.get("c0", 0)
    stream = bytearray(b"".join(parts))
    tam = var.get("tamper")
    bad, in_prefix = None, False
    if tam:
        pos, val = tam
        assert stream[pos] != val
        stream[pos] = val
        acc = 0
        for i, p in enumerate(parts):
            if pos < acc + len(p):
                bad = i
                in_prefix = chan in ("hap", "hapchan") and pos - acc < 2
                break
            acc += len(p)
    stream = bytes(stream)
    real = Real(chan, sc["kseed"], enc, in_counter=c0)
    chunks, pos = [], 0
    for n in var["lens"]:
        chunks.append(stream[pos:pos + n])
        pos += n
    if pos < len(stream):
        chunks.append(stream[pos:])
    outs, exc, closed = [], None, False
    for ch in chunks:
        # a connection that failed (data_received raised: asyncio closes the transport) or that
        # closed its transport itself receives nothing further
        try:
            o = real.feed(ch)
        except Exception as ex:  # noqa
            exc = exn_name(ex)
            break
        outs.append(o)
        if real.tr.closed:
            closed = True
            break
    if chan in ("comp", "mrp"):
        got = real.listener.got
    else:
        got = outs
    obs = {"got": got, "exc": exc, "counter": real.in_counter(), "residual": real.residual(),
           "log": real.log, "bad": bad, "closed": closed, "in_prefix": in_prefix}
    obs["replayed"] = len(parts) > len(plains)
    return obs, judge_recv(sc, plains, var, obs)


def judge_recv(sc, plains, var, obs):
    chan = sc["chan"]
    replayed = obs["replayed"]
    key = KEYNAME.get(chan, chan)
    viol = []
    tam, bad, got, exc = var.get("tamper"), obs["bad"], obs["got"], obs["exc"]
    if chan in ("hap", "hapchan"):
        data = b"".join(got)
        want = b"".join(plains)
        if not tam:
            if replayed and sc.get("enc", True):
                if exc is None or not want.startswith(data):
                    # (the exception discards the output of the call it ends)
                    viol.append(("C07:%s:replay-accepted" % key, "a frame sent a second time was not rejected"))
            elif exc is not None:
                viol.append(("C07:%s:receive-raises" % key, "receiving an untampered stream raised %s" % exc))
            elif data != want:
                viol.append(("C07:%s:receive-mismatch" % key, "delivered plaintext differs from what the peer sent (segmentation %s)" % var["lens"][:6]))
            elif sc.get("enc", True) and (obs["residual"] != 0 or obs["counter"] != sc.get("c0", 0) + len(plains)):
                viol.append(("C07:%s:receive-state" % key, "buffer or counter not in step after a complete stream"))
        else:
            limit = len(b"".join(plains[:bad])) if sc.get("enc", True) else None
            if limit is None:
                pass
            elif not want.startswith(data) or len(data) > limit:
                viol.append(("C07:%s:tamper-accepted" % key, "corrupted byte %d (frame %d), reads %s: the application got %d bytes%s; only the %d bytes before the "
                             "corrupted frame may be delivered and nothing after it" % (
                                 tam[0], obs["bad"], var["lens"][:8] or "whole", len(data),
                                 "" if want.startswith(data) else " that are NOT a prefix of the sent stream (a hole)", limit)))
            elif exc is None and not obs["closed"] and not obs["in_prefix"]:
                # every byte of the corrupted frame arrived: the channel has to report the failure
                # (only a corrupted length prefix may legitimately leave it waiting for more bytes)
                viol.append(("C07:%s:tamper-not-reported" % key, "corrupted byte %d (frame %d), reads %s: the modified frame was neither delivered nor "
                             "reported - no exception, transport not closed" % (tam[0], obs["bad"], var["lens"][:8] or "whole")))
        return viol
    # Companion / MRP: deliveries are frames; a dropped frame does not stop the connection
    if exc is not None:
        viol.append(("C07:%s:receive-raises" % key, "data_received raised %s" % exc))
        return viol
    if not tam:
        want = [p for p in plains]
        if chan == "comp":
            known = known_frame_types()
            want = [p for p in plains if p[0] in known]
        if got != want:
            viol.append(("C07:%s:%s" % (key, "replay-accepted" if replayed and got[:len(want)] == want else "receive-mismatch"),
                         "delivered frames differ from what the peer sent (segmentation %s)" % var["lens"][:6]))
        elif obs["residual"] != 0:
            viol.append(("C07:%s:receive-state" % key, "bytes left in the buffer after a complete stream"))
        return viol
    if not sc.get("enc", True):
        return viol
    ptr = 0
    for d in got:
        j = ptr
        while j < len(plains) and not (plains[j] == d and j != bad):
            j += 1
        if j < len(plains):
            ptr = j + 1
        elif chan == "comp" and len(d[1]) == 0:
            viol.append(("C07:companion:empty-frame-unauthenticated",
                         "corrupted byte %d: frame (type %d, empty payload) delivered although never sent" % (tam[0], d[0])))
        else:
            viol.append(("C07:%s:tamper-accepted" % key, "corrupted byte %d: delivered a frame that was not sent or whose bytes were modified" % tam[0]))
    return viol


_KNOWN = []


def known_frame_types():
    if not _KNOWN:
        from pyatv.protocols.companion.connection import FrameType
        _KNOWN.extend(sorted(f.value for f in FrameType))
    return _KNOWN


def coq_recv_cases(sc, peer, parts, plains, results, src, sname):
    """One Coq case per variant; the stream is the named literal [sname]."""
    chan, enc, c0 = sc["chan"], sc.get("enc", True), sc.get("c0", 0)
    tab = "T_" + sname
    out = []
    for var, obs in results:
        stream = sname
        if var.get("tamper"):
            stream = "(upd %d %d %s)" % (var["tamper"][0], var["tamper"][1], sname)
        lens = "[" + ";".join(str(n) for n in var["lens"]) + "]%N"
        st = coq_state(chan, enc, 0, c0)
        if chan in ("hap", "hapchan"):
            outs = "[" + "; ".join(src.bx(o) for o in obs["got"]) + "]"
            fin = "(inl (%d%%N, %d%%N))" % (obs["counter"], obs["residual"]) if obs["exc"] is None else "(inr %s)" % obs["exc"]
            out.append("(%s, %s, %s, %s, %s, %s)" % (tab, st, stream, lens, outs, fin))
        elif chan == "comp":
            got = "[" + "; ".join("(%d%%N, %s)" % (d[0], src.bx(d[1])) for d in obs["got"]) + "]"
            known = "[" + ";".join(str(k) for k in known_frame_types()) + "]%N"
            out.append("(%s, %s, %s, %s, %s, %s, %d%%N, %d%%N)" % (tab, known, st, stream, lens, got, obs["counter"], obs["residual"]))
        else:
            got = "[" + "; ".join(src.bx(d) for d in obs["got"]) + "]"
            out.append("(%s, %s, %s, %s, %s, %d%%N, %d%%N)" % (tab, st, stream, lens, got, obs["counter"], obs["residual"]))
    return out


# --------------------------------------------------------------------------- Coq batches

TYPES = {
    "nonce": ("check_nonce", "ckind * N * option bytes"),
    "encn": ("check_enc_n", "tab * ckind * bytes * bytes * bytes * bytes * N"),
    "hap_send": ("check_hap_send", "tab * option (cipher N) * list bytes * outcome"),
    "comp_send": ("check_comp_send", "tab * option (cipher N) * list (N * bytes) * outcome"),
    "mrp_send": ("check_mrp_send", "tab * option (cipher N) * list bytes * outcome"),
    "ap2_send": ("check_ap2_send", "tab * option (cipher N) * list (bytes * bytes) * outcome"),
    "hap_recv": ("check_hap_recv", "tab * option (cipher N) * bytes * list N * list bytes * (N * N + exn)"),
    "comp_recv": ("check_comp_recv", "tab * list N * option (cipher N) * bytes * list N * list (N * bytes) * N * N"),
    "mrp_recv": ("check_mrp_recv", "tab * option (cipher N) * bytes * list N * list bytes * N * N"),
    "comp_bound": ("check_comp_bound", "bool * N * N * option bytes"),
    "variant": ("check_variant", "N * bytes"),
    "read_variant": ("check_read_variant", "bytes * option (N * N)"),
}
GROUP_OF = {"hap": "hap", "hapchan": "hap", "comp": "comp", "mrp": "mrp", "ap2": "ap2"}


class Batch:
    """Packs scenarios (shared definitions + cases) into Coq files of bounded cost."""

    def __init__(self, ctx, budget=26000):
        self.ctx = ctx
        self.budget = budget
        self.files = []      # list of dict(defs=[], groups={g: [(text, meta)]}, cost)
        self.cur = None

    def add(self, defs, cases, cost):
        """defs: list of Coq definitions; cases: list of (group, text, meta)."""
        if self.cur is None or self.cur["cost"] + cost > self.budget:
            self.cur = {"defs": [], "groups": {}, "cost": 0}
            self.files.append(self.cur)
        self.cur["defs"] += defs
        for g, t, m in cases:
            self.cur["groups"].setdefault(g, []).append((t, m))
        self.cur["cost"] += cost

    def run(self, timeout=900):
        d = os.path.join(common.BUILD, "cases", self.ctx.pid)
        if os.path.isdir(d):
            for f in os.listdir(d):
                if f.startswith("cases_"):
                    try:
                        os.unlink(os.path.join(d, f))
                    except OSError:
                        pass
        items, index = [], {}
        for i, f in enumerate(self.files):
            name = "cases_%03d" % i
            txt = ["From Coq Require Import List NArith Bool. Import ListNotations.",
                   "From PV Require Import Common.Cases C07.Model.", "Local Open Scope N_scope."]
            txt += f["defs"]
            order = []
            for g, cs in f["groups"].items():
                fn, typ = TYPES[g]
                txt.append("Definition cases_%s : list (%s) := [\n%s\n]." % (g, typ, ";\n".join(t for t, _ in cs)))
                txt.append("Eval vm_compute in (bad_indices %s cases_%s)." % (fn, g))
                order.append(g)
            items.append((name, "\n".join(txt) + "\n"))
            index[name] = (f, order)
        res = common.coq_run_many(items, self.ctx.pid, timeout=timeout, par=12)
        mism = []
        n = 0
        for name, (rc, out) in sorted(res.items()):
            f, order = index[name]
            lists = re.findall(r"=\s*(\[[^\]]*\])\s*:\s*list nat", out, re.S) if rc == 0 else []
            if rc != 0 or len(lists) != len(order):
                self.ctx.tie_broken("correspondence:%s" % name, out)
                continue
            for g, l in zip(order, lists):
                body = l.strip()[1:-1].strip()
                bad = [int(x.replace("%nat", "").strip()) for x in body.split(";")] if body else []
                n += len(f["groups"][g])
                for b in bad:
                    mism.append((g, f["groups"][g][b][1]))
        self.ctx.traces += n
        return mism


# --------------------------------------------------------------------------- generators

def rnd_pat(rng, n, off=None):
    return [rng.randrange(1, 251), rng.randrange(251), rng.randrange(1000) if off is None else off, n]


def hap_sizes(ctx):
    base = [0, 1, 2, 15, 16, 17, 1023, 1024, 1025, 2047, 2048, 2049, 3071, 3072, 3073]
    if ctx.thorough:
        base += [4095, 4096, 4097, 5120, 8191, 8192, 8193]
    return base


def counters_for(chan, rng):
    lim = COUNTER_LIMIT[chan]
    return [0, 1, 255, 256, 65535, 65536, (1 << 32) - 1, 1 << 32, (1 << 63) + rng.randrange(1 << 20), lim - 2]


def gen_send(ctx):
    rng = ctx.rng
    out = []
    k = 0

    def sc(chan, msgs, **kw):
        nonlocal k
        k += 1
        d = {"kind": "send", "chan": chan, "kseed": rng.randrange(1 << 30), "msgs": msgs}
        d.update(kw)
        out.append(d)

    # HAP: every size around the frame limit and its multiples, alone and in sequences
    for i, n in enumerate(hap_sizes(ctx)):
        sc("hap" if i % 2 else "hapchan", [rnd_pat(rng, n)], c0=rng.choice([0, 1, 255, 256, 70000]))
    for _ in range(12 if not ctx.thorough else 40):
        ms = [rnd_pat(rng, rng.choice([1, 5, 100, 1023, 1024, 1025, 1500, 2048, 2500, rng.randrange(3100)])) for _ in range(rng.randrange(2, 5))]
        sc(rng.choice(["hap", "hapchan"]), ms, c0=rng.choice(counters_for("hap", rng)[:9]))
    sc("hap", [rnd_pat(rng, 40), rnd_pat(rng, 2049)], enc=False)
    # counters: byte carries and the end of the counter space (the third frame does not fit)
    for c0 in counters_for("hap", rng):
        sc("hap", [rnd_pat(rng, 3), rnd_pat(rng, 1030)], c0=c0)
    # Companion
    fts = known_frame_types()
    for n in [0, 1, 2, 239, 240, 255, 256, 257, 1024, 65519, 65520, 65536] if ctx.thorough else [0, 1, 2, 239, 240, 255, 256, 257, 1024]:
        sc("comp", [[rng.choice(fts), rnd_pat(rng, n)]], c0=rng.choice([0, 255, 256]))
    for _ in range(5 if not ctx.thorough else 30):
        ms = [[rng.choice(fts), rnd_pat(rng, rng.choice([0, 0, 1, 7, 100, 300, rng.randrange(700)]))] for _ in range(rng.randrange(2, 7))]
        sc("comp", ms, c0=rng.choice(counters_for("comp", rng)[:9]))
    sc("comp", [[8, rnd_pat(rng, 10)], [1, rnd_pat(rng, 0)], [7, rnd_pat(rng, 300)]], enc=False)
    for c0 in counters_for("comp", rng) + [(1 << 64) - 1, 1 << 64]:
        sc("comp", [[8, rnd_pat(rng, 3)], [1, rnd_pat(rng, 0)], [8, rnd_pat(rng, 5)], [9, rnd_pat(rng, 2)]], c0=c0)
    # MRP: varint length classes of the CIPHERTEXT length (payload + 16)
    for n in [0, 1, 110, 111, 112, 113, 127, 128, 300, 16367, 16368, 16369] if ctx.thorough else [0, 1, 110, 111, 112, 113, 128, 300, 2000]:
        sc("mrp", [rnd_pat(rng, n)], c0=rng.choice([0, 255, 256]))
    for _ in range(4 if not ctx.thorough else 20):
        ms = []
        for _ in range(rng.randrange(2, 6)):
            if rng.random() < 0.5:
                ms.append(["msg", rng.choice([1, 4, 15, 32, 37]), rng.randrange(65, 91), rng.choice([0, 1, 20, 105, 106, 107, 300])])
            else:
                ms.append(rnd_pat(rng, rng.choice([0, 1, 50, 111, 112, 200])))
        sc("mrp", ms, c0=rng.choice(counters_for("mrp", rng)[:9]))
    sc("mrp", [rnd_pat(rng, 5), rnd_pat(rng, 127), rnd_pat(rng, 128)], enc=False)
    for c0 in counters_for("mrp", rng):
        sc("mrp", [rnd_pat(rng, 3), rnd_pat(rng, 0), rnd_pat(rng, 4)], c0=c0)
    # AirPlay 2 audio packets
    def hdr():
        return struct.pack(">BBHII", 0x80, rng.choice([0x60, 0xE0]), rng.randrange(1 << 16), rng.randrange(1 << 32), rng.randrange(1 << 32)).hex()
    for n in [0, 1, 4, 1408, 1409]:
        sc("ap2", [[hdr(), rnd_pat(rng, n)]], c0=rng.choice([0, 255, 256]))
    for _ in range(3 if not ctx.thorough else 15):
        sc("ap2", [[hdr(), rnd_pat(rng, rng.choice([8, 352, 1408]))] for _ in range(rng.randrange(2, 6))], c0=rng.choice(counters_for("ap2", rng)[:9]))
    sc("ap2", [[hdr(), rnd_pat(rng, 16)], [hdr(), rnd_pat(rng, 1408)]], enc=False)
    for c0 in counters_for("ap2", rng):
        sc("ap2", [[hdr(), rnd_pat(rng, 8)], [hdr(), rnd_pat(rng, 12)], [hdr(), rnd_pat(rng, 4)]], c0=c0)
    # long sequences: counter progression
    nlong = 300 if not ctx.thorough else 1500
    for chan in ("hap", "comp", "mrp", "ap2"):
        for c0 in ([0, (1 << 32) - nlong // 2] if not ctx.thorough else [0, 65536 - 700, (1 << 32) - 700, (1 << 64) - nlong - 1]):
            if chan == "hap":
                ms = [rnd_pat(rng, rng.choice([1, 2, 3])) for _ in range(nlong)]
            elif chan == "comp":
                ms = [[rng.choice(fts), rnd_pat(rng, rng.choice([0, 1, 2]))] for _ in range(nlong)]
            elif chan == "mrp":
                ms = [rnd_pat(rng, rng.choice([0, 1, 2])) for _ in range(nlong)]
            else:
                h = hdr()
                ms = [[h, rnd_pat(rng, 2)] for _ in range(nlong)]
            sc(chan, ms, c0=c0, long=True)
    return out


def cuts_for(ctx, total, boundaries, full):
    """Chunk-length lists: whole, byte-at-a-time, 1-cuts, 2-cuts, random multi-cuts."""
    rng = ctx.rng
    out = [[], [1] * total]
    if full:
        ones = list(range(1, total))
    else:
        near = set()
        for b in boundaries:
            for d in (-17, -16, -3, -2, -1, 0, 1, 2, 3, 4, 16, 17, 18, 19):
                if 0 < b + d < total:
                    near.add(b + d)
        ones = sorted(near | {rng.randrange(1, total) for _ in range(20)} if total > 1 else near)
    out += [[c] for c in ones]
    if full and ctx.thorough and total <= 160:
        out += [[a, b - a] for a in range(1, total) for b in range(a + 1, total)]
    else:
        pool = ones if ones else [1]
        for _ in range(150 if not ctx.thorough else 400):
            if total < 3:
                break
            a, b = sorted(rng.sample(range(1, total), 2))
            if rng.random() < 0.5 and len(pool) >= 2:
                a, b = sorted(rng.sample(pool, 2))
            out.append([a, b - a])
    for _ in range(10 if not ctx.thorough else 60):
        lens, left = [], total
        while left > 0 and len(lens) < 40:
            n = rng.choice([1, 1, 2, 3, 5, 18, 19, 100, 1000])
            lens.append(min(n, left))
            left -= lens[-1]
        out.append(lens)
    return out


def gen_recv(ctx):
    rng = ctx.rng
    out = []

    def sc(chan, msgs, **kw):
        d = {"kind": "recv", "chan": chan, "kseed": rng.randrange(1 << 30), "msgs": msgs}
        d.update(kw)
        out.append(d)

    fts = known_frame_types()
    # --- HAP
    # small 3-frame stream: every 1-cut (thorough: every 2-cut), every corruption position
    sc("hap", [rnd_pat(rng, 3), rnd_pat(rng, 7), rnd_pat(rng, 1)], c0=rng.choice([0, 255]), cuts="full", tamper="all")
    sc("hapchan", [rnd_pat(rng, 13)], peer_frames=[4, 1, 8], c0=1, cuts="full", tamper="all")
    # frames without payload between the others (valid HAP: authenticated, use up a counter value)
    sc("hapchan", [rnd_pat(rng, 9)], peer_frames=[4, 0, 5], c0=rng.choice([0, 255]), cuts="full", tamper="all")
    sc("hap", [rnd_pat(rng, 6), rnd_pat(rng, 3)], peer_frames=[0, 6, 0, 0, 3], c0=2, cuts="full", tamper="all")
    # frames at the limit: 1023/1024/1025 and multiples (1025 = two frames)
    sc("hap", [rnd_pat(rng, 1023), rnd_pat(rng, 1024), rnd_pat(rng, 1025)], c0=rng.choice([0, 65535]), cuts="near" if not ctx.thorough else "full", tamper="some")
    sc("hapchan", [rnd_pat(rng, 2048), rnd_pat(rng, 1)], c0=(1 << 32) - 1, cuts="near")
    # a message longer than a frame between shorter ones, one frame corrupted, later frames valid
    sc("hapchan", [rnd_pat(rng, 300), rnd_pat(rng, 1500), rnd_pat(rng, 200), rnd_pat(rng, 10)], c0=rng.choice([0, 254]), cuts="near", tamper="some")
    sc("hap", [rnd_pat(rng, 3073)], c0=3, cuts="near")
    if ctx.thorough:
        sc("hap", [rnd_pat(rng, 4097), rnd_pat(rng, 1024)], c0=0, cuts="near")
    # peer using smaller frames than pyatv would (valid HAP streams all the same)
    sc("hap", [rnd_pat(rng, 700)], peer_frames=[1, 255, 256, 100], cuts="near")
    sc("hap", [rnd_pat(rng, 40), rnd_pat(rng, 30)], enc=False, cuts="near")
    sc("hap", [rnd_pat(rng, 2), rnd_pat(rng, 2)], c0=(1 << 64) - 2, cuts="near", replay_part=0)   # counter space used up
    sc("hap", [rnd_pat(rng, 5), rnd_pat(rng, 6)], c0=7, cuts="near", replay_part=1)
    # --- Companion
    sc("comp", [[8, rnd_pat(rng, 5)], [8, rnd_pat(rng, 1)], [9, rnd_pat(rng, 12)]], c0=rng.choice([0, 255]), cuts="full", tamper="all")
    sc("comp", [[1, rnd_pat(rng, 0)], [8, rnd_pat(rng, 6)], [1, rnd_pat(rng, 0)], [7, rnd_pat(rng, 2)]], cuts="full")
    sc("comp", [[rng.choice(fts), rnd_pat(rng, n)] for n in (239, 240, 241, 0, 700)], c0=65535, cuts="near")
    sc("comp", [[2, rnd_pat(rng, 4)], [8, rnd_pat(rng, 4)], [200, rnd_pat(rng, 0)], [18, rnd_pat(rng, 3)]], cuts="near")   # unknown frame types are dropped
    sc("comp", [[8, rnd_pat(rng, 9)], [1, rnd_pat(rng, 0)], [99, rnd_pat(rng, 3)]], enc=False, cuts="near")
    sc("comp", [[8, rnd_pat(rng, 2)], [8, rnd_pat(rng, 2)]], c0=(1 << 96) - 2, cuts="near", replay_part=0)
    sc("comp", [[8, rnd_pat(rng, 2)], [7, rnd_pat(rng, 3)]], c0=9, cuts="near", replay_part=0)
    if ctx.thorough:
        sc("comp", [[8, rnd_pat(rng, 9000)], [8, rnd_pat(rng, 9001)]], cuts="near")
    # --- MRP
    sc("mrp", [["msg", 15, 65, 3], ["msg", 4, 66, 0], ["msg", 32, 67, 9]], c0=rng.choice([0, 255]), cuts="full", tamper="all")
    sc("mrp", [["msg", 15, 70, 105], ["msg", 15, 71, 106], ["msg", 15, 72, 107], ["msg", 1, 73, 400]], c0=65535, cuts="near" if not ctx.thorough else "full")
    sc("mrp", [["msg", 37, 74, 5], ["msg", 37, 75, 130]], enc=False, cuts="near")
    sc("mrp", [["msg", 1, 76, 1], ["msg", 1, 77, 1]], c0=(1 << 64) - 2, cuts="near", replay_part=0)
    sc("mrp", [["msg", 1, 76, 1], ["msg", 1, 77, 2]], c0=2, cuts="near", replay_part=1)
    if ctx.thorough:
        sc("mrp", [["msg", 15, 79, 16360], ["msg", 15, 80, 16400]], cuts="near")
    for _ in range(8 if not ctx.thorough else 25):
        chan = rng.choice(["hap", "hapchan", "comp", "mrp"])
        if chan in ("hap", "hapchan"):
            ms = [rnd_pat(rng, rng.choice([1, 17, 600, 1024, 1025, 1300])) for _ in range(rng.randrange(1, 4))]
            sc(chan, ms, c0=rng.choice(counters_for("hap", rng)[:9]), peer_frames=rng.choice([None, [1024], [512, 1024], [rng.randrange(1, 1025)]]), cuts="near", tamper="some")
        elif chan == "comp":
            ms = [[rng.choice(fts), rnd_pat(rng, rng.choice([0, 1, 3, 40, 300]))] for _ in range(rng.randrange(2, 6))]
            sc(chan, ms, c0=rng.choice(counters_for("comp", rng)[:9]), cuts="near", tamper="some")
        else:
            ms = [["msg", rng.choice([1, 4, 15, 32]), rng.randrange(65, 91), rng.choice([0, 2, 105, 106, 200])] for _ in range(rng.randrange(2, 6))]
            sc(chan, ms, c0=rng.choice(counters_for("mrp", rng)[:9]), cuts="near", tamper="some")
    return out


def expand_variants(ctx, sc, parts):
    """Concrete (segmentation, corruption) variants for a receive scenario."""
    if "variants" in sc:
        return sc["variants"]
    rng = ctx.rng
    total = sum(len(p) for p in parts)
    bounds, acc = [], 0
    for p in parts:
        acc += len(p)
        bounds.append(acc)
    mode = sc.get("cuts", "near")
    if mode == "whole":
        vs = [{"lens": []}, {"lens": [1] * total}]
    else:
        vs = [{"lens": l} for l in cuts_for(ctx, total, bounds, mode == "full")]
    tam = sc.get("tamper")
    if tam and sc.get("enc", True):
        # which bytes are length prefixes / headers
        hdr, acc = set(), 0
        for p in parts:
            n = 2 if sc["chan"] in ("hap", "hapchan") else 4
            if sc["chan"] == "mrp":
                n = 1
                while p[n - 1] & 0x80:
                    n += 1
            hdr |= set(range(acc, acc + n))
            acc += len(p)
        stream = b"".join(parts)
        positions = range(total) if tam == "all" else sorted(set(list(hdr)[:6]) | {rng.randrange(total) for _ in range(12)})
        for pos in positions:
            if pos in hdr and ctx.thorough and tam == "all":
                vals = [v for v in range(256) if v != stream[pos]]
            elif pos in hdr:
                vals = sorted({0, stream[pos] ^ 1, stream[pos] ^ 0x80, (stream[pos] + 1) % 256, rng.randrange(256)} - {stream[pos]})
            else:
                vals = [stream[pos] ^ (1 << rng.randrange(8))]
                if ctx.thorough:
                    vals.append(stream[pos] ^ 0xFF)
            # the same segmentation classes as for untampered streams: whole, one read per frame
            # (later valid frames arrive on a frame boundary AFTER the corrupted one was handled),
            # byte-at-a-time, a random cut, a cut right after the corrupted frame
            per_frame = [len(p) for p in parts[:-1]]
            after_bad = 0
            for p in parts:
                after_bad += len(p)
                if pos < after_bad:
                    break
            for v in vals:
                vs.append({"lens": [], "tamper": [pos, v]})
                if len(parts) > 1:
                    vs.append({"lens": per_frame, "tamper": [pos, v]})
                    if after_bad < total and rng.random() < 0.5:
                        vs.append({"lens": [after_bad], "tamper": [pos, v]})
                if total <= 120 and (pos in hdr or rng.random() < 0.3):
                    vs.append({"lens": [1] * total, "tamper": [pos, v]})
                if total > 2 and rng.random() < 0.5:
                    vs.append({"lens": [rng.randrange(1, total)], "tamper": [pos, v]})
    return vs


# --------------------------------------------------------------------------- direct cipher cases

def cipher_cases(ctx, batch):
    from pyatv.support.chacha20 import Chacha20Cipher, Chacha20Cipher8byteNonce
    rng = ctx.rng
    cases = []
    ka, kb = keys(1)
    cs = [0, 1, 255, 256, 257, 65535, 65536, (1 << 32) - 1, 1 << 32, (1 << 64) - 1, 1 << 64, (1 << 64) + 5,
          (1 << 96) - 1, 1 << 96] + [rng.randrange(1 << 64) for _ in range(6)] + [rng.randrange(1 << 96) for _ in range(4)]
    for nl in (8, 12, 4, 0, 1):
        for c in cs:
            for prop in ("out_nonce", "in_nonce"):
                ci = Chacha20Cipher(ka, kb, nonce_length=nl)
                ci._out_counter = c
                ci._in_counter = c
                try:
                    r = getattr(ci, prop)
                except Exception as ex:  # noqa
                    r = None
                    if exn_name(ex) != "OverflowError":
                        ctx.violation("C07:cipher:nonce-exception", "%s raised %s" % (prop, type(ex).__name__), {"kind": "nonce", "nl": nl, "c": c})
                cases.append(("nonce", "((Gen %d), %d%%N, %s)" % (nl, c, "None" if r is None else "(Some %s)" % lit(r)), {"nl": nl, "c": c}))
                ctx.case(("nonce", nl, c, prop), nontrivial=r is not None)
                ctx.count("nonce")
    for c in cs:
        for prop in ("out_nonce", "in_nonce"):
            ci = Chacha20Cipher8byteNonce(ka, kb)
            ci._out_counter = c
            ci._in_counter = c
            try:
                r = getattr(ci, prop)
            except Exception as ex:  # noqa
                r = None
            cases.append(("nonce", "(LQ, %d%%N, %s)" % (c, "None" if r is None else "(Some %s)" % lit(r)), {"nl": "LQ", "c": c}))
            ctx.case(("nonce", "LQ", c, prop), nontrivial=r is not None)
            ctx.count("nonce")
    # explicit nonces (pairing code path): counter untouched, short nonces left-padded
    for nlen in (0, 1, 8, 11, 12):
        for kind, mkc in (("(Gen 8)", lambda: Chacha20Cipher(ka, kb)), ("LQ", lambda: Chacha20Cipher8byteNonce(ka, kb))):
            ci = mkc()
            log = []
            instrument(ci, log)
            ci._out_counter = co = rng.randrange(1000)
            nonce = bytes(rng.randrange(256) for _ in range(nlen))
            data = bytes(rng.randrange(256) for _ in range(rng.randrange(0, 20)))
            aad = bytes(rng.randrange(256) for _ in range(rng.choice([0, 2, 4])))
            ct = ci.encrypt(data, nonce=nonce, aad=aad)
            src = Sources()
            tab = coq_tab(src, [(kid, n, a, p, c) for (op, kid, n, a, p, c) in log])
            ok = ci._out_counter == co
            cases.append(("encn", "(%s, %s, %s, %s, %s, %s, %d%%N)" % (tab, kind, lit(nonce), lit(data), lit(aad), lit(ct), ci._out_counter if ok else co + 1),
                          {"explicit_nonce_len": nlen}))
            ctx.case(("encn", kind, nlen), nontrivial=True)
            ctx.count("explicit-nonce")
    # varints
    from pyatv.support.variant import read_variant, write_variant
    for n in [0, 1, 127, 128, 129, 255, 256, 16383, 16384, 16385, 2097151, 2097152, (1 << 32) - 1, 1 << 35] + [rng.randrange(1 << 28) for _ in range(20)]:
        cases.append(("variant", "(%d%%N, %s)" % (n, lit(write_variant(n))), {"variant": n}))
        ctx.case(("variant", n))
        ctx.count("varint")
    for b in [b"", b"\x80", b"\x80\x80", b"\xff\xff\xff", b"\x80\x00", b"\x81\x80\x00\x05", b"\x00\x01", b"\x7f"] + \
            [bytes(rng.choice([0x80, 0xFF, 0x01, 0x7F, rng.randrange(256)]) for _ in range(rng.randrange(1, 6))) for _ in range(30)]:
        try:
            v, rest = read_variant(b)
            r = "(Some (%d%%N, %d%%N))" % (v, len(rest))
        except ValueError:
            r = "None"
        cases.append(("read_variant", "(%s, %s)" % (lit(b), r), {"read_variant": b.hex()}))
        ctx.case(("read_variant", b.hex()), nontrivial=r != "None")
        ctx.count("varint")
    batch.add([], cases, 3000)


# --------------------------------------------------------------------------- Companion frame bound
# Sends AT the 24-bit length limit through the real CompanionConnection.send, between small
# frames.  Oracle: a payload that does not fit is refused by an ordinary exception BEFORE anything
# is written (and the connection stays usable: later frames are recovered by the peer); a frame
# that is written is recovered exactly by the peer and its header is type byte + 24-bit length of
# what follows.  The model is compared on sizes only (comp_header_of_size): no big literals.

def comp_bound_cases(ctx, batch):
    from pyatv.protocols.companion.connection import FrameType
    lim = 1 << 24
    plans = [(True, [lim - 17, lim - 16, lim - 15, 2 * lim + 5]), (False, [lim - 1, lim, lim + 1])]
    block = bytes(range(256)) * 4096
    cases = []
    for enc, sizes in plans:
        for n in sizes:
            real = Real("comp", 515, enc)
            peer = Peer("comp", 515)
            big = (block * (n // len(block) + 1))[:n]
            frames = [(8, b"before"), (8, big), (7, b"after-1"), (1, b""), (9, b"after-2")]
            written, accepted, refused = [], [], None
            for ft, d in frames:
                n0 = len(real.tr.out)
                try:
                    out = real.send((ft, d))
                except Exception as ex:  # noqa
                    out = b"".join(real.tr.out[n0:])
                    if len(d) == n:
                        refused = type(ex).__name__
                    rep = {"kind": "compbound", "enc": enc, "size": len(d)}
                    if out:
                        ctx.violation("C07:companion:partial-write-on-refusal", "send of %d bytes raised %s after writing %d bytes" % (len(d), type(ex).__name__, len(out)), rep)
                    if len(d) != n or len(d) + (16 if enc else 0) < lim:
                        ctx.violation("C07:companion:send-raises", "send of a %d byte payload raised %s" % (len(d), type(ex).__name__), rep)
                    continue
                written.append(out)
                accepted.append([ft, d])
            rep = {"kind": "compbound", "enc": enc, "size": n}
            hdr = None
            for out, (ft, d) in zip(written, accepted):
                if len(d) == n:
                    hdr = out[:4]
                if out[0] != ft or int.from_bytes(out[1:4], "big") != len(out) - 4:
                    ctx.violation("C07:companion:frame-too-large" if len(out) - 4 >= lim else "C07:companion:header-mismatch",
                                  "send of a %d byte payload (type %d) wrote a frame of %d bytes after the header %s: the header must be the type byte "
                                  "and the 24-bit length of what follows (at most 2^24-1)" % (len(d), ft, len(out) - 4, out[:4].hex()), rep)
                    break
            try:
                got = peer.comp_open(b"".join(written), enc)
            except Exception as ex:  # noqa
                got = "%s: %s" % (type(ex).__name__, ex)
            if got != accepted:
                ctx.violation("C07:companion:peer-cannot-recover",
                              "frames [6 bytes, %d bytes, 7, 0, 7 bytes] on an %s connection: the peer does not recover the frames that were written (%s)"
                              % (n, "encrypted" if enc else "unencrypted", got if isinstance(got, str) else "%d of %d frames / content differs" % (len(got), len(accepted))), rep)
            tagged = enc and n > 0
            cases.append(("comp_bound", "(%s, 8%%N, %d%%N, %s)" % (common.cbool(tagged), n, "None" if refused else "(Some %s)" % lit(hdr or b"")),
                          {"scenario": rep, "refused": refused}))
            ctx.case(("compbound", enc, n), nontrivial=True, sample={"companion_payload": n, "encrypted": enc, "refused": refused, "header": (hdr or b"").hex()})
            ctx.count("companion-frame-bound")
            del big, written, accepted
    batch.add([], cases, 500)


# --------------------------------------------------------------------------- application channels
# The AirPlay 2 data-stream and event channels frame THEIR messages inside the HAP byte stream.
# The peer encrypts a BURST of messages as one byte stream, so the 1024-byte HAP frame boundaries
# are independent of the message boundaries; sizes are chosen so that a frame boundary falls at
# every offset inside the following message's header and into its payload.  Oracle only (this
# layer is above the modelled HAP session): exactly the messages sent are delivered, whatever the
# reads, nothing raises, every request is answered.

def ds_message(seqno, letter, total=None):
    """One data-stream 'sync' message carrying one protobuf; padded so that it is `total` bytes."""
    import plistlib
    from pyatv.protocols.mrp import protobuf

    def build(n):
        pm = protobuf.ProtocolMessage()
        pm.type = protobuf.ProtocolMessage.GENERIC_MESSAGE if hasattr(protobuf.ProtocolMessage, "GENERIC_MESSAGE") else 15
        pm.identifier = chr(letter) * n
        ser = pm.SerializeToString()
        pl = plistlib.dumps({"params": {"data": varint(len(ser)) + ser}}, fmt=plistlib.FMT_BINARY)
        hdr = struct.pack(">I12s4sQI", 32 + len(pl), b"sync" + 8 * b"\x00", b"comm", seqno, 0)
        return hdr + pl, ser

    if total is None:
        return build(40)
    n = max(40, total - 140)
    for _ in range(400):
        msg, ser = build(n)
        if len(msg) == total:
            return msg, ser
        n += total - len(msg) if abs(total - len(msg)) > 3 else (1 if len(msg) < total else -1)
        if n < 40:
            break
    return None, None


class DsListener:
    def __init__(self):
        self.got = []

    def handle_protobuf(self, message):
        self.got.append(message.SerializeToString())

    def handle_connection_lost(self, exc):
        pass


def app_reads(ctx, stream, parts_len, mode):
    """Read patterns for a HAP stream whose frames have the given lengths."""
    total = len(stream)
    out = [[], list(parts_len[:-1])]
    bounds, acc = [], 0
    for n in parts_len[:-1]:
        acc += n
        bounds.append(acc)
    near = set()
    for b in bounds:
        for d in (-1, 1, 2, 17, 18, 19, 33, 34, 35):
            if 0 < b + d < total:
                near.add(b + d)
    for c in sorted(near):
        out.append([c])
    if mode == "full":
        out += [[c] for c in range(1, total) if c not in near]
        out.append([1] * total)
    else:
        out += [[ctx.rng.randrange(1, total)] for _ in range(3)]
        # every frame in its own read, the frames themselves cut once more
        out.append(sorted({ctx.rng.randrange(1, total) for _ in range(6)} | set(bounds)))
        out[-1] = [b - a for a, b in zip([0] + out[-1][:-1], out[-1])]
    return out


def app_channel_cases(ctx):
    from pyatv.protocols.airplay.channels import DataStreamChannel, EventChannel
    rng = ctx.rng
    ka, kb = keys(4242)
    # ---- data stream: first message of every size 1024-48 .. 1024+2 (frame boundary at every offset
    # of the second message's header and into its payload), then two more messages
    sizes = list(range(1024 - 48, 1024 + 3))
    if not ctx.thorough:
        sizes = [sz for sz in sizes if sz >= 1024 - 34 or sz % 4 == 0]
    for i, first in enumerate(sizes):
        m1, s1 = ds_message(100 + i, 65 + i % 26, first)
        if m1 is None:
            continue
        rest = [ds_message(200 + i, 97 + i % 26), ds_message(300 + i, 66, rng.choice([None, 1100, 2070]))]
        msgs = [(m1, s1)] + [r for r in rest if r[0] is not None]
        burst = b"".join(m for m, _ in msgs)
        want = [sr for _, sr in msgs]
        c0 = rng.choice([0, 255])
        peer = Peer("hapchan", 4242, send_counter=c0)
        frames = [burst[o:o + HAP_MAX] for o in range(0, len(burst), HAP_MAX)]
        parts = [peer.hap_seal(f, [HAP_MAX]) for f in frames]
        stream = b"".join(parts)
        full = ctx.thorough and i % 8 == 0
        for lens in app_reads(ctx, stream, [len(p) for p in parts], "full" if full else "near"):
            ch = DataStreamChannel(ka, kb)
            ch.transport = tr = FakeTransport()
            lst = DsListener()
            ch.listener = lst
            if c0:
                ch.session.chacha20._in_counter = c0
            chunks, pos = [], 0
            for n in lens:
                chunks.append(stream[pos:pos + n])
                pos += n
            if pos < len(stream):
                chunks.append(stream[pos:])
            exc = None
            for chk in chunks:
                try:
                    ch.data_received(chk)
                except Exception as ex:  # noqa
                    exc = type(ex).__name__
                    break
            rep = {"kind": "appchan", "chan": "datastream", "first_size": first, "sizes": [len(m) for m, _ in msgs], "c0": c0, "reads": lens[:12]}
            if exc is not None:
                ctx.violation("C07:datastream:receive-raises",
                              "burst of data-stream messages of %s bytes in 1024-byte HAP frames, reads %s: data_received raised %s, the "
                              "remaining messages are lost" % ([len(m) for m, _ in msgs], lens[:8] or "whole", exc), rep)
            elif lst.got != want:
                ctx.violation("C07:datastream:receive-mismatch",
                              "burst of data-stream messages of %s bytes, reads %s: %d of %d messages delivered / content differs"
                              % ([len(m) for m, _ in msgs], lens[:8] or "whole", len(lst.got), len(want)), rep)
            else:
                # every sync message is answered with a reply the peer can decrypt
                try:
                    answers = Peer("hapchan", 4242).hap_open(b"".join(tr.out))
                    ok = len(answers) == 32 * len(msgs) and all(
                        answers[32 * j + 4:32 * j + 8] == b"rply" and answers[32 * j + 20:32 * j + 28] == msgs[j][0][20:28] for j in range(len(msgs)))
                except Exception:  # noqa
                    ok = False
                if not ok:
                    ctx.violation("C07:datastream:reply-mismatch", "replies to a burst of data-stream messages cannot be recovered by the peer", rep)
            ctx.case(("datastream", first, tuple(lens[:40]), len(lens)), nontrivial=True,
                     sample=rep if lens and len(lens) < 4 and i == 3 else None)
            ctx.count("appchan:datastream")
    # ---- event channel: requests with bodies so that a frame boundary falls inside a later request
    for i, first in enumerate([1024 - 60, 1024 - 30, 1024 - 17, 1024 - 5, 1024 - 1, 1024, 1024 + 1] + ([1024 - k for k in range(2, 90, 3)] if ctx.thorough else [])):
        reqs = []
        for j, sz in enumerate([first, 120, 1300]):
            head = b"POST /command RTSP/1.0\r\nCSeq: %d\r\nServer: AirTunes/550.10\r\nContent-Length: " % (10 * i + j)
            body_len = max(0, sz - len(head) - 8)
            reqs.append(head + b"%d\r\n\r\n" % body_len + bytes((j + k) % 200 + 20 for k in range(body_len)))
        burst = b"".join(reqs)
        peer = Peer("hapchan", 4242)
        parts = [peer.hap_seal(burst[o:o + HAP_MAX], [HAP_MAX]) for o in range(0, len(burst), HAP_MAX)]
        stream = b"".join(parts)
        for lens in app_reads(ctx, stream, [len(p) for p in parts], "near"):
            ch = EventChannel(ka, kb)
            ch.transport = tr = FakeTransport()
            chunks, pos = [], 0
            for n in lens:
                chunks.append(stream[pos:pos + n])
                pos += n
            if pos < len(stream):
                chunks.append(stream[pos:])
            exc = None
            for chk in chunks:
                try:
                    ch.data_received(chk)
                except Exception as ex:  # noqa
                    exc = type(ex).__name__
                    break
            rep = {"kind": "appchan", "chan": "event", "sizes": [len(r) for r in reqs], "reads": lens[:12]}
            try:
                answers = Peer("hapchan", 4242).hap_open(b"".join(tr.out))
            except Exception:  # noqa
                answers = None
            cseqs = re.findall(rb"CSeq: (\d+)", answers or b"")
            if exc is not None:
                ctx.violation("C07:event:receive-raises", "burst of event requests of %s bytes, reads %s: data_received raised %s" % (
                    [len(r) for r in reqs], lens[:8] or "whole", exc), rep)
            elif answers is None or [int(c) for c in cseqs] != [10 * i + j for j in range(3)] or answers.count(b" 200 OK") != 3:
                ctx.violation("C07:event:receive-mismatch", "burst of event requests of %s bytes, reads %s: answered CSeqs %s instead of all three in order" % (
                    [len(r) for r in reqs], lens[:8] or "whole", [int(c) for c in cseqs]), rep)
            ctx.case(("event", first, tuple(lens[:40]), len(lens)), nontrivial=True)
            ctx.count("appchan:event")


# --------------------------------------------------------------------------- whole sessions
# "Never reused under a key" is per KEY, not per cipher object: an AirPlay 2 session derives
# several keys from one shared secret (HKDF, different salt/info strings).  The real derivation
# call sites are driven with a recording verifier and real HKDF; every AEAD object created
# during the session is recorded (key, nonce); all channels carry some traffic.

SESSION_SECRET = bytes((7 * i + 3) % 256 for i in range(64))


def _hkdf(salt, info, secret=SESSION_SECRET):
    from cryptography.hazmat.primitives import hashes
    from cryptography.hazmat.primitives.kdf.hkdf import HKDF
    return HKDF(algorithm=hashes.SHA512(), length=32, salt=salt.encode(), info=info.encode()).derive(secret)


class SessVerifier:
    """What one pair-verify leaves behind: a shared secret that is FRESH for every pair-verify
    (new ephemeral Curve25519 keys on both sides), and HKDF on it."""

    def __init__(self, idx=0, calls=None, by_key=None):
        self.idx = idx
        self.secret = hashlib.sha512(SESSION_SECRET + b"pair-verify #%d" % idx).digest()
        self.calls = [] if calls is None else calls
        self.by_key = {} if by_key is None else by_key

    async def verify_credentials(self):
        return True

    def encryption_keys(self, salt, output_info, input_info):
        self.calls.append([salt, output_info, input_info] + ([self.idx] if self.idx else []))
        ko, ki = _hkdf(salt, output_info, self.secret), _hkdf(salt, input_info, self.secret)
        self.by_key.setdefault(ko, [salt, output_info, self.idx])
        self.by_key.setdefault(ki, [salt, input_info, self.idx])
        return ko, ki


class _Sock:
    def getpeername(self):
        return ("10.0.0.2", 7000)

    def getsockname(self):
        return ("10.0.0.1", 5000)


class SessTransport(FakeTransport):
    def get_extra_info(self, name):
        return _Sock()


class _Conn:
    remote_ip = "10.0.0.2"

    def __init__(self):
        self.receive_processor = None
        self.send_processor = None

    def close(self):
        pass

    async def post(self, *a, **kw):
        from pyatv.support.http import HttpResponse
        return HttpResponse("RTSP", "1.0", 200, "OK", {}, b"")


class _Rtsp:
    session_id = 4711

    def __init__(self, conn):
        self.connection = conn
        self.stream_keys = []      # the audio key as the DEVICE learns it (SETUP body, 'shk')

    async def feedback(self, **kw):
        return None

    async def exchange(self, *a, **kw):
        return None

    async def setup(self, headers=None, body=None):
        import plistlib
        from pyatv.support.http import HttpResponse
        if "streams" in (body or {}):
            self.stream_keys.append(bytes(body["streams"][0].get("shk", b"")))
            d = {"streams": [{"controlPort": 6001, "dataPort": 6002}]}
        else:
            d = {"eventPort": 6000}
        return HttpResponse("RTSP", "1.0", 200, "OK", {}, plistlib.dumps(d, fmt=plistlib.FMT_BINARY))

    async def record(self, **kw):
        return None


def run_session(which):
    """Drive one session's key-derivation call sites and traffic.  Returns a dict with the
    derivation calls, one entry per AEAD object that encrypted (label = the (salt, info) its key
    was derived with), pyatv's (key, nonce) pairs and the peer's."""
    import asyncio
    import random
    import vloop
    import pyatv.support.chacha20 as cc
    import pyatv.protocols.airplay.auth as auth

    real_aead, real_pv = cc.ChaCha20Poly1305, auth.pair_verify
    enc, objs, created = [], [], []

    class RecAEAD:
        def __init__(self, key):
            self.key = bytes(key)
            self.inner = real_aead(key)
            objs.append(self)

        def encrypt(self, nonce, data, aad):
            enc.append((self.key, bytes(nonce), objs.index(self)))
            return self.inner.encrypt(nonce, data, aad)

        def decrypt(self, nonce, data, aad):
            return self.inner.decrypt(nonce, data, aad)

    class Loop(vloop.VLoop):
        async def create_connection(self, factory, host=None, port=None, **kw):
            p, t = factory(), SessTransport()
            p.connection_made(t)
            created.append((p, t))
            return t, p

    calls, by_key, nver = [], {}, [0]

    def fresh_pair_verify(creds, connection):
        v = SessVerifier(nver[0], calls, by_key)
        nver[0] += 1
        return v

    conn = _Conn()
    rstate = random.getstate()
    loop = Loop()
    peer_enc, problems = [], []
    replies = want_replies = 0
    try:
        random.seed(20260930)
        cc.ChaCha20Poly1305 = RecAEAD
        auth.pair_verify = fresh_pair_verify
        asyncio.set_event_loop(loop)

        def device_sends(chan, payloads):
            # the device encrypts under pyatv's INPUT key of that channel, counting from 0
            aead = RefAEAD(chan.session.chacha20._enc_in.key)
            for i, req in enumerate(payloads):
                n, lb = peer_nonce("pad8", i), struct.pack("<H", len(req))
                peer_enc.append((chan.session.chacha20._enc_in.key, n))
                chan.data_received(lb + aead.encrypt(n, req, lb))

        events = [b"POST /command RTSP/1.0\r\nCSeq: %d\r\nContent-Length: 0\r\n\r\n" % i for i in range(3)]
        if which.startswith("raop"):
            from pyatv.protocols.raop.protocols import StreamContext
            from pyatv.protocols.raop.protocols.airplayv2 import AirPlayV2
            from pyatv.protocols.raop.stream_client import ControlClient, StreamClient
            from pyatv.protocols.raop.packets import RetransmitReqeust

            rtsp = _Rtsp(conn)
            ctxt = StreamContext()
            ctxt.reset()
            ctxt.rtpseq = 0xFFFA          # the 16-bit sequence number wraps inside the run
            ap = AirPlayV2(ctxt, rtsp)

            class Source:
                """Audio source: packet i is 1408 bytes starting with its index."""
                def __init__(self):
                    self.i = 0

                async def readframes(self, nframes):
                    self.i += 1
                    return bytes([self.i]) + pattern(13, self.i, 0, ctxt.packet_size - 1)

            def stream_some(npk):
                """npk packets through the real StreamClient._send_packet (backlog included), then the
                device asks for every one of them again through the real ControlClient; the
                independent peer decrypts originals and retransmits with the key from SETUP."""
                client = StreamClient(rtsp, ctxt, ap, None)
                control = ControlClient(ctxt, client._packet_backlog)
                ctrl_tr, audio_tr, src = FakeTransport(), FakeTransport(), Source()
                control.connection_made(ctrl_tr)
                sent = {}

                async def send():
                    for i in range(npk):
                        seq = ctxt.rtpseq
                        await client._send_packet(src, i == 0, audio_tr)
                        sent[seq] = bytes([src.i]) + pattern(13, src.i, 0, ctxt.packet_size - 1)

                loop.run_until_complete(send())
                key = rtsp.stream_keys[-1]
                dev = RefAEAD(key) if len(key) == 32 else None

                def open_pkt(pkt):
                    return dev.decrypt(b"\x00\x00\x00\x00" + pkt[-8:], pkt[12:-8], pkt[4:12])

                for (seq, audio), wire in zip(sent.items(), audio_tr.out):
                    try:
                        ok = dev is not None and open_pkt(wire) == audio and struct.unpack(">H", wire[2:4])[0] == seq
                    except Exception:  # noqa
                        ok = False
                    if not ok:
                        problems.append(("C07:ap2:peer-cannot-recover", "audio packet with sequence number %d is not recovered by the device "
                                         "(key from the SETUP request, nonce from the packet)" % seq, {"seqno": seq}))
                        break
                requests = [(seq, 1) for seq in sent] + [(list(sent)[0], npk)]
                for first, count in requests:
                    n0 = len(ctrl_tr.out)
                    control.datagram_received(RetransmitReqeust.encode(0x80, 0xD5, 1, first, count), ("10.0.0.2", 6001))
                    back = ctrl_tr.out[n0:]
                    wanted = [(first + j) % 65536 for j in range(count)]
                    bad = None
                    if len(back) != count:
                        bad = "%d packets came back" % len(back)
                    else:
                        for seq, resp in zip(wanted, back):
                            pkt = resp[4:]
                            try:
                                got = open_pkt(pkt)
                            except Exception as ex:  # noqa
                                bad = "the retransmitted packet for %d does not decrypt (%s)" % (seq, type(ex).__name__)
                                break
                            if resp[:2] != b"\x80\xd6" or struct.unpack(">H", pkt[2:4])[0] != seq or got != sent[seq]:
                                bad = "asked for %d, got sequence number %d carrying the audio of packet #%d" % (
                                    seq, struct.unpack(">H", pkt[2:4])[0], got[0] if got else -1)
                                break
                    if bad:
                        problems.append(("C07:ap2:retransmit-not-what-was-sent",
                                         "retransmit request (first=%d, count=%d) after %d packets: %s; the device must recover exactly the audio "
                                         "that was sent under that sequence number" % (first, count, npk, bad),
                                         {"first": first, "count": count, "packets": npk}))
                        break

            def one_setup(npk):
                n_ev = len(created)
                loop.run_until_complete(ap.setup(1234, 5555))
                for i in range(3):
                    conn.send_processor(b"SETUP rtsp://x RTSP/1.0\r\nCSeq: %d\r\n\r\n" % i)
                device_sends(created[n_ev][0], events)
                stream_some(npk)
                return len(created[n_ev][1].out)

            if which == "raop":
                replies, want_replies = one_setup(12), 3
            elif which == "raop-resetup":
                # one protocol object used for two streams: setup, packets, teardown, setup, packets
                replies = one_setup(4)
                ap.teardown()
                replies += one_setup(4)
                ap.teardown()
                replies += one_setup(3)
                want_replies = 9
            else:
                # play_url first, then an audio stream on the same object
                n_ev = len(created)
                loop.run_until_complete(ap.play_url(1234, "http://10.0.0.1/x.mp4"))
                device_sends(created[n_ev][0], events)
                replies = len(created[n_ev][1].out)
                for i in range(3):
                    conn.send_processor(b"POST /play RTSP/1.0\r\nCSeq: %d\r\n\r\n" % i)
                ap.teardown()
                replies += one_setup(4)
                want_replies = 6
            ap.teardown()
        else:
            from pyatv.auth.hap_pairing import TRANSIENT_CREDENTIALS
            from pyatv.protocols.airplay.ap2_session import AP2Session
            from pyatv.protocols.airplay.auth import verify_connection
            from pyatv.settings import InfoSettings

            async def go():
                sess = AP2Session("10.0.0.2", 7000, TRANSIENT_CREDENTIALS, InfoSettings())
                sess.connection = conn
                sess.verifier = await verify_connection(TRANSIENT_CREDENTIALS, conn)
                sess.rtsp = _Rtsp(conn)
                await sess.setup_remote_control()
                return sess

            sess = loop.run_until_complete(go())
            for i in range(3):
                conn.send_processor(b"POST /feedback RTSP/1.0\r\nCSeq: %d\r\n\r\n" % i)
            device_sends(created[0][0], events)
            from pyatv.protocols.mrp import messages, protobuf
            for i in range(3):
                sess.data_channel.send_protobuf(messages.create(protobuf.GENERIC_MESSAGE))
            replies, want_replies = len(created[0][1].out), 3
    finally:
        cc.ChaCha20Poly1305 = real_aead
        auth.pair_verify = real_pv
        random.setstate(rstate)
        try:
            pending = [t for t in asyncio.all_tasks(loop) if not t.done()]
            for t in pending:
                t.cancel()
            if pending:
                loop.run_until_complete(asyncio.gather(*pending, return_exceptions=True))
        except Exception:  # noqa
            pass
        asyncio.set_event_loop(None)
        loop.close()
    used = sorted({o for (_, _, o) in enc})
    labels = {o: by_key.get(objs[o].key, ["?", objs[o].key.hex(), -1]) for o in used}
    return {"which": which, "derivations": calls, "labels": labels, "enc": enc, "peer_enc": peer_enc,
            "event_replies": replies, "want_replies": want_replies, "n_objects": len(objs), "problems": problems,
            "pair_verifies": nver[0]}


def judge_session(ctx, r):
    seen, reported = {}, False
    for k, n, o in r["enc"]:
        if (k, n) in seen and seen[(k, n)] != o and not reported:
            reported = True
            a, b = r["labels"][seen[(k, n)]], r["labels"][o]
            ctx.violation("C07:session:nonce-reuse-across-channels",
                          "two cipher objects in the lifetime of one %s session/protocol object encrypt under the same key with the same nonce %s: keys derived with "
                          "(salt, info, pair-verify #) %s and %s"
                          % (r["which"], n.hex(), a, b),
                          {"kind": "session", "which": r["which"], "channels": [a, b], "nonce": n.hex(), "derivations": r["derivations"]})
        seen.setdefault((k, n), o)
    for k, n in r["peer_enc"]:
        if (k, n) in seen:
            a = r["labels"][seen[(k, n)]]
            ctx.violation("C07:session:key-and-nonce-shared-with-peer-direction",
                          "%s session: pyatv encrypts under the key derived with %s with nonce %s, and the device encrypts its event-channel "
                          "requests under the same key with the same nonce" % (r["which"], a, n.hex()),
                          {"kind": "session", "which": r["which"], "channels": [a, "event channel, device -> pyatv"], "nonce": n.hex(),
                           "derivations": r["derivations"]})
            break
    if r["event_replies"] != r["want_replies"]:
        ctx.violation("C07:session:event-channel-dead", "the event channel(s) answered %d of %d requests" % (r["event_replies"], r["want_replies"]),
                      {"kind": "session", "which": r["which"]})
    for key, what, detail in r["problems"]:
        d = {"kind": "session", "which": r["which"]}
        d.update(detail)
        ctx.violation(key, "%s session: %s" % (r["which"], what), d)
    ctx.case(("session", r["which"], json.dumps(r["derivations"])), nontrivial=True,
             sample={"session": r["which"], "derivations": r["derivations"], "encrypting_objects": list(r["labels"].values()),
                     "encrypt_calls": len(r["enc"])})
    ctx.count("session:" + r["which"])


SESSIONS = ("raop", "raop-resetup", "raop-playurl", "ap2")


def gen(ctx):
    """Translator: (salt, info) of every key pyatv ENCRYPTS under in an AirPlay 2 session, read by
    running the real derivation call sites.  Re-emitted on every run; fail closed."""
    rows = []
    for which in SESSIONS:
        r = run_session(which)
        if not r["labels"] or any(l[0] == "?" for l in r["labels"].values()):
            raise RuntimeError("cannot attribute a cipher object of the %s session to a key derivation: %s" % (which, r["labels"]))
        rows.append((which.replace("-", "_"), [r["labels"][o] for o in sorted(r["labels"])]))
    txt = ["(* GENERATED by harness/c07.py gen() from the key-derivation call sites of /repo - do not edit. *)",
           "From Coq Require Import List NArith. Import ListNotations.", "Local Open Scope N_scope.",
           "(* per cipher object that encrypted during the lifetime of the session / protocol object:",
           "   (index of the pair-verify whose shared secret was used, (salt, info) of its out-key) *)"]
    for which, labs in rows:
        txt.append("Definition out_derivs_%s : list (N * (list N * list N)) := [\n  %s\n]." % (
            which, ";\n  ".join("(%d, (%s, %s))" % (i, lit(a.encode()), lit(b.encode())) for a, b, i in labs)))
    path = os.path.join(common.COQ, "C07", "Gen.v")
    new = "\n".join(txt) + "\n"
    if not os.path.exists(path) or open(path).read() != new:
        with open(path, "w") as f:
            f.write(new)
    return rows



# --------------------------------------------------------------------------- run

def report(ctx, sc, viol, extra=None):
    for key, what in viol:
        r = {k: v for k, v in sc.items() if not k.startswith("_")}
        if extra:
            r.update(extra)
        ctx.violation(key, what, r)


def do_send(ctx, batch, sc, idx, tag="s"):
    obs, viol = run_send(sc)
    report(ctx, sc, viol)
    chan = sc["chan"]
    src = Sources()
    add_sources(src, chan, sc["msgs"])
    sname = "S_%s%d" % (tag, idx)
    stream = b"".join(obs["outs"])
    src.add_named(sname, stream)
    defs = ["Definition %s : bytes := %s." % (sname, lit(stream))]
    case = coq_send_case(sc, obs, src, sname)
    small = {k: v for k, v in sc.items() if k != "msgs"}
    small["n_msgs"] = len(sc["msgs"])
    batch.add(defs, [(GROUP_OF[chan] + "_send", case, {"scenario": small if sc.get("long") else sc})], len(stream) + src.literal + 200)
    sizes = [len(o) for o in obs["outs"]]
    ctx.case(("send", chan, sc.get("enc", True), sc.get("c0", 0), json.dumps(sc["msgs"])[:4000]), nontrivial=bool(obs["log"]),
             sample={"scenario": small, "sent_bytes": sizes[:8], "aead_calls": len(obs["log"]), "raised": obs["exc"], "final_out_counter": obs["counter"]})
    ctx.count("send:" + chan)
    if obs["exc"]:
        ctx.count("send-raised:" + obs["exc"])
    ctx.count("aead-encrypt-calls", len(obs["log"]))


def do_recv(ctx, batch, sc, idx, tag="r"):
    peer, parts, plains = build_stream(sc)
    chan = sc["chan"]
    variants = expand_variants(ctx, sc, parts)
    results = []
    table = list(peer.table)
    for var in variants:
        obs, viol = run_recv_variant(sc, parts, plains, var)
        one = {k: v for k, v in sc.items() if k not in ("cuts", "tamper", "variants")}
        one["variants"] = [var]
        report(ctx, one, viol)
        results.append((var, obs))
        for (op, kid, n, a, p, c) in obs["log"]:
            if op == "dec" and p is not None:
                table.append((kid, n, a, p, c))
        ctx.case(("recv", chan, sc["kseed"], tuple(var["lens"]), tuple(var.get("tamper") or ())),
                 nontrivial=bool(obs["got"]),
                 sample={"chan": chan, "msgs": sc["msgs"][:4], "chunk_lengths": var["lens"][:6], "corrupted": var.get("tamper"),
                         "delivered": len(obs["got"]), "raised": obs["exc"], "final_in_counter": obs["counter"]} if var.get("tamper") or len(var["lens"]) == 2 else None)
        ctx.count("recv:" + chan + (":tampered" if var.get("tamper") else ":%d-cut" % min(len(var["lens"]), 3)))
        if obs["exc"]:
            ctx.count("recv-raised:" + obs["exc"])
    src = Sources()
    add_sources(src, chan, sc["msgs"])
    sname = "S_%s%d" % (tag, idx)
    stream = b"".join(parts)
    src.add_named(sname, stream)
    defs = ["Definition %s : bytes := %s." % (sname, lit(stream)),
            "Definition T_%s : tab := %s." % (sname, coq_tab(src, table))]
    cases = coq_recv_cases(sc, peer, parts, plains, results, src, sname)
    grp = GROUP_OF[chan] + "_recv"
    metas = []
    for (var, obs) in results:
        one = {k: v for k, v in sc.items() if k not in ("cuts", "tamper", "variants")}
        one["variants"] = [var]
        metas.append({"scenario": one})
    batch.add(defs, [(grp, c, m) for c, m in zip(cases, metas)], len(stream) + src.literal + 12 * len(cases) * (1 + len(stream) // 400))


def long_oracle(ctx):
    """Counter progression over long message sequences, judged without Coq: no nonce reuse,
    every message recovered by the peer."""
    n = 10000 if not ctx.thorough else 100000
    rng = ctx.rng
    for chan in ("hap", "comp", "mrp", "ap2"):
        real = Real(chan, 77, True, out_counter=0)
        peer = Peer(chan, 77, recv_counter=0)
        seen = set()
        okay = True
        h = struct.pack(">BBHII", 0x80, 0x60, 1, 2, 3)
        for i in range(n):
            p = bytes([i & 0xFF, (i >> 8) & 0xFF])[: 1 + (i % 2)]
            if chan == "hap":
                o = real.send(p)
                g = peer.hap_open(o)
            elif chan == "comp":
                o = real.send((8, p))
                g = peer.comp_open(o)[0][1]
            elif chan == "mrp":
                o = real.send(p)
                g = peer.mrp_open(o)[0]
            else:
                o = real.send((h, p))
                g = peer.ap2_open(o)
            if g != p:
                okay = False
                ctx.violation("C07:%s:peer-cannot-recover" % KEYNAME.get(chan, chan), "message %d of a long sequence not recovered" % i, {"kind": "long", "chan": chan, "n": i + 1})
                break
        for (op, kid, nn, a, p, c) in real.log:
            if (kid, nn) in seen:
                okay = False
                ctx.violation("C07:%s:nonce-reuse" % KEYNAME.get(chan, chan), "nonce %s used twice in a long sequence" % nn.hex(), {"kind": "long", "chan": chan, "n": n})
                break
            seen.add((kid, nn))
        if real.out_counter() != n and okay:
            ctx.violation("C07:%s:counter-not-in-step" % KEYNAME.get(chan, chan), "out counter %d after %d messages" % (real.out_counter(), n), {"kind": "long", "chan": chan, "n": n})
        ctx.case(("long", chan, n), nontrivial=True)
        ctx.count("long-sequence-messages", n)


def run_scenario(ctx, batch, sc, idx, tag):
    if sc["kind"] == "send":
        do_send(ctx, batch, sc, idx, tag)
    elif sc["kind"] == "recv":
        do_recv(ctx, batch, sc, idx, tag)
    elif sc["kind"] == "session":
        judge_session(ctx, run_session(sc["which"]))


def run(ctx):
    try:
        ctx.extra["generated_out_derivations"] = gen(ctx)
    except Exception as ex:  # noqa
        ctx.tie_broken("translator:session-key-derivations", repr(ex))
    ctx.build_property()
    if ctx.thorough:
        ctx.coqchk()
    ctx.rule = ("scenarios = (channel, keys, start counter, messages as byte patterns, segmentation, corrupted byte); send scenarios: "
                "plaintext sizes on both sides of 1024*k (HAP), of the Companion/MRP length classes, counters at byte carries and at the end "
                "of the counter space, sequences of hundreds of messages; receive scenarios: the independent peer's stream cut at every "
                "position (small streams), near every frame boundary (large ones), pairs of cuts, byte-at-a-time, and every single-byte "
                "corruption position of a 3-frame stream (thorough: every value at length/header positions); distinct by the full scenario; "
                "non-trivial = at least one AEAD call / one delivery")
    batch = Batch(ctx)
    idx = 0
    for name, d in common.load_corpus(ctx.pid):
        sc = d["scenario"]
        run_scenario(ctx, batch, dict(sc), idx, "c")
        ctx.count("corpus")
        idx += 1
    cipher_cases(ctx, batch)
    for sc in gen_send(ctx):
        do_send(ctx, batch, sc, idx)
        idx += 1
    for sc in gen_recv(ctx):
        do_recv(ctx, batch, sc, idx)
        idx += 1
    long_oracle(ctx)
    comp_bound_cases(ctx, batch)
    app_channel_cases(ctx)
    for which in SESSIONS:
        judge_session(ctx, run_session(which))
    mism = batch.run()
    for g, meta in mism[:12]:
        ctx.tie_broken("correspondence:" + g, json.dumps(meta)[:3000])
    ctx.extra["coq_case_files"] = len(batch.files)
    ctx.trusted += [
        "hand-written model coq/C07/Model.v of hap_session.py, chacha20.py, companion/connection.py, mrp/connection.py (+variant.py), "
        "airplayv2.send_audio_packet, tied by the differential run in this file (model evaluated in Coq by vm_compute with the AEAD answered "
        "from the table of calls the real library made)",
        "ChaCha20-Poly1305 itself (cryptography / chacha20poly1305_reuseable) is NOT verified: correctness dec(enc(p))=p and ciphertext length "
        "= plaintext + 16 are premises of the round-trip theorems; the tamper theorems additionally assume ideal authenticity (only ciphertexts "
        "issued under the key verify, and only under their own nonce and AAD) - an idealisation of INT-CTXT security",
        "harness/c07.py: recorders, fake transports, the independent peer (class Peer) and the oracle",
    ]
    ctx.assumptions += [
        "a transport whose protocol raised in data_received is closed by asyncio (HAP: an exception ends the stream; nothing is fed afterwards)",
        "the two directions of a channel use different keys (HKDF infos differ); AirPlay 2 audio uses one key for one direction only",
        "MRP: the model stops at the byte string handed to protobuf.ParseFromString; protobuf parsing is outside",
        "explicit-nonce encryption (pairing messages, fixed nonces under one-time session keys) is modelled and compared but is outside the freshness theorem",
        "data-stream / event channel message framing above the HAP session (channels.py) is judged by the oracle only (bursts re-framed at 1024 bytes); it is not part of the Coq model (C02 owns that layer)",
        "Companion payloads at the 2^24 limit are sent through the real send() and judged by the peer; the model is compared on the size-dependent part only (comp_header_of_size, tied to comp_send by C07_comp_frame_bound)",
    ]


def replay(ctx, path):
    try:
        d = json.load(open(path))
        sc = dict(d.get("scenario") or d["replay"])
    except (OSError, ValueError, KeyError) as ex:
        print("cannot read replay file %s: %s" % (path, ex))
        return 2
    if sc.get("kind") == "send":
        obs, viol = run_send(sc)
        print("sent %d messages, raised=%s, final out counter=%d" % (len(obs["outs"]), obs["exc"], obs["counter"]))
    elif sc.get("kind") == "recv":
        peer, parts, plains = build_stream(sc)
        viol = []
        for var in sc.get("variants") or expand_variants(ctx, sc, parts):
            obs, v = run_recv_variant(sc, parts, plains, var)
            print("chunks=%s corrupted=%s delivered=%s raised=%s in_counter=%d residual=%d" % (
                var["lens"][:8], var.get("tamper"), [x if not isinstance(x, bytes) else x.hex()[:40] for x in (obs["got"] if sc["chan"] not in ("comp",) else [[a, b.hex()[:40]] for a, b in obs["got"]])][:8],
                obs["exc"], obs["counter"], obs["residual"]))
            viol += v
    elif sc.get("kind") == "compbound":
        class B:
            def add(self, *a):
                pass
        comp_bound_cases(ctx, B())
        viol = [(v["key"], v["what"]) for v in ctx.violations if v["replay"].get("size") == sc.get("size") and v["replay"].get("enc") == sc.get("enc")]
    elif sc.get("kind") == "appchan":
        app_channel_cases(ctx)
        viol = [(v["key"], v["what"]) for v in ctx.violations if v["replay"].get("chan") == sc.get("chan")]
        print("re-ran the %s channel bursts: %d failing read patterns" % (sc.get("chan"), len(viol)))
        viol = viol[:3]
    elif sc.get("kind") == "session":
        r = run_session(sc["which"])
        print("derivations:", r["derivations"])
        print("encrypting cipher objects:", list(r["labels"].values()))
        judge_session(ctx, r)
        viol = [(v["key"], v["what"]) for v in ctx.violations]
    else:
        viol = []
        long_oracle(ctx)
        viol = [(v["key"], v["what"]) for v in ctx.violations]
    for key, what in viol:
        print("property-error %s: %s" % (key, what))
    return 1 if viol else 0
