"""C02 - message framing is independent of how the byte stream is segmented.

Theorems: coq/C02 (instances of Common/Framing.v for the seven receive loops + the two-layer
composition for HAP channels).  This file drives the REAL classes with a fake transport and a
recording listener, judges the property directly (every segmentation must deliver what the
unsplit stream delivers and leave the connection equally usable) and compares every run with
the Gallina model inside Coq.
"""
import asyncio
import itertools
import json
import plistlib
import re
import signal
import struct

import common
import vloop

# ------------------------------------------------------------------------------- plumbing


class Hang(BaseException):
    pass


class ConsumerError(Exception):
    """Raised by the scripted layer above (listener / callback) while it handles one message."""


class time_limit:
    """SIGALRM guard: the receive loops are pure Python, so a runaway loop is interrupted."""

    def __init__(self, seconds=4.0):
        self.seconds = seconds

    def _fire(self, *_):
        raise Hang()

    def __enter__(self):
        self.old = signal.signal(signal.SIGALRM, self._fire)
        signal.setitimer(signal.ITIMER_REAL, self.seconds)

    def __exit__(self, *a):
        signal.setitimer(signal.ITIMER_REAL, 0)
        signal.signal(signal.SIGALRM, self.old)
        return False


class FakeTransport:
    def __init__(self):
        self.written = []
        self.closed = False

    def write(self, data):
        self.written.append(bytes(data))

    def close(self):
        self.closed = True

    def is_closing(self):
        return self.closed

    def can_write_eof(self):
        return False

    def get_extra_info(self, name, default=None):
        return default


class RecCipher:
    """The real Chacha20Cipher object, with every decrypt call recorded for the model's table."""

    def __init__(self, real, log):
        self.__dict__["real"] = real
        self.__dict__["log"] = log

    def decrypt(self, data, nonce=None, aad=None):
        c = self.real._in_counter
        try:
            r = self.real.decrypt(data, nonce=nonce, aad=aad)
        except Exception:
            self.log.append((c, bytes(aad or b""), bytes(data), None))
            raise
        self.log.append((c, bytes(aad or b""), bytes(data), bytes(r)))
        return r

    def __getattr__(self, n):
        return getattr(self.real, n)


def split(stream, cuts):
    out = []
    prev = 0
    for c in cuts:
        out.append(stream[prev:c])
        prev = c
    out.append(stream[prev:])
    return out


def canon_http(msg, kind):
    """HttpResponse/HttpRequest -> (first line, [(key, value)], body) as bytes."""
    if kind == "resp":
        first = "%s/%s %d %s" % (msg.protocol, msg.version, msg.code, msg.message)
    else:
        first = "%s %s %s/%s" % (msg.method, msg.path, msg.protocol, msg.version)
    body = msg.body
    if isinstance(body, str):
        body = body.encode("utf-8")
    return [first.encode("utf-8").hex(),
            [[k.encode("utf-8").hex(), v.encode("utf-8").hex()] for k, v in msg.headers.items()],
            bytes(body).hex()]


# ------------------------------------------------------------------------------- drivers
# A driver wraps one fresh instance of the real class.  feed(chunk) is one data_received call;
# obs() is everything the layer above has seen so far plus the parser state and residual
# buffer(s).  All values are JSON-able (hex strings).

class MrpDriver:
    name = "mrp"

    def __init__(self, case):
        from pyatv.protocols.mrp.connection import MrpConnection
        self.case = case
        self.conn = MrpConnection("127.0.0.1", 0, None)
        self.conn._transport = FakeTransport()
        self.conn.listener = self
        self.msgs = []
        self.declog = []
        if case["enc"]:
            self.conn.enable_encryption(case["okey"], case["ikey"])
            self.conn._chacha = RecCipher(self.conn._chacha, self.declog)

    def message_received(self, parsed, data):
        key = bytes(data).hex()
        self.msgs.append(key)
        if key in self.case.get("consumer", ()):
            raise ConsumerError("listener failed")

    def handed(self):
        return list(self.msgs)

    def stop(self):
        pass

    def feed(self, chunk):
        self.conn.data_received(chunk)

    def obs(self):
        return {"msgs": list(self.msgs),
                "state": self.conn._chacha._in_counter if self.case["enc"] else None,
                "rest": self.conn._buffer.hex()}


class CompanionDriver:
    name = "companion"

    def __init__(self, case):
        from pyatv.protocols.companion.connection import CompanionConnection
        self.case = case
        self.conn = CompanionConnection(None, "127.0.0.1", 0)
        self.conn.transport = FakeTransport()
        self.conn.set_listener(self)
        self.msgs = []
        self.declog = []
        if case["enc"]:
            self.conn.enable_encryption(case["okey"], case["ikey"])
            self.conn._chacha = RecCipher(self.conn._chacha, self.declog)

    def frame_received(self, frame_type, data):
        self.msgs.append([frame_type.value, bytes(data).hex()])
        if "%d:%s" % (frame_type.value, bytes(data).hex()) in self.case.get("consumer", ()):
            raise ConsumerError("listener failed")

    def handed(self):
        return ["%d:%s" % (t, h) for t, h in self.msgs]

    def feed(self, chunk):
        self.conn.data_received(chunk)

    def obs(self):
        return {"msgs": list(self.msgs),
                "state": self.conn._chacha._in_counter if self.case["enc"] else None,
                "rest": self.conn._buffer.hex()}


class HapDriver:
    name = "hap"

    def __init__(self, case):
        from pyatv.auth.hap_session import HAPSession
        self.s = HAPSession()
        self.s.enable(case["okey"], case["ikey"])
        self.declog = []
        self.s.chacha20 = RecCipher(self.s.chacha20, self.declog)
        self.out = b""

    def feed(self, chunk):
        self.out += self.s.decrypt(chunk)

    def obs(self):
        return {"msgs": self.out.hex(), "state": self.s.chacha20._in_counter,
                "rest": self.s._encrypted_data.hex()}


def peer_session(case):
    from pyatv.auth.hap_session import HAPSession
    p = HAPSession()
    p.enable(case["ikey"], case["okey"])
    return p


class DataStreamDriver:
    name = "datastream"

    def __init__(self, case):
        from pyatv.protocols.airplay.channels import DataStreamChannel
        self.case = case
        ch = DataStreamChannel(case["okey"], case["ikey"])
        ch.transport = FakeTransport()
        ch.listener = self
        self.declog = []
        ch.session.chacha20 = RecCipher(ch.session.chacha20, self.declog)
        self.frames = []
        self.pbs = []
        orig = ch.decode_message

        self.in_handler = False

        def rec(data):
            self.in_handler = False      # the previous frame's handler has returned
            r = orig(data)
            if r[0] is not None:
                m = r[0]
                self.frames.append([bytes(m.message_type).hex(), bytes(m.command).hex(), m.seqno, m.padding,
                                    bytes(m.payload).hex()])
                self.in_handler = True
            return r

        ch.decode_message = rec
        self.ch = ch

    def handle_protobuf(self, message):
        key = message.SerializeToString().hex()
        self.pbs.append(key)
        if key in self.case.get("consumer", ()):
            raise ConsumerError("listener failed")

    def handed(self):
        return list(self.pbs)

    def handle_connection_lost(self, exc):
        pass

    def feed(self, chunk):
        try:
            self.ch.data_received(chunk)
        except Exception:
            if self.in_handler:          # the handler of the last decoded frame raised: not delivered
                self.frames.pop()
                self.in_handler = False
            raise

    def obs(self):
        sent = b"".join(self.ch.transport.written)
        try:
            replies = peer_session(self.case).decrypt(sent).hex()
        except Exception as ex:  # pragma: no cover
            replies = "undecryptable:" + type(ex).__name__
        return {"msgs": list(self.frames), "protobufs": list(self.pbs), "replies": replies,
                "state": self.ch.session.chacha20._in_counter,
                "bufa": self.ch.session._encrypted_data.hex(), "rest": self.ch.buffer.hex()}


class EventDriver:
    """EventChannel through data_received (encrypted) or, mode 'event-loop', handle_received only."""
    name = "event"

    def __init__(self, case):
        from pyatv.protocols.airplay.channels import EventChannel
        self.case = case
        ch = EventChannel(case["okey"], case["ikey"])
        ch.transport = FakeTransport()
        self.declog = []
        ch.session.chacha20 = RecCipher(ch.session.chacha20, self.declog)
        self.msgs = []
        self.parse_raised = 0
        orig = ch.parse_request

        def rec(data):
            try:
                r = orig(data)
            except Exception:
                self.parse_raised += 1
                raise
            if r[0] is not None:
                self.msgs.append(canon_http(r[0], "req"))
            return r

        ch.parse_request = rec
        self.ch = ch
        self.plain = case["conn"] == "event-loop"

    def feed(self, chunk):
        if self.plain:
            # what AbstractHAPChannel.data_received does once decrypt() returned `chunk`
            self.ch.buffer += chunk
            self.ch.handle_received()
        else:
            self.ch.data_received(chunk)

    def obs(self):
        sent = b"".join(self.ch.transport.written)
        try:
            replies = peer_session(self.case).decrypt(sent).hex()
        except Exception as ex:  # pragma: no cover
            replies = "undecryptable:" + type(ex).__name__
        return {"msgs": list(self.msgs), "replies": replies, "parse_raised": self.parse_raised,
                "state": self.ch.session.chacha20._in_counter,
                "bufa": self.ch.session._encrypted_data.hex(), "rest": self.ch.buffer.hex()}


class HttpClientDriver:
    name = "http"

    def __init__(self, case):
        from pyatv.support.http import HttpConnection
        self.case = case
        self.conn = HttpConnection()
        self.conn.transport = FakeTransport()
        self.pending = [HttpConnection.PendingRequest(event=asyncio.Event()) for _ in range(case.get("pending", 12))]
        for p in self.pending:
            self.conn._requests.appendleft(p)
        self.declog = []
        self.session = None
        if case["enc"]:
            from pyatv.auth.hap_session import HAPSession
            self.session = HAPSession()
            self.session.enable(case["okey"], case["ikey"])
            self.session.chacha20 = RecCipher(self.session.chacha20, self.declog)
            self.conn.receive_processor = self.session.decrypt

    def feed(self, chunk):
        self.conn.data_received(chunk)

    def obs(self):
        o = {"msgs": [canon_http(p.response, "resp") for p in self.pending if p.response is not None],
             "events_set": [p.event.is_set() for p in self.pending].count(True),
             "rest": self.conn._buffer.hex()}
        if self.session is not None:
            o["state"] = self.session.chacha20._in_counter
            o["bufa"] = self.session._encrypted_data.hex()
        return o


class HttpServerDriver:
    """BasicHttpServer with a scripted request handler: case["handler"] maps a request (canonical
    form) to "raise" / "none"; every other request gets a 200 response."""
    name = "httpserver"

    def __init__(self, case):
        from pyatv.support.http import BasicHttpServer
        self.events = []
        self.script = case.get("handler") or {}
        outer = self

        class T(FakeTransport):
            def write(self, data):
                super().write(data)
                m = re.match(rb"[^ ]+ (\d+) ", data)
                outer.events.append(["status", int(m.group(1)) if m else -1])

        self.srv = BasicHttpServer(self)
        self.srv.connection_made(T())

    def handle_request(self, request):
        from pyatv.support.http import HttpResponse
        canon = canon_http(request, "req")
        self.events.append(["req", canon])
        what = self.script.get(json.dumps(canon))
        if what == "raise":
            raise RuntimeError("handler failed")
        if what == "none":
            return None
        return HttpResponse("HTTP", "1.1", 200, "OK", {}, b"")

    def feed(self, chunk):
        self.srv.data_received(chunk)

    def obs(self):
        # ["req", request, status written for it] / ["status", code] for an answer without a request
        out = []
        for ev in self.events:
            if ev[0] == "req":
                out.append(["req", ev[1], -1])
            elif out and out[-1][0] == "req" and out[-1][2] == -1:
                out[-1][2] = ev[1]
            else:
                out.append(["status", ev[1]])
        return {"msgs": out, "rest": self.srv._request_buffer.hex()}


DRIVERS = {"mrp": MrpDriver, "companion": CompanionDriver, "hap": HapDriver, "datastream": DataStreamDriver,
           "event": EventDriver, "event-loop": EventDriver, "http": HttpClientDriver, "httpserver": HttpServerDriver}


def run_seg(case, cuts):
    """One implementation run: the stream cut at `cuts`, then (if nothing escaped) the probe frame whole."""
    d = DRIVERS[case["conn"]](case)
    raised = None
    try:
        with time_limit():
            for c in split(case["stream"], cuts):
                d.feed(c)
    except Hang:
        raised = "HANG"
    except Exception as ex:  # an exception escaping data_received: asyncio closes the transport
        raised = type(ex).__name__
    o = d.obs()
    o["raised"] = raised
    after = None
    if raised is None and case.get("probe"):
        try:
            with time_limit():
                d.feed(case["probe"])
            after = d.obs()
            after["raised"] = None
        except Hang:
            after = {"raised": "HANG"}
        except Exception as ex:
            after = {"raised": type(ex).__name__}
    return o, after, getattr(d, "declog", [])


# ------------------------------------------------------------------------------- frame builders

def mrp_payload(n, rng):
    """Serialized ProtocolMessage of exactly n bytes if one exists, else n arbitrary bytes (not protobuf)."""
    from pyatv.protocols.mrp import protobuf
    if n == 0:
        return b""
    for typ in (protobuf.GENERIC_MESSAGE, protobuf.SEND_COMMAND_MESSAGE):
        m = protobuf.ProtocolMessage()
        m.type = typ
        base = len(m.SerializeToString())
        if n == base:
            return m.SerializeToString()
        for hdr in (2, 3, 4):
            k = n - base - hdr
            if k < 0:
                continue
            m.identifier = "".join(rng.choice("abcdefghijklmnopqrstuvwxyz") for _ in range(k))
            s = m.SerializeToString()
            if len(s) == n:
                return s
    return bytes(rng.randrange(1, 256) | 0x80 for _ in range(n))


def write_varint(n):
    out = b""
    while True:
        if n < 128:
            return out + bytes([n])
        out += bytes([(n & 0x7F) | 0x80])
        n >>= 7


def keys(rng):
    return bytes(rng.randrange(256) for _ in range(32)), bytes(rng.randrange(256) for _ in range(32))


def pb_parses(data):
    from pyatv.protocols.mrp import protobuf
    try:
        protobuf.ProtocolMessage().ParseFromString(data)
        return True
    except Exception:
        return False


def mrp_stream(rng, sizes, enc, tamper=None):
    """-> case dict for a stream of MRP frames with the given payload sizes."""
    from pyatv.support.chacha20 import Chacha20Cipher8byteNonce
    okey, ikey = keys(rng)
    peer = Chacha20Cipher8byteNonce(ikey, okey)
    frames = []
    plains = []
    for i, n in enumerate(sizes):
        p = mrp_payload(n, rng)
        plains.append(p)
        body = peer.encrypt(p) if enc else p
        if tamper == i and body:
            body = body[:-1] + bytes([body[-1] ^ 1])
        frames.append(write_varint(len(body)) + body)
    probe_p = mrp_payload(60, rng)
    probe_b = peer.encrypt(probe_p) if enc else probe_p
    return {"conn": "mrp", "enc": enc, "okey": okey, "ikey": ikey, "stream": b"".join(frames),
            "bounds": list(itertools.accumulate(len(f) for f in frames)),
            "probe": write_varint(len(probe_b)) + probe_b, "valid": tamper is None,
            "what": "payload sizes %s%s%s" % (sizes, " encrypted" if enc else "", " frame %d tampered" % tamper if tamper is not None else ""),
            "plains": plains, "expect": sum(1 for q in plains if pb_parses(q))}


def companion_stream(rng, specs, enc, tamper=None):
    from pyatv.support.chacha20 import Chacha20Cipher
    okey, ikey = keys(rng)
    peer = Chacha20Cipher(ikey, okey, nonce_length=12)

    def frame(ftype, n, i=None):
        data = bytes(rng.randrange(256) for _ in range(n))
        ln = len(data) + (16 if (enc and data) else 0)
        header = bytes([ftype]) + ln.to_bytes(3, "big")
        if enc and data:
            data = peer.encrypt(data, aad=header)
            if tamper is not None and tamper == i:
                data = data[:-1] + bytes([data[-1] ^ 1])
        return header + data

    frames = [frame(t, n, i) for i, (t, n) in enumerate(specs)]
    return {"conn": "companion", "enc": enc, "okey": okey, "ikey": ikey, "stream": b"".join(frames),
            "bounds": list(itertools.accumulate(len(f) for f in frames)),
            "probe": frame(8, 20), "valid": tamper is None,
            "expect": sum(1 for t, _ in specs if t in [e.value for e in __import__("pyatv.protocols.companion.connection", fromlist=["FrameType"]).FrameType]),
            "what": "(type, payload size) %s%s%s" % (specs, " encrypted" if enc else "", " frame %d tampered" % tamper if tamper is not None else "")}


def hap_blocks(peer, plain, block_sizes=None):
    """Encrypt like HAPSession.encrypt, optionally with a custom partition into blocks."""
    if block_sizes is None:
        return peer.encrypt(plain)
    out = b""
    pos = 0
    for n in block_sizes:
        frame = plain[pos:pos + n]
        pos += n
        ln = len(frame).to_bytes(2, "little")
        out += ln + peer.chacha20.encrypt(frame, aad=ln)
    assert pos >= len(plain), (pos, len(plain))
    return out


def block_bounds(stream):
    out = []
    pos = 0
    while pos + 2 <= len(stream):
        pos += 2 + int.from_bytes(stream[pos:pos + 2], "little") + 16
        out.append(pos)
    return out


def hap_stream(rng, plain_len, block_sizes=None, tamper=None):
    okey, ikey = keys(rng)
    case = {"conn": "hap", "enc": True, "okey": okey, "ikey": ikey}
    peer = peer_session(case)
    plain = bytes(rng.randrange(256) for _ in range(plain_len))
    stream = hap_blocks(peer, plain, block_sizes)
    bounds = block_bounds(stream)
    if tamper is not None:
        pos = bounds[tamper] - 1
        stream = stream[:pos] + bytes([stream[pos] ^ 1]) + stream[pos + 1:]
    case.update({"stream": stream, "bounds": bounds, "probe": hap_blocks(peer, b"probe-probe-probe"),
                 "valid": tamper is None, "expect": plain_len,
                 "what": "plaintext %d bytes, blocks %s%s" % (plain_len, block_sizes or "1024-split", " block %d tampered" % tamper if tamper is not None else "")})
    return case


def ds_frame(rng, kind, seqno, npb=1, size_override=None):
    """One data stream frame: 32-byte header + payload."""
    from pyatv.protocols.mrp import protobuf
    if kind == "rply":
        mtype, cmd, payload = b"rply" + 8 * b"\0", 4 * b"\0", b""
    else:
        mtype, cmd = b"sync" + 8 * b"\0", b"comm"
        if kind == "list":          # a plist whose top level is not a dict: the handler raises
            payload = plistlib.dumps([1, 2, 3], fmt=plistlib.FMT_BINARY)
        elif kind == "noparams":
            payload = plistlib.dumps({"other": seqno}, fmt=plistlib.FMT_BINARY)
        else:
            data = b""
            for _ in range(npb):
                m = protobuf.ProtocolMessage()
                m.type = protobuf.GENERIC_MESSAGE
                m.identifier = "id-%d-%d" % (seqno, rng.randrange(1000))
                s = m.SerializeToString()
                data += write_varint(len(s)) + s
            payload = plistlib.dumps({"params": {"data": data}}, fmt=plistlib.FMT_BINARY)
    size = 32 + len(payload) if size_override is None else size_override
    return struct.pack(">I12s4sQI", size, mtype, cmd, seqno, 0) + payload


def ds_frame_exact(rng, seqno, total):
    """A valid `sync` data stream frame of exactly `total` bytes (an extra plist key pads the payload)."""
    from pyatv.protocols.mrp import protobuf
    m = protobuf.ProtocolMessage()
    m.type = protobuf.GENERIC_MESSAGE
    m.identifier = "id-%d-%d" % (seqno, rng.randrange(1000))
    sm = m.SerializeToString()
    data = write_varint(len(sm)) + sm
    for k in range(0, total):
        payload = plistlib.dumps({"params": {"data": data}, "pad": b"p" * k}, fmt=plistlib.FMT_BINARY)
        if 32 + len(payload) == total:
            return struct.pack(">I12s4sQI", total, b"sync" + 8 * b"\0", b"comm", seqno, 0) + payload
        if 32 + len(payload) > total:
            break
    raise ValueError("no data stream frame of %d bytes" % total)


def http_exact(first, cseq, total):
    """A valid HTTP message of exactly `total` bytes (the body pads it)."""
    for n in range(0, total):
        msg = http_message(first, [("CSeq", str(cseq))], b"b" * n)
        if len(msg) == total:
            return msg
        if len(msg) > total:
            break
    raise ValueError("no message of %d bytes" % total)


def layered_stream(rng, conn, plain_frames, block_sizes=None, valid=True, what="", extra=None):
    okey, ikey = keys(rng)
    case = {"conn": conn, "enc": True, "okey": okey, "ikey": ikey}
    peer = peer_session(case)
    plain = b"".join(plain_frames)
    stream = hap_blocks(peer, plain, block_sizes)
    case.update({"stream": stream, "bounds": block_bounds(stream), "plain": plain, "valid": valid, "what": what})
    case.update(extra or {})
    return case, peer


def http_message(first, headers, body=b"", auto_cl=True):
    h = list(headers)
    if auto_cl and body and not any(k.lower() == "content-length" for k, _ in h):
        h.insert(len(h) // 2, ("Content-Length", str(len(body))))
    return (first + "".join("\r\n%s: %s" % kv for kv in h) + "\r\n\r\n").encode("utf-8") + body


BODY_WITH_SEP = b"a\r\n\r\nb\r\n\r\n"
BPLIST = plistlib.dumps({"k": [1, 2, {"x": b"\x00\xff\r\n\r\n"}]}, fmt=plistlib.FMT_BINARY)


def http_frames(rng, kind, i):
    """A few valid messages of every shape; -> (bytes, first_line)."""
    if kind == "resp":
        first = rng.choice(["HTTP/1.1 200 OK", "RTSP/1.0 200 OK", "HTTP/1.1 404 Not Found", "RTSP/1.0 453 Not Enough Bandwidth"])
    else:
        first = rng.choice(["GET /info HTTP/1.1", "POST /command RTSP/1.0", "SET_PARAMETER rtsp://10.0.0.1/123 RTSP/1.0", "GET_X /a_b HTTP/1.1"])
    shapes = [
        lambda: http_message(first, []),
        lambda: http_message(first, [("CSeq", str(i)), ("Server", "AirTunes/366.0")]),
        lambda: http_message(first, [("CSeq", str(i))], b"x"),
        lambda: http_message(first, [("CSeq", str(i)), ("Content-Type", "text/plain")], BODY_WITH_SEP),
        lambda: http_message(first, [("Content-Type", "application/x-apple-binary-plist"), ("CSeq", str(i))], BPLIST),
        lambda: http_message(first, [("content-length", "3"), ("CSeq", str(i))], b"abc", auto_cl=False),
        lambda: http_message(first, [("Content-Length", "1"), ("CONTENT-LENGTH", "4"), ("X", "a: b")], b"wxyz", auto_cl=False),
        lambda: http_message(first, [("Content-Length", "0"), ("Audio-Latency", "0")], b"", auto_cl=False),
        lambda: http_message(first, [("Content-Length", "007")], b"1234567", auto_cl=False),
        lambda: http_message(first, [("CSeq", str(i)), ("Session", "1")], bytes(rng.randrange(256) for _ in range(rng.randrange(1, 40)))),
    ]
    return shapes, first


def with_consumer(case, idxs):
    """The layer above raises while handling the idxs-th messages it is handed (keyed by content, so
    that its behaviour is a function of the message, not of the read boundaries)."""
    d = DRIVERS[case["conn"]](case)
    d.feed(case["stream"])
    keys_ = d.handed()
    case["consumer"] = sorted({keys_[i] for i in idxs if i < len(keys_)})
    case["what"] += ", the layer above raises on message(s) %s of %d" % ([i for i in idxs if i < len(keys_)], len(keys_))
    return case


# ------------------------------------------------------------------------------- segmentations

def seg_plan(ctx, rng, n, bounds, coq):
    """Which segmentations of an n-byte stream are run: (explicit cut lists, all1?, all2?, bytewise?)."""
    lim1 = (2600 if ctx.thorough else 1300) if coq else 0
    lim2 = (230 if ctx.thorough else 70) if coq else 0
    explicit = []
    nr = 12 if not ctx.thorough else 60
    if n >= 2:
        for _ in range(nr):
            k = min(n - 1, rng.randrange(2, 9))
            explicit.append(sorted(rng.sample(range(1, n), k)))
    f1 = 2 <= n <= lim1
    f2 = 3 <= n <= lim2
    fb = 2 <= n <= 4000
    if not f1 and n >= 2:
        pos = set(range(1, min(n, 48))) | set(range(max(1, n - 48), n))
        for b in bounds:
            pos |= {p for p in range(b - 20, b + 21) if 0 < p < n}
        pos |= {rng.randrange(1, n) for _ in range(150 if not ctx.thorough else 1500)}
        explicit += [[p] for p in sorted(pos)]
        bs = [b for b in bounds if 0 < b < n]
        for b in bs:                                   # pairs of cuts around every frame boundary
            for d1 in (-2, -1, 0, 1, 2):
                for d2 in (1, 2, 3, 5, 17, 18, 19):
                    if 0 < b + d1 < b + d1 + d2 < n:
                        explicit.append([b + d1, b + d1 + d2])
    if not f2 and n >= 3:
        # pairs around every boundary even when not all pairs are enumerated
        for b in [0] + [b for b in bounds if b < n]:
            for d1 in range(1, 6):
                for d2 in range(1, 6):
                    if 0 < b + d1 < b + d1 + d2 < n:
                        explicit.append([b + d1, b + d1 + d2])
    uniq = []
    seen = set()
    for e in explicit:
        if tuple(e) not in seen:
            seen.add(tuple(e))
            uniq.append(e)
    return uniq, f1, f2, fb


def enum_segs(n, plan):
    explicit, f1, f2, fb = plan
    yield []
    for e in explicit:
        yield e
    if f1:
        for i in range(1, n):
            yield [i]
    if f2:
        for i in range(1, n):
            for j in range(i + 1, n):
                yield [i, j]
    if fb:
        yield list(range(1, n))


# ------------------------------------------------------------------------------- Coq printers

cb = common.cbytes


def cnats(l):
    return "[" + ";".join("%d" % x for x in l) + "]%nat"


def csegspec(explicit, f1, f2, fb):
    return "{| sg_explicit := %s; sg_all1 := %s; sg_all2 := %s; sg_bytewise := %s |}" % (
        "[" + ";".join(cnats(e) for e in explicit) + "]", common.cbool(f1), common.cbool(f2), common.cbool(fb))


def cdectab(log):
    seen = []
    for e in log:
        if e not in seen:
            seen.append(e)
    return "[" + ";".join("(%s, %s, %s, %s)" % (common.cN(c), cb(a), cb(d), common.copt(r, cb)) for c, a, d, r in seen) + "]"


def chttp(m):
    first, hdrs, body = m
    return "(%s, %s, %s)" % (cb(bytes.fromhex(first)),
                             "[" + ";".join("(%s, %s)" % (cb(bytes.fromhex(k)), cb(bytes.fromhex(v))) for k, v in hdrs) + "]",
                             cb(bytes.fromhex(body)))


def cds(f):
    t, c, seq, pad, pl = f
    return "{| ds_type := %s; ds_cmd := %s; ds_seqno := %s; ds_pad := %s; ds_payload := %s |}" % (
        cb(bytes.fromhex(t)), cb(bytes.fromhex(c)), common.cN(seq), common.cN(pad), cb(bytes.fromhex(pl)))


def cblist(l):
    return "[" + ";".join(cb(x) for x in l) + "]"


def coq_case(case, obs, declog, seg):
    """Coq record for (stream case, one implementation outcome, the segmentations that produced it)."""
    conn = case["conn"]
    s = cb(case["stream"])
    H = lambda h: cb(bytes.fromhex(h))
    if conn == "mrp":
        return "mrp", ("{| mc_state := %s; mc_dec := %s; mc_pb_bad := %s; mc_stream := %s; mc_segs := %s; "
                       "mc_msgs := %s; mc_final := %s; mc_rest := %s |}" % (
                           "(Some 0%N)" if case["enc"] else "None", cdectab(declog), cblist(case["pb_bad"]), s, seg,
                           "[" + ";".join(H(m) for m in obs["msgs"]) + "]",
                           common.copt(obs["state"], common.cN), H(obs["rest"])))
    if conn == "companion":
        return "companion", ("{| cc_state := %s; cc_dec := %s; cc_types := %s; cc_stream := %s; cc_segs := %s; "
                             "cc_msgs := %s; cc_final := %s; cc_rest := %s |}" % (
                                 "(Some 0%N)" if case["enc"] else "None", cdectab(declog),
                                 "[" + ";".join(common.cN(t) for t in case["types"]) + "]", s, seg,
                                 "[" + ";".join("(%s, %s)" % (common.cN(t), H(p)) for t, p in obs["msgs"]) + "]",
                                 common.copt(obs["state"], common.cN), H(obs["rest"])))
    if conn == "hap":
        return "hap", ("{| hc_dec := %s; hc_stream := %s; hc_segs := %s; hc_fail := %s; hc_plain := %s; "
                       "hc_final := %s; hc_rest := %s |}" % (
                           cdectab(declog), s, seg, common.cbool(obs["raised"] is not None), H(obs["msgs"]),
                           common.cN(obs["state"]), H(obs["rest"])))
    if conn == "http" and not case["enc"]:
        end = "ORaised" if obs["raised"] else "(ORest %s)" % H(obs["rest"])
        return "httpc", ("{| hp_bad_first := %s; hp_stream := %s; hp_segs := %s; hp_msgs := %s; hp_end := %s |}" % (
            cblist(case["bad_first"]), s, seg, "[" + ";".join(chttp(m) for m in obs["msgs"]) + "]", end))
    if conn == "httpserver":
        out = []
        for ev in obs["msgs"]:
            if ev[0] == "req":
                out.append("(OReq %s %s)" % (chttp(ev[1]), common.cN(ev[2] if ev[2] >= 0 else 0)))
            elif ev[1] == 500:
                out.append("O500")
            else:
                out.append("(OReq ([]%N, [], []%N) 0%N)")   # an answer the model does not know: forces a mismatch
        tab = "[" + ";".join("(%s, %s)" % (chttp(json.loads(k)), {"raise": "HRaises", "none": "HNothing"}[v])
                             for k, v in sorted((case.get("handler") or {}).items())) + "]"
        return "httpd", ("{| hd_bad_first := %s; hd_handler := %s; hd_stream := %s; hd_segs := %s; hd_out := %s; hd_rest := %s |}" % (
            cblist(case["bad_first"]), tab, s, seg, "[" + ";".join(out) + "]", H(obs["rest"])))
    if conn == "event-loop":
        return "ev", ("{| ec_bad_first := %s; ec_stream := %s; ec_segs := %s; ec_msgs := %s; ec_rest := %s |}" % (
            cblist(case["bad_first"]), s, seg, "[" + ";".join(chttp(m) for m in obs["msgs"]) + "]", H(obs["rest"])))
    # two layers
    if conn == "datastream":
        consumer = [bytes.fromhex(h) for h in case.get("consumer", [])]
        handed = [(bytes.fromhex(h), h not in case.get("consumer", [])) for h in obs["protobufs"]]
        rep = obs["replies"]
        replies = []
        if not rep.startswith("undecryptable"):
            raw = bytes.fromhex(rep)
            replies = [struct.unpack(">Q", raw[i + 20:i + 28])[0] for i in range(0, len(raw) - 31, 32)]
        layer = "(L2DataStream %s %s %s %s %s)" % (
            cblist(case["bad_payloads"]),
            "[" + ";".join("(%s, %s)" % (cb(pl), cblist(pbs)) for pl, pbs in case["pbtab"]) + "]",
            cblist(consumer),
            "[" + ";".join("(%s, %s)" % (cb(pb), common.cbool(ok)) for pb, ok in handed) + "]",
            "[" + ";".join(common.cN(q) for q in replies) + "]")
        msgs = ["(L2D %s)" % cds(f) for f in obs["msgs"]]
        failed = obs["raised"] is not None
    elif conn == "event":
        layer = "(L2Event %s)" % cblist(case["bad_first"])
        msgs = ["(L2H %s)" % chttp(m) for m in obs["msgs"]]
        failed = obs["raised"] is not None or obs["parse_raised"] > 0
    else:
        layer = "(L2Http %s)" % cblist(case["bad_first"])
        msgs = ["(L2H %s)" % chttp(m) for m in obs["msgs"]]
        failed = obs["raised"] is not None
    end = "ORaised" if failed else "(ORest %s)" % H(obs["rest"])
    return "lay", ("{| lc_layer := %s; lc_dec := %s; lc_stream := %s; lc_segs := %s; lc_msgs := %s; "
                   "lc_counter := %s; lc_bufa := %s; lc_end := %s |}" % (
                       layer, cdectab(declog), s, seg, "[" + ";".join(msgs) + "]",
                       common.cN(obs["state"]), H(obs["bufa"]), end))


GROUPS = {"mrp": ("mrp_check", "mrp_case"), "companion": ("comp_check", "comp_case"), "hap": ("hap_check", "hap_case"),
          "httpc": ("httpc_check", "httpc_case"), "httpd": ("httpd_check", "httpd_case"), "ev": ("ev_check", "ev_case"),
          "lay": ("lay_check", "lay_case"), "httpd_agree": ("httpd_agree", "httpd_case")}

KEYNAME = {"mrp": "mrp", "companion": "companion", "hap": "hap", "datastream": "datastream", "event": "event",
           "event-loop": "event", "http": "http", "httpserver": "httpserver"}


# ------------------------------------------------------------------------------- case generation

def gen_cases(ctx):
    rng = ctx.rng
    cases = []
    T = ctx.thorough

    # --- MRP: varint classes 0,1,127,128 (+16383/16384 implementation side only)
    small = [0, 1, 2, 5, 60, 126, 127, 128, 129, 200, 300]
    mrp_sets = [[128], [127, 128], [0, 1, 127], [128, 0, 129], [300, 1], [2, 60, 200], [5, 126, 5]]
    for _ in range(4 if not T else 16):
        mrp_sets.append([rng.choice(small) for _ in range(rng.randrange(1, 4))])
    for sizes in mrp_sets:
        cases.append(mrp_stream(rng, sizes, False))
    for sizes in [[111, 112], [0, 112, 113], [60, 127 - 16, 128 - 16, 1]] + ([[rng.choice(small) for _ in range(3)] for _ in range(6)] if T else []):
        cases.append(mrp_stream(rng, sizes, True))
    cases.append(mrp_stream(rng, [60, 70, 80], True, tamper=1))
    cases.append(with_consumer(mrp_stream(rng, [60, 70, 80], False), [0]))
    cases.append(with_consumer(mrp_stream(rng, [50, 0, 129, 61], False), [1, 2]))
    cases.append(with_consumer(mrp_stream(rng, [60, 70, 80], True), [0, 2]))
    for sizes in [[16383], [16384, 5], [3, 16385, 16383]]:
        c = mrp_stream(rng, sizes, False)
        c["big"] = True
        cases.append(c)
    c = mrp_stream(rng, [16384 - 16, 16383 - 16], True)
    c["big"] = True
    cases.append(c)

    # --- Companion
    from pyatv.protocols.companion.connection import FrameType
    types = sorted(e.value for e in FrameType)
    comp_sets = [[(8, 0)], [(8, 1), (7, 0), (1, 255)], [(8, 256)], [(18, 255), (8, 256), (4, 1)], [(2, 7), (8, 3)],
                 [(8, 300), (99, 2), (8, 0), (33, 12)]]
    for _ in range(4 if not T else 16):
        comp_sets.append([(rng.choice(types + [2, 200]), rng.choice([0, 1, 2, 30, 255, 256, 257])) for _ in range(rng.randrange(1, 4))])
    for specs in comp_sets:
        cases.append(companion_stream(rng, specs, False))
    for specs in [[(8, 1), (8, 0), (8, 239), (8, 240)], [(8, 255 - 16), (7, 256 - 16), (8, 2)], [(2, 9), (8, 40)]]:
        cases.append(companion_stream(rng, specs, True))
    cases.append(companion_stream(rng, [(8, 30), (8, 31), (8, 32)], True, tamper=1))
    cases.append(with_consumer(companion_stream(rng, [(8, 5), (8, 6), (7, 7)], False), [0]))
    cases.append(with_consumer(companion_stream(rng, [(8, 9), (8, 0), (18, 20)], True), [1, 2]))
    for specs in [[(8, 65535)], [(8, 65536), (8, 1)], [(8, 3), (8, 65537), (8, 65535)]]:
        c = companion_stream(rng, specs, False)
        c["big"] = True
        cases.append(c)
    c = companion_stream(rng, [(8, 65536 - 16), (8, 65535 - 16), (8, 5)], True)
    c["big"] = True
    cases.append(c)
    for c in cases:
        if c["conn"] == "companion":
            c["types"] = types

    # --- HAP session alone
    for plain_len, blocks in [(1, None), (17, None), (40, [0, 40]), (60, [1, 2, 57]), (300, [255, 45]), (300, [256, 44]),
                              (1023, None), (1024, None), (1025, None), (2048, None)]:
        cases.append(hap_stream(rng, plain_len, blocks))
    cases.append(hap_stream(rng, 90, [30, 30, 30], tamper=1))
    if T:
        for plain_len in (2049, 3000):
            cases.append(hap_stream(rng, plain_len))

    # --- data stream channel over HAP
    def ds_case(kinds, blocks=None, valid=True, what=""):
        frames = [ds_frame(rng, k, 100 + i, npb=1 + (i % 2)) if isinstance(k, str) else k for i, k in enumerate(kinds)]
        if blocks == "per-frame":
            blocks = [len(f) for f in frames]
        c, peer = layered_stream(rng, "datastream", frames, blocks, valid, what or "frames %s blocks %s" % ([k if isinstance(k, str) else "raw" for k in kinds], blocks or "1024-split"))
        c["probe"] = hap_blocks(peer, ds_frame(rng, "sync", 999))
        c["expect"] = len(kinds)
        return c

    cases.append(ds_case(["sync"]))
    cases.append(ds_case(["rply", "sync"]))
    cases.append(ds_case(["sync", "rply", "noparams"], blocks=[5, 27, 1, 1024]))
    cases.append(ds_case(["rply", "rply", "sync"], blocks=[31, 2, 31, 1024]))
    cases.append(ds_case(["sync", "sync"], blocks=[33, 64, 1024]))
    # decrypted data that ends exactly on a multiple of the 1024-byte HAP frame size (single messages
    # of 1024 / 2048 bytes, several messages adding up to it) as the LAST data of the stream
    for sizes, blocks in [([1024], None), ([500, 524], "per-frame"), ([992, 32, 1024], None)] + (
            [([2048], None), ([500, 524], None), ([1000, 1048], "per-frame")] if T else []):
        frames = [ds_frame(rng, "rply", 300 + i) if n == 32 else ds_frame_exact(rng, 300 + i, n) for i, n in enumerate(sizes)]
        cases.append(ds_case(frames, blocks=blocks, what="frames of %s bytes (total a multiple of 1024) blocks %s" % (sizes, blocks or "1024-split")))
    cases.append(with_consumer(ds_case(["sync", "sync", "sync"], blocks="per-frame"), [0]))
    cases.append(with_consumer(ds_case(["sync", "rply", "sync", "sync"], blocks="per-frame"), [1, 2]))
    cases.append(ds_case(["sync", "list", "sync"], valid=False, what="second frame's payload is a plist list: handler raises"))
    cases.append(ds_case(["rply", ds_frame(rng, "rply", 5, size_override=0), "sync"], valid=False, what="header.size = 0 (pre-fix 6360fe4: endless loop)"))
    cases.append(ds_case(["sync", ds_frame(rng, "rply", 5, size_override=31)], valid=False, what="header.size = 31"))

    # --- HTTP: plain client, encrypted client, server, event channel
    def http_case(conn, kind, picks, enc=False, blocks=None, valid=True, what="", raw=None, bad_first=(), handler_plan=None):
        msgs = []
        firsts = []
        for i, pk in enumerate(picks):
            shapes, first = http_frames(rng, kind, i)
            msgs.append(shapes[pk % len(shapes)]())
            firsts.append(first)
        if raw is not None:
            msgs = raw
        shapes, first = http_frames(rng, kind, 77)
        probe = shapes[2]()
        if enc or conn in ("event",):
            c, peer = layered_stream(rng, conn, msgs, blocks, valid, what)
            c["probe"] = hap_blocks(peer, probe)
        else:
            okey, ikey = keys(rng)
            c = {"conn": conn, "enc": False, "okey": okey, "ikey": ikey, "stream": b"".join(msgs), "valid": valid, "what": what,
                 "bounds": list(itertools.accumulate(len(m) for m in msgs)), "probe": probe}
        c["what"] = what or "%s messages of shapes %s%s" % (kind, picks, " encrypted blocks %s" % (blocks or "1024-split") if enc else "")
        c["bad_first"] = [b.encode() for b in bad_first]
        c["expect"] = len(msgs)
        c["frames"] = list(msgs)
        if conn == "httpserver" and valid:
            # the request handler's behaviour per request is part of the script: a handler that raises
            # (500) or returns None (404) is still a valid exchange and must not cost the requests behind it
            from pyatv.support.http import parse_request
            script = {}
            for i, m in enumerate(msgs):
                what = handler_plan[i % len(handler_plan)] if handler_plan else rng.choice(["ok", "ok", "raise", "raise", "none"])
                if what != "ok":
                    script[json.dumps(canon_http(parse_request(m)[0], "req"))] = what
            c["handler"] = script
            c["what"] += " handler %s" % (sorted(set(script.values())) or "ok")
        return c

    pick_sets = [[0], [1, 2], [3, 0, 4], [5, 6], [7, 8, 9], [2, 2, 2], [4, 3]]
    for _ in range(3 if not T else 12):
        pick_sets.append([rng.randrange(10) for _ in range(rng.randrange(1, 4))])
    cases.append(http_case("httpserver", "req", [1, 2, 3], handler_plan=["raise", "ok", "none"]))
    cases.append(http_case("httpserver", "req", [2, 4, 1], handler_plan=["ok", "raise", "raise"]))
    cases.append(http_case("httpserver", "req", [3, 1], handler_plan=["ok"]))
    for picks in pick_sets:
        cases.append(http_case("http", "resp", picks))
        cases.append(http_case("httpserver", "req", picks))
        cases.append(http_case("event-loop", "req", picks))
    cases.append(http_case("http", "resp", [1, 3], enc=True))
    cases.append(http_case("http", "resp", [2, 4, 0], enc=True, blocks=[3, 14, 1, 40, 1024]))
    cases.append(http_case("http", "resp", [9, 5], enc=True, blocks=[50, 50, 1024]))
    cases.append(http_case("event", "req", [1, 2]))
    cases.append(http_case("event", "req", [3, 0, 4], blocks=[7, 9, 100, 1024]))
    cases.append(http_case("event", "req", [6, 7, 8], blocks=[64, 64, 64, 1024]))
    for sizes, blocks in [([1024], None), ([500, 524], [500, 524]), ([1000, 60, 988], None)] + (
            [([2048], None), ([500, 524], None), ([1000, 1048], [1000, 1048])] if T else []):
        raw = [http_exact("POST /command RTSP/1.0", i, n) for i, n in enumerate(sizes)]
        cases.append(http_case("event", "req", [], blocks=blocks, raw=raw,
                               what="requests of %s bytes (total a multiple of 1024) blocks %s" % (sizes, blocks or "1024-split")))
    # outside valid streams: correspondence only
    ok = http_message("HTTP/1.1 200 OK", [("CSeq", "1")], b"zz")
    okr = http_message("GET / HTTP/1.1", [("CSeq", "1")], b"zz")
    bad = [
        ("resp", [ok, b"garbage\r\n\r\n", ok], ["garbage"], "malformed status line between two responses"),
        ("resp", [ok, b"\r\n\r\n", ok], [""], "blank status line"),
        ("resp", [ok, b"HTTP/1.1 200 OK\r\nnocolon\r\n\r\n"], [], "header line without ': '"),
        ("resp", [b"HTTP/1.1 200 OK\r\nX: \xff\xfe\r\n\r\n", ok], [], "header block is not UTF-8"),
        ("resp", [b"HTTP/1.1 200 OK\r\nContent-Length: +2\r\n\r\nab", ok], [], "Content-Length '+2' (int() accepts a sign)"),
        ("resp", [b"HTTP/1.1 200 OK\r\nContent-Length: 2 \r\n\r\nab", ok], [], "Content-Length '2 ' (int() strips whitespace)"),
        ("resp", [b"HTTP/1.1 200 OK\r\nContent-Length: x\r\n\r\nab"], [], "Content-Length 'x' (int() raises ValueError)"),
    ]
    for kind, raw, bf, what in bad:
        cases.append(http_case("http", "resp", [], valid=False, what=what, raw=raw, bad_first=bf))
        req_raw = [r.replace(b"HTTP/1.1 200 OK", b"GET / HTTP/1.1") for r in raw]
        cases.append(http_case("httpserver", "req", [], valid=False, what=what + " (server)", raw=req_raw, bad_first=bf))
        cases.append(http_case("event-loop", "req", [], valid=False, what=what + " (event channel loop)", raw=req_raw, bad_first=bf))
    cases.append(http_case("event", "req", [], valid=False, what="malformed request line on the encrypted event channel (pre-fix 304b4e5: endless loop)",
                           raw=[okr, b"garbage\r\n\r\n", okr], bad_first=["garbage"]))
    cases.append(http_case("http", "resp", [], enc=True, valid=False, what="malformed status line on the encrypted control channel",
                           raw=[ok, b"garbage\r\n\r\n", ok], bad_first=["garbage"]))
    # --- numeric-field sweep (outside valid streams): every decimal field of a valid message replaced
    # by hostile literals.  Python's int() accepts sign, surrounding whitespace and single underscores;
    # a negative Content-Length goes through Python's slice rules.  The model covers all of it.
    body = b"abcdef"
    cl_values = ["-%d" % k for k in range(0, len(body) + 9)] + [
        "+3", " 3", "3 ", "1_0", "1e3", "0x10", "", str(2 ** 31), str(2 ** 64), "9" * 400,
        "+0", "3_", "_3", "1__0", "\t3", "3\x0b", "3\n", "- 3", "+-3", "0_6", "006", " -2\t", "\u0663"]
    other_values = ["-5", "+3", " 3", "3 ", "1_0", "1e3", "0x10", "", str(2 ** 64)]
    if not T:
        other_values = other_values[:5]
    for conn, kind in (("http", "resp"), ("httpserver", "req"), ("event-loop", "req")):
        first = "RTSP/1.0 200 OK" if kind == "resp" else "POST /command RTSP/1.0"
        tail = http_message(first, [("CSeq", "9")], b"zz")
        sweeps = [("Content-Length", v) for v in cl_values] + [("CSeq", v) for v in other_values]
        if kind == "resp":
            sweeps += [("status", v) for v in other_values]
        if not T and conn != "http":
            # quick tier: the full sweep on the client, a sample of the negative lengths on the others
            keep = {"-0", "-1", "-2", "-%d" % len(body), "-%d" % (len(body) + 1), "-%d" % (len(body) + 8)}
            sweeps = [(f, v) for f, v in sweeps if not (f == "Content-Length" and v.startswith("-") and v[1:].isdigit() and v not in keep)
                      and len(v) < 100]
        for field, v in sweeps:
            f1 = first.replace("200", v) if field == "status" else first
            hdrs = [("CSeq", v if field == "CSeq" else "1"), ("Content-Length", v if field == "Content-Length" else str(len(body)))]
            msg = (f1 + "".join("\r\n%s: %s" % kv for kv in hdrs) + "\r\n\r\n").encode("utf-8") + body
            c = http_case(conn, kind, [], valid=False, raw=[msg, tail],
                          what="numeric field sweep: %s = %r, then a valid message" % (field, v if len(v) < 30 else v[:8] + "...(%d digits)" % len(v)))
            c["sweep"] = True
            c["unmodelled"] = any(ord(ch) > 127 for ch in v)
            cases.append(c)
    for c in cases:
        c["domain"] = not c.get("unmodelled", False)
    # streams whose layer above raises come last (stable): they probe the barrier around the consumer,
    # everything before probes the reassembly itself
    cases.sort(key=lambda c: bool(c.get("consumer")))
    return cases


# ------------------------------------------------------------------------------- judging one stream

def first_line_ok(kind, line):
    """Does the real parser accept this first line?  (the line alone, no headers, no body)"""
    from pyatv.support.http import parse_request, parse_response
    try:
        (parse_response if kind == "resp" else parse_request)(line + b"\r\n\r\n")
        return True
    except ValueError as ex:
        return "bad first line" not in str(ex)
    except Exception:
        return True


def prepare(case):
    """Oracle tables the model needs that are not decrypt results."""
    if case["conn"] in ("http", "httpserver", "event", "event-loop") and not case["valid"]:
        # after unparsable data a message may start anywhere: every suffix of every line is a candidate
        kind = "resp" if case["conn"] == "http" else "req"
        plain = case.get("plain", case["stream"])
        cands = set()
        for i in range(len(plain) + 1):
            cands.add(plain[i:].split(b"\r\n")[0])
        case["bad_first"] = sorted(c for c in cands if not first_line_ok(kind, c))
    if case["conn"] == "mrp":
        from pyatv.protocols.mrp import protobuf
        bad = []
        for p in case.get("plains", []):
            try:
                protobuf.ProtocolMessage().ParseFromString(p)
            except Exception:
                bad.append(p)
        case["pb_bad"] = bad
    if case["conn"] == "datastream":
        # which payloads make the channel's own steps raise (decode_payload, message.get, ...): each
        # payload alone through a fresh channel whose listener returns normally - a raising LISTENER is
        # not among them (the model says it is contained); and the protobuf messages of each payload
        bad = []
        pbtab = []
        plain = case["plain"]
        pos = 0
        while pos + 32 <= len(plain):
            size = struct.unpack(">I", plain[pos:pos + 4])[0]
            if size < 32:
                break
            payload = plain[pos + 32:pos + size]
            d = DataStreamDriver(dict(case, consumer=[]))
            try:
                with time_limit():
                    pl = d.ch.decode_payload(payload)
                    if pl:
                        d.ch._process_payload(pl)
            except Exception:
                bad.append(payload)
            if payload not in [q for q, _ in pbtab]:
                pbtab.append((payload, [bytes.fromhex(h) for h in d.pbs]))
            pos += size
        case["bad_payloads"] = bad
        case["pbtab"] = pbtab


def delivered_count(conn, o):
    if isinstance(o["msgs"], str):
        return len(o["msgs"]) // 2
    if conn == "httpserver":
        return len([m for m in o["msgs"] if m[0] == "req"])
    return len(o["msgs"])


def judge(ctx, case, coq):
    """Run every planned segmentation of one stream on the implementation; oracle + Coq cases."""
    conn = case["conn"]
    n = len(case["stream"])
    big = case.get("big", False)
    plan = seg_plan(ctx, ctx.rng, n, case.get("bounds", []), not big)
    prepare(case)
    whole = None
    groups = {}
    declog_all = []
    nseg = 0
    key = "C02:%s:" % KEYNAME[conn]
    hung = False
    worst = {}
    for cuts in enum_segs(n, plan):
        o, after, declog = run_seg(case, cuts)
        nseg += 1
        for e in declog:
            if e not in declog_all:
                declog_all.append(e)
        sig = json.dumps([o, after], sort_keys=True)
        if whole is None:
            whole = (o, after, sig)
            if case["valid"] and o["raised"] is None and "expect" in case:
                got = delivered_count(conn, o)
                left = o["rest"] + o.get("bufa", "")
                if got != case["expect"] or left:
                    ctx.violation(key + "valid-stream-not-delivered",
                                  "a stream of complete valid frames (%s) read at once delivered %d of %d messages and left %d bytes buffered"
                                  % (case["what"], got, case["expect"], len(left) // 2), replay_of(case, []))
        groups.setdefault(json.dumps(o, sort_keys=True), (o, []))[1].append(cuts)
        if o["raised"] == "HANG" or (after and after.get("raised") == "HANG"):
            # a receive loop that does not return: report once and leave this stream (every further
            # segmentation would cost another time-out)
            ctx.violation(key + "hangs", "data_received does not return (%s) cut at %s" % (case["what"], cuts), replay_of(case, cuts))
            hung = True
            break
        if not case["valid"]:
            continue
        # ---- the property, judged on the implementation
        if o["raised"] == "ConsumerError":
            # the layer above failed on one message; the receive loop let that out of data_received,
            # which costs the whole connection (asyncio closes the transport)
            k = "consumer-exception-escapes"
            what = "the exception of the layer above escaped data_received (%s)" % case["what"]
        elif o["raised"] is not None:
            k = "split-raises" if cuts else "valid-stream-raises"
            what = "%s escaped data_received on a valid stream (%s)" % (o["raised"], case["what"])
        elif sig != whole[2]:
            if json.dumps(o, sort_keys=True) != json.dumps(whole[0], sort_keys=True):
                k, what = "split-changes-messages", "delivered messages / parser state / residual buffer differ from the unsplit run (%s)" % case["what"]
            else:
                k, what = "split-breaks-connection", "a frame sent after the stream is handled differently than after the unsplit run (%s)" % case["what"]
        else:
            continue
        if k not in worst or len(cuts) < len(worst[k][0]):
            worst[k] = (cuts, what)
    for k, (cuts, what) in sorted(worst.items()):
        ctx.violation(key + k, "%s cut at %s" % (what, cuts), replay_of(case, cuts))
    ctx.count("%s%s:streams" % (conn, "+enc" if case["enc"] and conn in ("mrp", "companion", "http") else ""))
    ctx.count("%s:segmentations" % conn, nseg)
    if case.get("sweep"):
        ctx.count("%s:numeric-field-sweep-streams" % conn)
    elif not case["valid"]:
        ctx.count("outside-valid-streams(correspondence only)")
    if not case["domain"]:
        ctx.count("http:non-ascii-content-length(unicode digits not modelled: skipped in correspondence)")
    wo = whole[0]
    ctx.case((conn, case["stream"].hex(), case["enc"]), nontrivial=bool(wo.get("msgs")),
             sample={"conn": conn, "what": case["what"], "stream_bytes": n, "segmentations": nseg,
                     "delivered": len(wo["msgs"]) if isinstance(wo["msgs"], list) else len(wo["msgs"]) // 2,
                     "residual": wo["rest"][:40], "raised": wo["raised"]} if nseg > 3 else None)
    ctx.evaluations += nseg - 1
    if big:
        ctx.count("big-frames(implementation side only)")
        return nseg
    if hung:
        return nseg
    if not case["domain"]:
        return nseg
    # ---- correspondence: one Coq case per distinct implementation outcome
    if len(groups) == 1:
        o, _ = next(iter(groups.values()))
        g, term = coq_case(case, o, declog_all, csegspec([[]] + plan[0], *plan[1:]))
        coq.add(g, term, {"conn": conn, "what": case["what"], "stream": case["stream"].hex(), "impl": o})
        if g == "httpd":
            coq.add("httpd_agree", term, {"conn": conn, "what": case["what"], "agree": True})
    else:
        for o, cutlists in list(groups.values())[:(40 if ctx.thorough else 10)]:
            g, term = coq_case(case, o, declog_all, csegspec(cutlists[:60], False, False, False))
            coq.add(g, term, {"conn": conn, "what": case["what"], "stream": case["stream"].hex(), "impl": o, "cuts": cutlists[:5]})
    return nseg


def replay_of(case, cuts):
    r = {"conn": case["conn"], "enc": case["enc"], "okey": case["okey"].hex(), "ikey": case["ikey"].hex(),
         "stream": case["stream"].hex() if len(case["stream"]) <= 6000 else None,
         "probe": (case.get("probe") or b"").hex(), "cuts": cuts, "what": case["what"],
         "expect": case.get("expect") if case.get("valid") else None}
    if case.get("handler"):
        r["handler"] = case["handler"]
    if case.get("consumer"):
        r["consumer"] = case["consumer"]
    if r["stream"] is None:
        r["stream_z"] = __import__("base64").b64encode(__import__("zlib").compress(case["stream"])).decode()
    return r


def case_of_replay(r):
    if r.get("stream") is not None:
        stream = bytes.fromhex(r["stream"])
    else:
        stream = __import__("zlib").decompress(__import__("base64").b64decode(r["stream_z"]))
    return {"conn": r["conn"], "enc": r["enc"], "okey": bytes.fromhex(r["okey"]), "ikey": bytes.fromhex(r["ikey"]),
            "stream": stream, "probe": bytes.fromhex(r.get("probe", "")), "what": r.get("what", ""), "valid": True,
            "expect": r.get("expect"), "handler": r.get("handler"), "consumer": r.get("consumer") or []}


def judge_replay(case, cuts):
    """-> list of property errors for one (stream, cuts)."""
    wo, wa, _ = run_seg(case, [])
    o, a, _ = run_seg(case, cuts)
    errs = []
    if "HANG" in (o["raised"], (a or {}).get("raised")):
        errs.append("hangs")
    elif o["raised"] == "ConsumerError":
        errs.append("consumer-exception-escapes")
    elif o["raised"] is not None:
        errs.append("split-raises" if wo["raised"] is None else "valid-stream-raises")
    elif json.dumps(o, sort_keys=True) != json.dumps(wo, sort_keys=True):
        errs.append("split-changes-messages")
    elif json.dumps(a, sort_keys=True) != json.dumps(wa, sort_keys=True):
        errs.append("split-breaks-connection")
    if case.get("expect") is not None and wo["raised"] is None:
        if delivered_count(case["conn"], wo) != case["expect"] or wo["rest"] + wo.get("bufa", ""):
            errs.append("valid-stream-not-delivered")
    return errs, wo, o



# ------------------------------------------------------------------------------- read boundaries and time
# HttpConnection is the one receive loop that shares its object with callers that can give up:
# send_and_receive waits for the response with a timeout.  A read boundary inside a response may
# therefore coincide with the waiting caller timing out before the rest arrives.  The bytes are
# the same, so the messages parsed from them must be the same as for the unsplit stream, and an
# exchange started after the late tail has arrived must still get its own response.
#
# One history = one exchange per response of a valid stream (the real send_and_receive under the
# virtual-time loop); response `victim` arrives in two reads, cut at `cut`, with the caller's
# timeout expiring in between.  request_first=False: the next request is issued after the tail
# arrived (accounting is judged); True: it is issued before the tail (the late response is then
# handed to that request - the known C03 finding - so only the parsed sequence is judged).

TIMEOUT = 1.0


async def timed_history(case, bounds, victim, cut, request_first):
    from pyatv.support.http import HttpConnection
    d = HttpClientDriver(dict(case, pending=0))
    conn = d.conn
    k = len(bounds)
    starts = [0] + bounds[:-1]
    parsed = []
    outcomes = ["pending"] * k
    raised = [None]

    def feed(chunk):
        """One data_received call; every response it parses is recorded in parse order: first
        the callers waiting (oldest first), then catch-all entries appended behind them, which
        receive what the connection would otherwise drop for lack of a request."""
        waiting = list(conn._requests)
        extra = [HttpConnection.PendingRequest(event=asyncio.Event()) for _ in range(8)]
        for e in extra:
            conn._requests.appendleft(e)
        try:
            conn.data_received(chunk)
        except Exception as ex:
            raised[0] = type(ex).__name__
        for p in reversed(waiting):
            if p.response is not None:
                parsed.append(canon_http(p.response, "resp"))
        for e in extra:
            if e.response is not None:
                parsed.append(canon_http(e.response, "resp"))
            elif e in conn._requests:
                conn._requests.remove(e)

    async def client():
        for i in range(k):
            try:
                r = await conn.send_and_receive("GET", "/%d" % i, allow_error=True,
                                                timeout=TIMEOUT if i == victim else 50)
                outcomes[i] = canon_http(r, "resp")
            except TimeoutError:
                outcomes[i] = "timeout"
                if not request_first:
                    await asyncio.sleep(3 * TIMEOUT)
            except Exception as ex:
                outcomes[i] = "raised:" + type(ex).__name__

    task = asyncio.ensure_future(client())
    for i in range(k):
        await asyncio.sleep(0.01)
        if i == victim:
            feed(case["stream"][starts[i]:cut])
            if raised[0] is None:
                await asyncio.sleep(2 * TIMEOUT)
                feed(case["stream"][cut:bounds[i]])
            if not request_first:
                await asyncio.sleep(3 * TIMEOUT)
        else:
            feed(case["stream"][starts[i]:bounds[i]])
        if raised[0] is not None:      # asyncio closes the transport
            break
    await asyncio.sleep(0.01)
    task.cancel()
    try:
        await task
    except BaseException:
        pass
    o = d.obs()
    o["msgs"] = parsed
    o.pop("events_set", None)
    o["raised"] = raised[0]
    return o, outcomes, d.declog


async def timed_batch(case, bounds, plans):
    return [await timed_history(case, bounds, v, c, rf) for (v, c, rf) in plans]


def timed_errors(case, whole, o, outcomes, victim, request_first):
    """The property judged on one timed history; `whole` = the unsplit stream on a fresh connection."""
    if o["raised"] is not None:
        return ["split-raises-after-timeout"]
    want = dict(whole)
    got = dict(o)
    for x in (want, got):
        x.pop("events_set", None)
    if json.dumps(got, sort_keys=True) != json.dumps(want, sort_keys=True):
        return ["split-changes-messages-after-timeout"]
    if not request_first:
        expect = [whole["msgs"][i] if i != victim else "timeout" for i in range(len(outcomes))]
        if outcomes != expect:
            return ["timeout-changes-later-responses"]
    return []


def timed_case_of(case, rng):
    """Exchange-aligned variant of an HTTP client case: for the encrypted connection every response
    is encrypted on its own, so that a response boundary is also a block boundary."""
    frames = case["frames"]
    if not case["enc"]:
        return case, list(itertools.accumulate(len(m) for m in frames))
    c = dict(case)
    peer = peer_session(c)
    parts = [hap_blocks(peer, m, [7, 30, 1024] if i % 2 else None) for i, m in enumerate(frames)]
    c["stream"] = b"".join(parts)
    c["what"] = case["what"] + " (one HAP block sequence per response)"
    return c, list(itertools.accumulate(len(x) for x in parts))


def judge_timed(ctx, case, coq):
    rng = ctx.rng
    tcase, bounds = timed_case_of(case, rng)
    starts = [0] + bounds[:-1]
    plans = []
    for v in range(len(bounds)):
        a, b = starts[v], bounds[v]
        if b - a < 2:
            continue
        if ctx.thorough or b - a <= 90:
            pos = set(range(a + 1, b))
        else:
            pos = set(range(a + 1, a + 25)) | set(range(b - 24, b)) | {rng.randrange(a + 1, b) for _ in range(25)}
            sep = tcase["stream"].find(b"\r\n\r\n", a, b)
            if sep >= 0:
                pos |= {q for q in range(sep - 4, sep + 9) if a < q < b}
        for c in sorted(pos):
            plans.append((v, c, False))
            plans.append((v, c, True))
    if not plans:
        return 0
    whole, _, _ = run_seg(dict(tcase, pending=len(bounds) + 2), [])
    whole.pop("events_set", None)
    try:
        with time_limit(120):
            results = vloop.run(timed_batch, tcase, bounds, plans)
    except Hang:
        ctx.violation("C02:http:hangs", "a timed history does not return (%s)" % tcase["what"], replay_of(tcase, []))
        return 0
    worst = {}
    groups = {}
    declog_all = []
    for (v, c, rf), (o, outcomes, declog) in zip(plans, results):
        for e in declog:
            if e not in declog_all:
                declog_all.append(e)
        seg = sorted(set(bounds[:-1]) | {c})
        groups.setdefault(json.dumps(o, sort_keys=True), (o, []))[1].append(seg)
        for k in timed_errors(tcase, whole, o, outcomes, v, rf):
            if k not in worst:
                worst[k] = (v, c, rf, o, outcomes)
    for k, (v, c, rf, o, outcomes) in sorted(worst.items()):
        r = replay_of(tcase, sorted(set(bounds[:-1]) | {c}))
        r["timed"] = {"bounds": bounds, "victim": v, "cut": c, "request_first": rf}
        r["observed"] = {"parsed": len(o["msgs"]), "raised": o["raised"], "rest": o["rest"][:80], "outcomes": [x if isinstance(x, str) else "response" for x in outcomes]}
        ctx.violation("C02:http:" + k,
                      "response %d of a valid stream (%s) cut at byte %d with the waiting request timing out between the two reads, "
                      "next request issued %s the late tail: %s" % (v, tcase["what"], c, "before" if rf else "after", k), r)
    ctx.count("http%s:timed-histories" % ("+enc" if case["enc"] else ""), len(plans))
    ctx.evaluations += len(plans)
    for o, seglists in list(groups.values())[:8]:
        uniq = []
        for sg in seglists:
            if sg not in uniq:
                uniq.append(sg)
        g, term = coq_case(tcase, o, declog_all, csegspec(uniq[:150], False, False, False))
        coq.add(g, term, {"conn": "http", "what": tcase["what"] + " [timed histories]", "stream": tcase["stream"].hex(), "impl": o, "cuts": uniq[:5]})
    return len(plans)


class CaseSink:
    """Two CoqCases collections evaluated concurrently: a few heavy records per file for the groups
    with kilobyte streams (every single cut of a 2 KB HAP stream), many light ones per file for HTTP."""
    HEAVY = ("hap", "lay", "mrp", "companion")

    def __init__(self, ctx):
        imports = "From PV Require Import Common.Cases Common.Framing C02.Model.\nLocal Open Scope N_scope."
        self.heavy = common.CoqCases(ctx, imports, per_file=3)
        self.light = common.CoqCases(ctx, imports, per_file=30)
        for g, (fn, typ) in GROUPS.items():
            (self.heavy if g in self.HEAVY else self.light).group(g, fn, typ)

    def add(self, g, term, meta):
        (self.heavy if g in self.HEAVY else self.light).add(g, term, meta)

    def run(self):
        from concurrent.futures import ThreadPoolExecutor
        with ThreadPoolExecutor(max_workers=2) as ex:
            a = ex.submit(self.heavy.run, 1500)
            b = ex.submit(self.light.run, 1500)
            return a.result() + b.result()


# ------------------------------------------------------------------------------- entry points

def run(ctx):
    ctx.build_property()
    if ctx.thorough:
        ctx.coqchk()
    ctx.rule = ("streams of 1..4 valid frames per connection type with sizes on every length-class boundary "
                "(varint 0/1/127/128/16383/16384, Companion 0/1/255/256/65535/65536, HAP blocks 1023/1024/1025/2048 and "
                "custom partitions, HTTP header-only / bodies containing CRLFCRLF / binary bodies / duplicate and "
                "case-variant Content-Length), encrypted variants through the real cipher; each stream is delivered whole, "
                "with every single cut, every pair of cuts (streams <= %d bytes), byte-at-a-time and random multi-cuts; "
                "one evaluation = one segmentation run on the real class; distinct = distinct streams; non-trivial = at "
                "least one message delivered" % (230 if ctx.thorough else 70))
    coq = CaseSink(ctx)
    # corpus first
    for fname, d in common.load_corpus(ctx.pid):
        case = case_of_replay(d["case"])
        case["valid"] = d.get("valid", True)
        errs, wo, o = judge_replay(case, d["case"]["cuts"])
        ctx.count("corpus")
        ctx.case(("corpus", fname), nontrivial=True)
        for e in errs:
            ctx.violation("C02:%s:%s" % (KEYNAME[case["conn"]], d.get("key_suffix") or e),
                          "%s: %s" % (fname, d.get("what", "")), dict(d["case"]))
    cases = gen_cases(ctx)
    total = 0
    for case in cases:
        total += judge(ctx, case, coq)
        if case["conn"] == "http" and case["valid"] and case.get("frames"):
            total += judge_timed(ctx, case, coq)
    ctx.note("implementation runs: %d segmentations of %d streams" % (total, len(cases)))
    mism = coq.run()
    for g, meta in mism:
        ctx.tie_broken("correspondence:" + g, json.dumps(meta, default=repr)[:3000])
    ctx.traces = total
    ctx.trusted += [
        "hand-written model coq/C02/Model.v of the seven receive loops, tied by the differential run of this file (evaluated in Coq by vm_compute on every segmentation)",
        "drivers in harness/c02.py: fake transport, recording listeners, recording wrapper around the real cipher objects, instance-level wrappers around decode_message / parse_request",
        "Common/Framing.v (generic segmentation theorem), Common/Endian.v",
    ]
    ctx.assumptions += [
        "ChaCha20-Poly1305 decryption is a function of (counter, aad, data) - Section variable `dec`; the model's table is what the real cipher returned in this run",
        "protobuf parsing, UTF-8 validity of the header block, the two first-line regular expressions and the data-stream payload handler are functions of their argument (Section variables)",
        "HTTP Content-Length: the full int() grammar on ASCII (whitespace, sign, underscores; ValueError otherwise) and Python slice rules for a negative length are modelled and compared; only values with a non-ASCII byte (Unicode digits/spaces) are unmodelled - skipped in the correspondence and counted in input_distribution; int()'s 4300-digit limit is not modelled (no such input is generated)",
        "the segmentation theorems for the three HTTP loops assume that the strict parser (which refuses a negative Content-Length) reads the unsplit stream without failure; with a negative length the code as written is segmentation dependent (theorem C02_http_negative_content_length_refuted) - not a valid stream; termination (C02_loops_terminate, C02_http_parse_consumes) holds for every integer length",
        "header keys are ASCII (str.lower of non-ASCII letters is not modelled); the body's text decoding is ignored",
        "the 64-bit/96-bit nonce counters do not overflow; EventChannel.send does not raise (transport connected)",
        "the layer above is an input: listeners raise on scripted messages; MRP, Companion and (since fix 471aec0) the data stream channel contain that behind a per-message barrier - theorems C02_*_consumer_segmentation; an exception of the layer above that leaves data_received is reported as C02:<conn>:consumer-exception-escapes; the event channel and the HTTP client hand messages to no callback that could raise (reply via transport.write / asyncio.Event.set)",
        "streams with a blank request line are not valid streams: EventChannel then delays the following complete request until the next read (lemma evchan_blank_line_depends_on_segmentation)",
    ]


def replay(ctx, path):
    d = json.load(open(path))
    r = d.get("replay") or d.get("case") or d
    case = case_of_replay(r)
    if r.get("timed"):
        t = r["timed"]
        whole, _, _ = run_seg(dict(case, pending=len(t["bounds"]) + 2, probe=b""), [])
        whole.pop("events_set", None)
        o, outcomes, _ = vloop.run(timed_history, case, t["bounds"], t["victim"], t["cut"], t["request_first"])
        errs = timed_errors(case, whole, o, outcomes, t["victim"], t["request_first"])
        print("conn=http timed history %s\n unsplit: %d messages, rest=%s\n timed:   %d messages, raised=%s, rest=%s\n request outcomes=%s\n property-errors=%s" % (
            t, len(whole["msgs"]), whole["rest"][:60], len(o["msgs"]), o["raised"], o["rest"][:60],
            [x if isinstance(x, str) else "response" for x in outcomes], errs))
        return 1 if errs else 0
    errs, wo, o = judge_replay(case, r["cuts"])
    print("conn=%s cuts=%s\n unsplit: %s\n split:   %s\n property-errors=%s" % (
        case["conn"], r["cuts"], json.dumps(wo)[:600], json.dumps(o)[:600], errs))
    # a replay file is about ONE failure class (its key); other classes on the same input have
    # their own replay files
    about = str(d.get("key", "")).split(":")[-1]
    if about in ("split-raises", "valid-stream-raises", "split-changes-messages", "split-breaks-connection",
                 "valid-stream-not-delivered", "consumer-exception-escapes", "hangs"):
        return 1 if about in errs else 0
    return 1 if errs else 0
