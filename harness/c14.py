"""C14 - settings storage: lookup by identifier, save/load round trip, changed flag.

gen(ctx)   introspects the pydantic schema of pyatv/settings.py into coq/C14/Gen.v (fail closed)
run(ctx)   builds coq/C14, then runs histories of get/update/remove/set/save/load/fresh/changed/scan
           on the REAL MemoryStorage / FileStorage, judges the property text on what they return
           (the oracle below) and compares every history with the Gallina model inside Coq.
"""
import asyncio
import enum
import hashlib
import itertools
import json
import os
import shutil
import tempfile
import time
from ipaddress import IPv4Address

import common

PROTOS = ["airplay", "companion", "dmap", "mrp", "raop"]
CPROTO = {"airplay": "AirPlay", "companion": "Companion", "dmap": "DMAP", "mrp": "MRP", "raop": "RAOP"}


# --------------------------------------------------------------------------- translator

class GenError(Exception):
    pass


def read_schema():
    """[(section, [(field, type, default, enum_cls)])] from the pydantic models, flattened;
    type in {'optstr','str','int',('enum',[values])}.  Raises GenError on anything else."""
    from pyatv import settings as S
    from pyatv.support.pydantic_compat import BaseModel
    try:
        from pydantic.v1 import Extra
    except ImportError:
        from pydantic import Extra

    def is_model(t):
        return isinstance(t, type) and issubclass(t, BaseModel)

    def ignore_extra(m):
        if m.__config__.extra != Extra.ignore:
            raise GenError("%s does not ignore extra keys" % m.__name__)

    def leaf_fields(m):
        ignore_extra(m)
        out = []
        for name, f in m.__fields__.items():
            if f.required or f.default_factory is not None:
                raise GenError("%s.%s: required / factory field not supported" % (m.__name__, name))
            if f.outer_type_ is not f.type_:
                raise GenError("%s.%s: container type not supported" % (m.__name__, name))
            t, d = f.type_, f.default
            if t is str and f.allow_none:
                ty = "optstr"
                ok = d is None or isinstance(d, str)
            elif t is str:
                ty = "str"
                ok = isinstance(d, str)
            elif t is int and not f.allow_none:
                ty = "int"
                ok = isinstance(d, int) and not isinstance(d, bool)
            elif isinstance(t, type) and issubclass(t, enum.Enum) and issubclass(t, str) and not f.allow_none:
                ty = ("enum", [m_.value for m_ in t])
                ok = isinstance(d, t)
            else:
                raise GenError("%s.%s: unsupported field type %r" % (m.__name__, name, f.outer_type_))
            if not ok:
                raise GenError("%s.%s: default %r does not fit the type" % (m.__name__, name, d))
            out.append((name, ty, d, t if isinstance(ty, tuple) else None))
        return out

    top = S.Settings
    ignore_extra(top)
    names = list(top.__fields__)
    if names != ["info", "protocols"]:
        raise GenError("Settings fields are %r, expected info/protocols" % names)
    for n in names:
        f = top.__fields__[n]
        if not is_model(f.type_) or f.default_factory is None or f.required:
            raise GenError("Settings.%s is not a sub-model with a default factory" % n)
    sections = [("info", leaf_fields(top.__fields__["info"].type_))]
    pm = top.__fields__["protocols"].type_
    ignore_extra(pm)
    for n, f in pm.__fields__.items():
        if not is_model(f.type_) or f.default_factory is None or f.required:
            raise GenError("ProtocolSettings.%s is not a sub-model with a default factory" % n)
        if n == "info":
            raise GenError("section name clash")
        sections.append((n, leaf_fields(f.type_)))
    secs = dict(sections)
    for p in PROTOS:
        if p not in secs:
            raise GenError("protocol section %s missing" % p)
        fl = {x[0]: x for x in secs[p]}
        for k in ("identifier", "credentials"):
            if k not in fl or fl[k][1] != "optstr" or fl[k][2] is not None:
                raise GenError("%s.%s must be Optional[str] = None" % (p, k))
        if "password" in fl and (fl["password"][1] != "optstr" or fl["password"][2] is not None):
            raise GenError("%s.password must be Optional[str] = None" % p)
    return sections


def cstr_lit(s):
    return "[" + ";".join(str(ord(c)) for c in s) + "]%N"


def cname(s):
    if not all(32 <= ord(c) < 127 for c in s):
        raise GenError("non-ASCII name %r" % s)
    return '"' + s.replace('"', '""') + '"'


def cval_lit(v):
    if v is None:
        return "VNone"
    if isinstance(v, enum.Enum):
        v = v.value
    if isinstance(v, str):
        return "(VStr %s)" % cstr_lit(v)
    if isinstance(v, int) and not isinstance(v, bool):
        return "(VInt (%d)%%Z)" % v
    raise GenError("value %r has no model counterpart" % (v,))


def gen(ctx):
    sections = read_schema()
    lines = ["(* GENERATED on every run by harness/c14.py gen() from pyatv/settings.py of the tree under test - do not edit *)",
             "From Coq Require Import List NArith ZArith String.",
             "From PV Require Import C14.Model.",
             "Import ListNotations.", "Open Scope string_scope.", "",
             "Definition schema : schema := ["]
    secl = []
    for sname, fields in sections:
        fl = []
        for name, ty, d, _cls in fields:
            cty = {"optstr": "TOptStr", "str": "TStr", "int": "TInt"}.get(ty) if not isinstance(ty, tuple) else \
                "(TEnum [%s])" % "; ".join(cstr_lit(x) for x in ty[1])
            fl.append("    {| fname := %s; ftype := %s; fdefault := %s |}" % (cname(name), cty, cval_lit(d)))
        secl.append("  (%s, [\n%s])" % (cname(sname), ";\n".join(fl)))
    lines.append(";\n".join(secl))
    lines.append("].")
    # a protocol whose settings class declares no `password` (witness of the known finding
    # C14:roundtrip:undeclared-key-dropped); None when every class declares one
    secs = dict(sections)
    und = [p for p in PROTOS if not any(f[0] == "password" for f in secs[p])]
    lines.append("")
    lines.append("Definition undeclared_pw : option proto := %s." % ("Some " + CPROTO[und[0]] if und else "None"))
    txt = "\n".join(lines) + "\n"
    path = os.path.join(common.COQ, "C14", "Gen.v")
    old = open(path).read() if os.path.exists(path) else None
    if old != txt:
        with open(path, "w") as f:
            f.write(txt)
    ctx.extra["generated"] = {"coq/C14/Gen.v": hashlib.sha256(txt.encode()).hexdigest(),
                              "sections": {s: [f[0] for f in fl] for s, fl in sections}}
    return sections


# --------------------------------------------------------------------------- driving the real storage

class Driver:
    def __init__(self, sections):
        self.sections = sections
        self.ftypes = {(s, f[0]): f for s, fl in sections for f in fl}
        self.loop = asyncio.new_event_loop()
        self.root = tempfile.mkdtemp(prefix="c14-", dir=common.BUILD)
        self.n = 0

    def close(self):
        try:
            self.loop.run_until_complete(self.loop.shutdown_default_executor())
        except Exception:
            pass
        self.loop.close()
        shutil.rmtree(self.root, ignore_errors=True)

    def run(self, coro):
        return self.loop.run_until_complete(coro)

    def new_file(self):
        self.n += 1
        return os.path.join(self.root, "s%d.conf" % self.n)

    def storage(self, kind, path):
        if kind == "memory":
            from pyatv.storage.memory_storage import MemoryStorage
            return MemoryStorage()
        from pyatv.storage.file_storage import FileStorage
        return FileStorage(path, self.loop)

    def config(self, cfg, addr="10.0.0.1", name="dev"):
        from pyatv.conf import AppleTV, ManualService
        from pyatv.const import Protocol
        pm = {"airplay": Protocol.AirPlay, "companion": Protocol.Companion, "dmap": Protocol.DMAP,
              "mrp": Protocol.MRP, "raop": Protocol.RAOP}
        c = AppleTV(IPv4Address(addr), name)
        for s in cfg:
            c.add_service(ManualService(s["id"], pm[s["p"]], 7000, {}, credentials=s["cr"], password=s["pw"],
                                        enabled=s.get("en", True)))
        return c

    def sub(self, obj, sec):
        return obj.info if sec == "info" else getattr(obj.protocols, sec)

    def pyval(self, sec, key, v):
        f = self.ftypes.get((sec, key))
        if f is not None and f[3] is not None and isinstance(v, str):
            return f[3](v)
        return v

    def content(self, obj):
        """Canonical content of a Settings object: [(section, [(key, value)])] in attribute order."""
        out = []
        for sec, _ in self.sections:
            out.append((sec, [(k, canon(v)) for k, v in dict(self.sub(obj, sec)).items()]))
        return out


class Spy:
    """What pyatv.scan / connect / pair get as `storage`: the real storage, with every get_settings
    call (configuration object -> returned settings object) noted."""

    def __init__(self, real):
        self.real = real
        self.calls = []

    async def get_settings(self, config):
        before = list(self.real.settings)
        obj = await self.real.get_settings(config)
        self.calls.append((config, obj, before))
        return obj

    def __getattr__(self, name):
        return getattr(self.real, name)


class Glue:
    """Replaces, inside the pyatv package namespace, what would touch the network: the four scanner
    classes (their discover() returns prepared configurations), the facade and the protocol table
    used by connect()/pair().  Everything between - the filtering, get_settings, apply - is real."""

    def __init__(self, discovered=None):
        self.discovered = discovered or []
        self.facades = []
        self.cores = []

    def __enter__(self):
        import pyatv
        glue = self

        class FakeScanner:
            def __init__(self, *a, **kw):
                pass

            def add_service_info(self, *a, **kw):
                pass

            def add_service(self, *a, **kw):
                pass

            async def discover(self, timeout):
                return {c.address: c for c in glue.discovered}

        class FakeFacade:
            def __init__(self, config, session_manager, core_dispatcher, settings):
                self.config, self.settings = config, settings
                glue.facades.append(self)

            def add_protocol(self, setup_data):
                pass

            async def connect(self):
                pass

            def close(self):
                return set()

            def takeover(self, *a, **kw):
                pass

        class FakeMethods:
            @staticmethod
            def setup(core):
                return []

            @staticmethod
            def pair(core, **kw):
                glue.cores.append(core)
                return core

        self.saved = {n: getattr(pyatv, n) for n in (
            "MulticastMdnsScanner", "UnicastMdnsScanner", "ZeroconfMulticastScanner", "ZeroconfUnicastScanner",
            "FacadeAppleTV", "PROTOCOLS")}
        self.real_protocols = pyatv.PROTOCOLS
        for n in ("MulticastMdnsScanner", "UnicastMdnsScanner", "ZeroconfMulticastScanner", "ZeroconfUnicastScanner"):
            setattr(pyatv, n, FakeScanner)
        self.fake_methods = FakeMethods
        self.fake_facade = FakeFacade
        return self

    def for_connect(self):
        import pyatv
        pyatv.FacadeAppleTV = self.fake_facade
        pyatv.PROTOCOLS = {p: self.fake_methods for p in self.real_protocols}

    def __exit__(self, *a):
        import pyatv
        for n, v in self.saved.items():
            setattr(pyatv, n, v)
        return False


class _Session:
    """stands in for the aiohttp session handed to connect()/pair(); never used"""

    async def close(self):
        pass


class Fault:
    """Makes one kind of file-system call fail while the real save()/load() runs (from outside:
    builtins.open / io.open / os.replace / os.rename are substituted for paths under `root`)."""

    def __init__(self, root, how):
        self.root = os.path.realpath(root) + os.sep
        self.how = how          # open | write | replace | read | corrupt
        self.hit = 0

    def mine(self, p):
        try:
            return os.path.realpath(os.fspath(p)).startswith(self.root)
        except TypeError:
            return False

    def _open(self, file, mode="r", *a, **kw):
        writing = any(c in mode for c in "wax+")
        if self.mine(file):
            if writing and self.how == "open":
                self.hit += 1
                raise PermissionError(13, "injected: cannot open for writing", os.fspath(file))
            if writing and self.how == "write":
                fh = self.real_open(file, mode, *a, **kw)
                outer = self

                class W:
                    def write(self_, data):
                        outer.hit += 1
                        raise OSError(28, "injected: no space left on device")

                    def __getattr__(self_, n):
                        return getattr(fh, n)

                    def __enter__(self_):
                        return self_

                    def __exit__(self_, *e):
                        fh.close()
                        return False
                return W()
            if not writing and self.how == "read":
                self.hit += 1
                raise OSError(5, "injected: input/output error", os.fspath(file))
            if not writing and self.how == "corrupt":
                self.hit += 1
                import io as _io
                return _io.StringIO("{\"version\": 1, \"devi")
        return self.real_open(file, mode, *a, **kw)

    def _replace(self, src, dst, **kw):
        if self.how == "replace" and (self.mine(src) or self.mine(dst)):
            self.hit += 1
            raise OSError(18, "injected: rename failed", os.fspath(src))
        return self.real_replace(src, dst, **kw)

    def __enter__(self):
        import builtins
        import io
        self.real_open, self.real_io_open = builtins.open, io.open
        self.real_replace, self.real_rename = os.replace, os.rename
        builtins.open = self._open
        io.open = self._open
        os.replace = self._replace
        os.rename = self._replace
        return self

    def __exit__(self, *a):
        import builtins
        import io
        builtins.open, io.open = self.real_open, self.real_io_open
        os.replace, os.rename = self.real_replace, self.real_rename
        return False


def canon(v):
    if isinstance(v, enum.Enum):
        v = v.value
    if v is None or isinstance(v, str) or (isinstance(v, int) and not isinstance(v, bool)):
        return v
    raise ValueError("value %r has no model counterpart" % (v,))


def file_content(path):
    """(version, [device dumps flattened to sections]) of the storage file, None if absent."""
    if path is None or not os.path.exists(path):
        return None
    with open(path, "r", encoding="utf-8") as fh:
        d = json.load(fh)
    devs = []
    for dev in d["devices"]:
        secs = []
        for k, v in dev.items():
            if k == "info":
                secs.append(("info", [(a, canon(b)) for a, b in v.items()]))
            elif k == "protocols":
                for p, pv in v.items():
                    secs.append((p, [(a, canon(b)) for a, b in pv.items()]))
        devs.append(secs)
    return (d["version"], devs)


def write_file(path, fc):
    """Write a storage file from (version, devices) in the canonical form above."""
    ver, devs = fc
    out = []
    for secs in devs:
        dev = {}
        for s, kv in secs:
            if s == "info":
                dev["info"] = dict(kv)
            else:
                dev.setdefault("protocols", {})[s] = dict(kv)
        out.append(dev)
    with open(path, "w", encoding="utf-8") as fh:
        fh.write(json.dumps({"version": ver, "devices": out}) + "\n")


def rec_ids(content):
    d = dict(content)
    return [dict(d[p]).get("identifier") for p in PROTOS if p in d and dict(d[p]).get("identifier") is not None]


class Hist:
    """One history executed on the real storage, with the oracle applied along the way."""

    def __init__(self, drv, kind, init_file):
        self.drv = drv
        self.kind = kind
        self.init_file = init_file
        self.path = drv.new_file() if kind == "file" else None
        if kind == "file" and init_file is not None:
            write_file(self.path, init_file)
        # re-read: the canonical form of what is really on disk
        self.init_canon = file_content(self.path)
        self.st = drv.storage(kind, self.path)
        self.handles = []           # every Settings object seen, in creation order
        self.ops = []               # the history in the model's operations
        self.rops = []              # the history as executed (replayable): glue calls appear as themselves
        self.ties = []
        self.obs = []
        self.errors = []            # (key, what)
        self.last = []              # contents at the last save/load (oracle for `changed`)
        self.insync = (kind == "memory") or self.init_canon is None
        self.flags = set()
        self.failed_save = False    # a save() failed since the last successful save/load
        self.owned = {}             # oracle: id(settings object) -> {protocol: identifier the device has NOW}

    # ---- bookkeeping
    def handle_of(self, obj):
        for i, o in enumerate(self.handles):
            if o is obj:
                return i
        return None

    def learn(self, extra=None):
        for o in list(self.st.settings) + ([extra] if extra is not None else []):
            if self.handle_of(o) is None:
                self.handles.append(o)
                # first sight (created, or read from the file): the identifiers it carries are the device's
                cont = dict(self.drv.content(o))
                self.owned[id(o)] = {p: dict(cont.get(p, [])).get("identifier") for p in PROTOS}

    def contents(self):
        return [self.drv.content(o) for o in self.st.settings]

    def err(self, key, what):
        self.errors.append((key, what))

    # ---- the oracle: the property text on the implementation's behaviour
    def judge_lookup(self, cfg, conf, obj, before):
        ids = [s["id"] for s in cfg if s["id"] is not None]
        was_known = any(o is obj for o in before)
        mine = rec_ids(self.drv.content(obj))
        if not any(o is obj for o in self.st.settings):
            self.err("C14:lookup:returned-object-not-stored", "get_settings returned an object that is not in the storage")
        if was_known:
            if not set(mine) & set(ids):
                self.err("C14:lookup:disjoint-device", "get_settings returned the settings of a device with disjoint identifiers")
            now = {v for v in self.owned.get(id(obj), {}).values() if v is not None}
            if id(obj) in self.owned and not now & set(ids):
                self.err("C14:lookup:disjoint-device", "get_settings returned the settings of a device through an identifier that device "
                         "no longer has (it was cleared by update_settings or by assignment)")
        else:
            self.owned[id(obj)] = dict({p: None for p in PROTOS}, **{s["p"]: s["id"] for s in cfg})
            if not set(mine) <= set(ids):
                self.err("C14:lookup:new-record-foreign-identifier", "newly created settings carry an identifier the configuration does not have")
        # same object again for the same configuration, storage untouched
        n = len(self.st.settings)
        again = self.drv.run(self.st.get_settings(conf))
        if again is not obj or len(self.st.settings) != n:
            self.err("C14:lookup:unstable-identity", "a second get_settings for the same configuration returned a different object")
        # ... and for any configuration that shares an identifier with the stored record, unless another
        # stored record shares one with that configuration as well (then the text does not say which)
        for i in mine:
            owners = [o for o in self.st.settings if i in rec_ids(self.drv.content(o))]
            if len(owners) != 1:
                self.flags.add("ambiguous-identifier")
                continue
            for p in ("mrp", "companion"):
                probe = self.drv.config([{"p": p, "id": i, "cr": None, "pw": None}])
                got = self.drv.run(self.st.get_settings(probe))
                if got is not obj:
                    self.err("C14:lookup:unstable-identity", "a configuration sharing identifier %r got a different settings object" % i)
        # a record that was just created belongs to the device the configuration describes: no stored
        # record shared any identifier with the configuration (else it would have been returned), so a
        # configuration carrying any ONE of its identifiers - whichever service, enabled or not, it came
        # from - must get this very object and create nothing
        if not was_known:
            for i in sorted(set(ids)):
                if len([o for o in self.st.settings if i in rec_ids(self.drv.content(o))]) != 1:
                    self.flags.add("ambiguous-identifier")
                    continue
                for p, en in (("raop", True), ("dmap", False)):
                    n = len(self.st.settings)
                    probe = self.drv.config([{"p": p, "id": i, "cr": None, "pw": None, "en": en}])
                    got = self.drv.run(self.st.get_settings(probe))
                    if got is not obj or len(self.st.settings) != n:
                        self.err("C14:lookup:created-record-not-found-by-own-identifier",
                                 "settings created for a configuration are not returned for a configuration sharing its identifier %r" % i)

    def judge_apply(self, cfg, conf, obj):
        cont = dict(self.drv.content(obj))
        for s, svc in zip(cfg, conf.services):
            sec = dict(cont.get(s["p"], []))
            for attr, key, orig in (("credentials", "credentials", s["cr"]), ("password", "password", s["pw"])):
                got = getattr(svc, attr)
                stored = sec.get(key)
                if got != orig and got != stored:
                    self.err("C14:apply:foreign-credentials", "%s applied to the %s service comes neither from the configuration nor from its own settings" % (attr, s["p"]))
                elif isinstance(stored, str) and stored and got != stored:
                    self.err("C14:apply:stored-credentials-not-applied", "%s stored for the %s service of this device is not what the configuration ends up with" % (attr, s["p"]))

    def judge_changed(self):
        want = self.contents() != self.last
        got = self.st.changed
        if got != want:
            if self.failed_save:
                self.err("C14:changed:wrong-after-failed-save",
                         "after a save() that failed, changed is %s although the content %s what was last saved or loaded"
                         % (got, "differs from" if want else "equals"))
            else:
                self.err("C14:changed:wrong", "changed is %s although the content %s what was last saved or loaded" % (got, "differs from" if want else "equals"))

    def judge_roundtrip(self):
        if self.kind != "file" or not self.insync:
            return
        s2 = self.drv.storage("file", self.path)
        try:
            self.drv.run(s2.load())
        except Exception as ex:
            self.err("C14:roundtrip:load-raises", "load() of the saved file raised %s" % type(ex).__name__)
            return
        a = [self.drv.content(o) for o in s2.settings]
        b = self.contents()
        if a != b:
            declared = {(s, f[0]) for s, fl in self.drv.sections for f in fl}
            only_extra = len(a) == len(b) and all(
                [(s, [(k, v) for k, v in kv if (s, k) in declared]) for s, kv in y] == x for x, y in zip(a, b))
            if self.failed_save and not only_extra:
                self.err("C14:roundtrip:lost-after-failed-save", "a save() failed, the retry reported success, but a fresh storage does not load what is stored")
            elif only_extra:
                self.err("C14:roundtrip:undeclared-key-dropped", "a value stored under a key the settings schema does not declare is written to the file but not read back")
            else:
                self.err("C14:roundtrip:content-differs", "settings read back after save() and load() differ from what was stored")

    # ---- operations
    def do(self, o):
        drv, st = self.drv, self.st
        k = o["op"]
        if self.kind == "memory":       # no I/O, so nothing can be made to fail
            k = {"savefault": "save", "loadfault": "load"}.get(k, k)
        obs = None
        try:
            if k in ("get", "scan", "update"):
                conf = drv.config(o["cfg"])
                before = list(st.settings)
                if k == "update":
                    touched = []
                    real_get = st.get_settings

                    async def noting(c):
                        r = await real_get(c)
                        touched.append(r)
                        return r
                    st.get_settings = noting
                    try:
                        drv.run(st.update_settings(conf))
                    finally:
                        del st.get_settings
                    obs = ("unit",)
                    if touched:
                        # update_settings writes the configuration back: the identifier recorded for every
                        # protocol the configuration has a service for is that service's identifier - None included
                        self.learn(touched[-1])
                        cont = dict(drv.content(touched[-1]))
                        own = self.owned.setdefault(id(touched[-1]), {p: None for p in PROTOS})
                        for sv in o["cfg"]:
                            own[sv["p"]] = sv["id"]
                            if dict(cont.get(sv["p"], [])).get("identifier") != sv["id"]:
                                self.err("C14:update:identifier-not-taken-over", "after update_settings the identifier stored for the %s "
                                         "service is not the one the configuration has (%r)" % (sv["p"], sv["id"]))
                else:
                    obj = drv.run(st.get_settings(conf))
                    self.learn(obj)
                    if k == "scan":
                        conf.apply(obj)
                        obs = ("applied", self.handle_of(obj),
                               [{"p": s["p"], "id": svc.identifier, "cr": svc.credentials, "pw": svc.password, "en": bool(svc.enabled)}
                                for s, svc in zip(o["cfg"], conf.services)])
                        self.judge_apply(o["cfg"], conf, obj)
                    else:
                        obs = ("handle", self.handle_of(obj))
                    self.judge_lookup(o["cfg"], conf, obj, before)
            elif k == "remove":
                obs = ("bool", bool(drv.run(st.remove_settings(self.handles[o["h"]]))))
            elif k == "set":
                setattr(drv.sub(self.handles[o["h"]], o["sec"]), o["key"], drv.pyval(o["sec"], o["key"], o["val"]))
                obs = ("unit",)
                if o["key"] == "identifier" and o["sec"] in PROTOS and id(self.handles[o["h"]]) in self.owned:
                    self.owned[id(self.handles[o["h"]])][o["sec"]] = o["val"]
            elif k in ("save", "savefault"):
                was_changed = st.changed
                differs = self.contents() != self.last
                if k == "savefault":
                    with Fault(drv.root, o["at"]) as flt:
                        try:
                            drv.run(st.save())
                        finally:
                            self.flags.add("save-fault-hit" if flt.hit else "save-fault-not-reached")
                            if flt.hit or differs:
                                self.failed_save = True
                    # (reached only when save() did not raise: nothing to write, or the fault was swallowed)
                    obs = ("unit",)
                    if self.kind == "file" and flt.hit:
                        # save() reported success although the write failed: then what is stored must be
                        # what a fresh storage loads
                        self.flags.add("save-fault-swallowed")
                        if was_changed:
                            self.insync = True
                        self.judge_roundtrip()
                else:
                    try:
                        drv.run(st.save())
                    except Exception as ex:
                        # nothing was made to fail: what is stored cannot be read back because it was never written
                        self.err("C14:roundtrip:save-raises", "save() raised %s although no file-system call failed; the stored settings "
                                 "cannot be read back" % type(ex).__name__)
                        raise
                    obs = ("unit",)
                    if self.kind == "memory" or was_changed:
                        self.last = self.contents()
                        self.insync = True
                    self.judge_roundtrip()
                    self.failed_save = False
            elif k in ("load", "loadfault"):
                existed = self.kind == "file" and os.path.exists(self.path)
                if k == "loadfault":
                    with Fault(drv.root, o["how"]):
                        drv.run(st.load())
                else:
                    drv.run(st.load())
                obs = ("unit",)
                if existed:
                    self.last = self.contents()
                    self.insync = True
                    self.failed_save = False
            elif k == "fresh":
                self.st = drv.storage(self.kind, self.path)
                self.failed_save = False
                self.last = []
                self.insync = (self.kind == "memory") or not os.path.exists(self.path)
                obs = ("unit",)
            elif k == "changed":
                obs = ("bool", bool(st.changed))
            elif k in ("pyscan", "pyconnect", "pypair"):
                self.glue(o)
                self.rops.append(o)
                self.judge_changed()
                return
            else:
                raise ValueError(k)
        except Exception as ex:
            name = type(ex).__name__
            if isinstance(ex, OSError) or name == "JSONDecodeError":
                name = "Fault"
            obs = ("raise", name)
        self.learn()
        self.ops.append(o)
        self.rops.append(o)
        self.obs.append(obs)
        self.judge_changed()

    # ---- the glue: pyatv.scan / connect / pair with this storage (no network)
    def glue(self, o):
        """Runs the real pyatv.scan / connect / pair; what they do to the storage and to the
        configurations is entered into the history as the equivalent get / scan operations."""
        import pyatv
        from pyatv.const import Protocol
        drv = self.drv
        pm = {"airplay": Protocol.AirPlay, "companion": Protocol.Companion, "dmap": Protocol.DMAP,
              "mrp": Protocol.MRP, "raop": Protocol.RAOP}
        spy = Spy(self.st)
        before = list(self.st.settings)
        k = o["op"]
        if k == "pyscan":
            cfgs = o["devices"]
            confs = [drv.config(c, "10.0.1.%d" % (i + 1), "dev%d" % i) for i, c in enumerate(cfgs)]
            flt = o.get("identifier")
            arg = set(flt) if isinstance(flt, list) else flt
            # BaseConfig.ready: some service has a (non-empty) identifier
            wanted = [i for i, c in enumerate(cfgs)
                      if any(s["id"] for s in c)
                      and (not flt or set(flt if isinstance(flt, list) else [flt]) & {s["id"] for s in c if s["id"] is not None})]
            with Glue(confs):
                res = drv.run(pyatv.scan(drv.loop, timeout=0, identifier=arg, storage=spy,
                                         hosts=["10.0.1.1"] if o.get("unicast") else None))
            self.learn()
            got = []
            for r in res:
                idx = [i for i, c in enumerate(confs) if c is r]
                got.append(idx[0] if idx else None)
            if got != wanted:
                self.ties.append({"what": "pyatv.scan returned other configurations than the ready / matching ones",
                                  "returned": got, "expected": wanted})
            for i, (c, conf) in enumerate(zip(cfgs, confs)):
                if i in got:
                    self.enter_applied(c, conf, conf, spy, before)
                else:
                    for s, svc in zip(c, conf.services):     # a dropped device must not be touched either
                        if svc.credentials != s["cr"] or svc.password != s["pw"]:
                            self.err("C14:apply:foreign-credentials", "scan() changed the credentials of a configuration it does not return")
        elif k == "pyconnect":
            conf = drv.config(o["cfg"])
            with Glue() as g:
                g.for_connect()
                try:
                    drv.run(pyatv.connect(conf, drv.loop, session=_Session(), storage=spy))
                except Exception as ex:
                    self.enter({"op": "scan", "cfg": o["cfg"]}, ("raise", type(ex).__name__))
                    return
            self.learn()
            for s, svc in zip(o["cfg"], conf.services):
                if svc.credentials != s["cr"] or svc.password != s["pw"]:
                    self.err("C14:apply:foreign-credentials", "connect() changed the caller's configuration")
            self.enter_applied(o["cfg"], conf, g.facades[-1].config if g.facades else conf, spy, before)
        else:
            conf = drv.config(o["cfg"])
            with Glue() as g:
                g.for_connect()
                try:
                    drv.run(pyatv.pair(conf, pm[o["proto"]], drv.loop, session=_Session(), storage=spy))
                except Exception as ex:
                    self.enter({"op": "get", "cfg": o["cfg"]}, ("raise", type(ex).__name__))
                    return
            self.learn()
            obj = [x for (c, x, _b) in spy.calls if c is conf]
            used = g.cores[-1].settings if g.cores else None
            if not obj or used is not obj[-1]:
                self.err("C14:lookup:pair-uses-other-settings", "pair() hands the protocol a settings object other than the one stored for the configuration")
            self.learn(used)
            self.enter({"op": "get", "cfg": o["cfg"]}, ("handle", self.handle_of(used)))
            if obj:
                self.judge_lookup(o["cfg"], conf, obj[-1], [b for (c, _x, b) in spy.calls if c is conf][-1])

    def enter(self, op, obs):
        self.ops.append(op)
        self.obs.append(obs)

    def enter_applied(self, cfg, conf, applied, spy, before):
        """`conf` was resolved through get_settings and the result applied to `applied`."""
        obj = [(x, b) for (c, x, b) in spy.calls if c is conf]
        if not obj:
            self.ties.append({"what": "no get_settings call seen for a configuration that was returned"})
            return
        obj, before = obj[-1]
        self.enter({"op": "scan", "cfg": cfg},
                   ("applied", self.handle_of(obj),
                    [{"p": s["p"], "id": svc.identifier, "cr": svc.credentials, "pw": svc.password, "en": bool(svc.enabled)}
                     for s, svc in zip(cfg, applied.services)]))
        self.judge_apply(cfg, applied, obj)
        self.judge_lookup(cfg, conf, obj, before)

    def snapshot(self):
        return {"handles": [self.handle_of(o) for o in self.st.settings],
                "heap": [self.drv.content(o) for o in self.handles],
                "changed": bool(self.st.changed),
                "file": file_content(self.path)}


# --------------------------------------------------------------------------- generators

IDS = ["A", "B", "C", "D", "", "å", "K\udcf6k"]
TEXT = [None, "", "c1", "c2", "ü✓", "\U0001f600x", "pw \"q\"", "0"]
# every str Python can hold is a legitimate value: lone surrogates (what os.fsdecode / surrogateescape produce
# for undecodable bytes), unpaired high / low surrogates, NUL, line/paragraph separators, U+FFFF, non-BMP, ...
ODD_TEXT = ["K\udcf6k", "\ud800", "\udfff", "\ud83d", "a\ude00", "\x00", "x\x00y", "\u2028\u2029", "\uffff", "\ufeffbom",
            "\U0010ffff", "\x7f\x1b[0m", "\\u0041 \\", "\r\n\t", "e\u0301"]


def rand_cfg(rng, sections, allow_extra_pw=False):
    has_pw = {s for s, fl in sections if any(f[0] == "password" for f in fl)}
    ps = rng.sample(PROTOS, rng.choice([1, 1, 2, 2, 3]))
    out = []
    for p in ps:
        i = rng.choice(IDS) if rng.random() < 0.85 else None
        cr = rng.choice(TEXT + ODD_TEXT[:4]) if rng.random() < 0.6 else None
        pw = None
        if (p in has_pw or allow_extra_pw) and rng.random() < 0.3:
            pw = rng.choice(TEXT + ODD_TEXT[:4])
        out.append({"p": p, "id": i, "cr": cr, "pw": pw, "en": rng.random() >= 0.2})
    return out


def candidates(f):
    """Every value the generators assign to a field of this kind (all fit type and validator)."""
    ty = f[1]
    if f[0] == "mac":
        return ["02:70:79:61:74:76", "AA:bb:0c:1D:2e:3F", "00:00:00:00:00:00", "FF:FF:FF:FF:FF:FF", "aa:bb:cc:dd:ee:0f"]
    if ty == "optstr":
        return TEXT + ["X7", "Ab Cd", " lead", "trail ", "UPPER", "line\nbreak"] + IDS + ODD_TEXT
    if ty == "str":
        return [t for t in TEXT if t is not None] + [f[2], "日本", "Ab Cd", "UPPER:lower", " x "] + ODD_TEXT
    if ty == "int":
        return [0, 1, -1, 7000, 65535, 2 ** 40, -2 ** 40, f[2]]
    return list(ty[1])


def rand_val(rng, f):
    return rng.choice(candidates(f))


def rand_op(rng, sections, nh, extra_pw):
    r = rng.random()
    if r < 0.24:
        return {"op": "get", "cfg": rand_cfg(rng, sections, extra_pw)}
    if r < 0.38:
        return {"op": "scan", "cfg": rand_cfg(rng, sections, extra_pw)}
    if r < 0.50:
        return {"op": "update", "cfg": rand_cfg(rng, sections, extra_pw)}
    if r < 0.66 and nh:
        sec, fl = rng.choice(sections)
        f = rng.choice(fl)
        if rng.random() < 0.5:      # credentials are what matters most
            sec = rng.choice(PROTOS)
            f = [x for x in dict(sections)[sec] if x[0] == "credentials"][0]
        if rng.random() < 0.04:
            return {"op": "set", "h": rng.randrange(nh), "sec": sec, "key": "nosuchfield", "val": "x"}
        return {"op": "set", "h": rng.randrange(nh), "sec": sec, "key": f[0], "val": rand_val(rng, f)}
    if r < 0.74 and nh:
        return {"op": "remove", "h": rng.randrange(nh)}
    if r < 0.80:
        return {"op": "save"}
    if r < 0.85:
        return {"op": "savefault", "at": rng.choice(["open", "write", "replace"])}
    if r < 0.89:
        return {"op": "load"}
    if r < 0.905:
        return {"op": "loadfault", "how": rng.choice(["read", "corrupt"])}
    if r < 0.935:
        devs = [rand_cfg(rng, sections, extra_pw) for _ in range(rng.randrange(1, 5))]
        flt = rng.choice([None, None, rng.choice(IDS[:4]), [rng.choice(IDS[:4]), rng.choice(IDS[:4])]])
        return {"op": "pyscan", "devices": devs, "identifier": flt, "unicast": rng.random() < 0.3}
    if r < 0.95:
        return {"op": "pyconnect", "cfg": rand_cfg(rng, sections, extra_pw)}
    if r < 0.965:
        c = rand_cfg(rng, sections, extra_pw)
        return {"op": "pypair", "cfg": c, "proto": rng.choice(c)["p"]}
    if r < 0.93:
        return {"op": "fresh"}
    return {"op": "changed"}


def rand_init_file(rng, sections):
    r = rng.random()
    if r < 0.6:
        return None
    devs = []
    for _ in range(rng.randrange(0, 3)):
        secs = []
        for p in rng.sample(PROTOS, rng.randrange(1, 3)):
            kv = [("identifier", rng.choice(IDS))]
            if rng.random() < 0.7:
                kv.append(("credentials", rng.choice(TEXT)))
            if rng.random() < 0.2:
                kv.append(("unknown_key", "zz"))
            secs.append((p, kv))
        if rng.random() < 0.3:
            secs.insert(0, ("info", [("name", rng.choice(["pyatv", "n", "日本"]))]))
        devs.append(secs)
    return (1 if rng.random() < 0.9 else 2, devs)


# --------------------------------------------------------------------------- Coq terms

class Terms:
    def __init__(self):
        self.tab = {}

    def s(self, x):
        if x not in self.tab:
            self.tab[x] = "s%d" % len(self.tab)
        return self.tab[x]

    def defs(self):
        return "\n".join("Definition %s : str := %s." % (n, cstr_lit(x)) for x, n in self.tab.items())

    def val(self, v):
        if v is None:
            return "VNone"
        if isinstance(v, str):
            return "(VStr %s)" % self.s(v)
        return "(VInt (%d)%%Z)" % v

    def ostr(self, v):
        return "None" if v is None else "(Some %s)" % self.s(v)

    def cfg(self, c):
        return "[" + "; ".join("{| sproto := %s; sid := %s; screds := %s; spw := %s; senabled := %s |}" % (
            CPROTO[s["p"]], self.ostr(s["id"]), self.ostr(s["cr"]), self.ostr(s["pw"]), common.cbool(s.get("en", True))) for s in c) + "]"

    def rec(self, r):
        return "[" + "; ".join("(%s, [%s])" % (cname(s), "; ".join("(%s, %s)" % (cname(k), self.val(v)) for k, v in kv)) for s, kv in r) + "]"

    def file(self, f):
        if f is None:
            return "None"
        return "(Some ((%d)%%Z, [%s]))" % (f[0], "; ".join(self.rec(d) for d in f[1]))

    def op(self, o):
        k = o["op"]
        if k == "get":
            return "Get " + self.cfg(o["cfg"])
        if k == "scan":
            return "Scan " + self.cfg(o["cfg"])
        if k == "update":
            return "Update " + self.cfg(o["cfg"])
        if k == "remove":
            return "Remove %d" % o["h"]
        if k == "set":
            return "SetF %d %s %s %s" % (o["h"], cname(o["sec"]), cname(o["key"]), self.val(o["val"]))
        return {"save": "Save", "load": "Load", "fresh": "Fresh", "changed": "Changed",
                "savefault": "SaveFault", "loadfault": "LoadFault"}[k]

    def obs(self, x):
        if x[0] == "handle":
            return "OHandle %d" % x[1]
        if x[0] == "unit":
            return "OUnit"
        if x[0] == "bool":
            return "OBool %s" % common.cbool(x[1])
        if x[0] == "applied":
            return "OApplied %d %s" % (x[1], self.cfg(x[2]))
        if x[0] == "raise":
            e = {"DeviceIdMissingError": "DeviceIdMissing", "SettingsError": "SettingsError", "ValueError": "ValueError",
                 "Fault": "Fault"}.get(x[1])
            if e is None:
                raise KeyError(x[1])
            return "ORaise " + e
        raise KeyError(x)

    def case(self, h, snap):
        return "(%s, %s, [%s], ([%s], [%s], [%s], %s, %s))" % (
            "File" if h.kind == "file" else "Memory", self.file(h.init_canon),
            "; ".join(self.op(o) for o in h.ops), "; ".join(self.obs(x) for x in h.obs),
            "; ".join(str(x) for x in snap["handles"]), "; ".join(self.rec(r) for r in snap["heap"]),
            common.cbool(snap["changed"]), self.file(snap["file"]))


# --------------------------------------------------------------------------- run

def exec_history(drv, kind, init_file, ops):
    h = Hist(drv, kind, init_file)
    for o in ops:
        if "h" in o and not h.handles:
            o = {"op": "changed"}
        elif "h" in o:
            o = dict(o, h=o["h"] % len(h.handles))
        h.do(o)
    return h


def shrink(drv, kind, init, ops, key):
    """Greedy minimisation of a failing history: drop the initial file, then single operations,
    then single services, as long as the same class of failure remains."""
    global SHRINK_SPENT
    t0 = time.time()

    def fails(i, o):
        # bounded: 20 s per failing class, 90 s per run
        if time.time() - t0 > 20 or SHRINK_SPENT + (time.time() - t0) > 90:
            return False
        try:
            return any(k == key for k, _ in exec_history(drv, kind, i, o).errors)
        except Exception:
            return False
    ops = [dict(o) for o in ops]
    if init is not None and fails(None, ops):
        init = None
    progress = True
    while progress:
        progress = False
        for i in range(len(ops) - 1, -1, -1):
            cand = ops[:i] + ops[i + 1:]
            if cand and fails(init, cand):
                ops = cand
                progress = True
        for i, o in enumerate(ops):
            if "devices" in o and len(o["devices"]) > 1:
                for j in range(len(o["devices"])):
                    cand = ops[:i] + [dict(o, devices=o["devices"][:j] + o["devices"][j + 1:])] + ops[i + 1:]
                    if fails(init, cand):
                        ops = cand
                        progress = True
                        break
        for i, o in enumerate(ops):
            if "cfg" in o and len(o["cfg"]) > 1:
                for j in range(len(o["cfg"])):
                    cand = ops[:i] + [dict(o, cfg=o["cfg"][:j] + o["cfg"][j + 1:])] + ops[i + 1:]
                    if fails(init, cand):
                        ops = cand
                        progress = True
                        break
    SHRINK_SPENT += time.time() - t0
    return {"kind": kind, "initial_file": list_file(init), "ops": ops}


SHRINK_SPENT = 0.0


def small_alphabet():
    a = {"p": "mrp", "id": "A", "cr": "c1", "pw": None}
    b = {"p": "airplay", "id": "B", "cr": None, "pw": "pw", "en": False}
    b2 = {"p": "airplay", "id": "B", "cr": "c2", "pw": None}
    return [
        {"op": "get", "cfg": [a]}, {"op": "get", "cfg": [a, b]}, {"op": "scan", "cfg": [b2]},
        {"op": "get", "cfg": [{"p": "mrp", "id": "B", "cr": None, "pw": None}]},
        {"op": "update", "cfg": [a, b2]},
        {"op": "remove", "h": 0}, {"op": "remove", "h": 1},
        {"op": "set", "h": 0, "sec": "mrp", "key": "credentials", "val": "c9"},
        {"op": "set", "h": 0, "sec": "mrp", "key": "credentials", "val": "c1"},
        {"op": "save"}, {"op": "load"}, {"op": "fresh"}, {"op": "savefault", "at": "replace"},
    ]


def histories(ctx, sections):
    rng = ctx.rng
    # corpus first
    for fname, c in common.load_corpus(ctx.pid):
        yield ("corpus:" + fname, c["kind"], tuple_file(c.get("initial_file")), c["ops"])
    # exhaustive over a small alphabet
    alpha = small_alphabet()
    depth = 3 if not ctx.thorough else 4
    for n in range(1, depth + 1):
        for seq in itertools.product(range(len(alpha)), repeat=n):
            yield ("small", "file", None, [alpha[i] for i in seq])
    ctx.extra["small_alphabet_exhaustive_depth"] = depth
    # a failed save, then retries and loads into fresh storages
    a = {"p": "mrp", "id": "A", "cr": "c1", "pw": None}
    b = {"p": "raop", "id": "B", "cr": "ü✓", "pw": "pw"}
    setc = {"op": "set", "h": 0, "sec": "mrp", "key": "credentials", "val": "c9"}
    for at in ("open", "write", "replace"):
        f = {"op": "savefault", "at": at}
        for pre in ([], [{"op": "get", "cfg": [b]}, {"op": "save"}]):
            yield ("failed-save", "file", None, pre + [{"op": "get", "cfg": [a]}, f, {"op": "changed"}, {"op": "save"}, {"op": "fresh"}, {"op": "load"}, {"op": "scan", "cfg": [a]}])
            yield ("failed-save", "file", None, pre + [{"op": "get", "cfg": [a]}, {"op": "save"}, setc, f, f, {"op": "changed"}, {"op": "fresh"}, {"op": "load"}, {"op": "changed"}])
            yield ("failed-save", "file", None, pre + [{"op": "get", "cfg": [a]}, f, {"op": "remove", "h": 0}, {"op": "changed"}, f, {"op": "save"}])
            yield ("failed-save", "file", None, pre + [{"op": "get", "cfg": [a]}, {"op": "save"}, setc, f, {"op": "load"}, {"op": "changed"}, {"op": "save"}])
    # the glue: scan()/connect()/pair() against a storage holding per-device credentials; discovered
    # lists with devices that scan() drops (no identifier / excluded by identifier=) at every position
    def svc(p, i, cr=None, pw=None):
        return {"p": p, "id": i, "cr": cr, "pw": pw, "en": True}
    stored = {"A": [svc("mrp", "A"), svc("airplay", "A2")], "B": [svc("raop", "B"), svc("companion", "B2")], "C": [svc("dmap", "C")]}
    populate = []
    for n, (name, c) in enumerate(stored.items()):
        populate.append({"op": "get", "cfg": c})
        for sv in c:
            populate.append({"op": "set", "h": n, "sec": sv["p"], "key": "credentials", "val": "cred-%s-%s" % (name, sv["p"])})
            if sv["p"] in ("airplay", "raop"):
                populate.append({"op": "set", "h": n, "sec": sv["p"], "key": "password", "val": "pw-%s-%s" % (name, sv["p"])})
    seen_as = {"A": [svc("airplay", "A2"), svc("mrp", "A", cr="own-mrp")], "B": [svc("companion", "B2"), svc("raop", "B")], "C": [svc("dmap", "C")]}
    noid = [svc("mrp", None, cr="x")]
    unknown = [svc("mrp", "Z")]
    tail = [{"op": "pyconnect", "cfg": seen_as["A"]}, {"op": "pypair", "cfg": seen_as["B"], "proto": "raop"}, {"op": "changed"}]
    for kind, pre in (("memory", populate), ("file", populate + [{"op": "save"}, {"op": "fresh"}, {"op": "load"}])):
        for order in itertools.permutations("ABC"):
            base = [seen_as[x] for x in order]
            for pos in range(4):
                for drop, flt in ((noid, None), (unknown, ["A", "B2", "C"]), (noid, ["A2", "C"])):
                    devs = base[:pos] + [drop] + base[pos:]
                    yield ("glue", kind, None, pre + [{"op": "pyscan", "devices": devs, "identifier": flt, "unicast": pos % 2 == 1}] + tail)
            for flt in ("A", "B2", ["C", "A2"], "Z"):
                yield ("glue", kind, None, pre + [{"op": "pyscan", "devices": base + [unknown], "identifier": flt}] + tail)

    # update_settings with a configuration in which a protocol the device was stored with has lost its
    # identifier (None) or its service altogether; then an unrelated device turns up with the old identifier
    for p1, p2 in (("dmap", "mrp"), ("airplay", "raop"), ("companion", "airplay"), ("raop", "dmap")):
        first = [svc(p1, "X1", cr="cred-1"), svc(p2, "Y2", cr="cred-2")]
        other = [svc(p1, "X1")]
        for upd in ([svc(p1, None), svc(p2, "Y2")], [svc(p2, "Y2")], [svc(p1, None, cr="new"), svc(p2, "Y2", cr="new2")],
                    [svc(p1, "X9"), svc(p2, "Y2")]):
            for kind in ("memory", "file"):
                mid = [{"op": "save"}, {"op": "fresh"}, {"op": "load"}] if kind == "file" else []
                yield ("identifier-dropped", kind, None, [{"op": "get", "cfg": first}] + mid + [
                    {"op": "update", "cfg": upd}, {"op": "scan", "cfg": other}, {"op": "get", "cfg": [svc(p2, "Y2")]},
                    {"op": "changed"}, {"op": "save"}])

    # the zero-device boundary: devices come into the storage (looked up, or loaded from a file), all of
    # them are removed again, save, load into a fresh storage: nothing may come back
    for n in (1, 2, 3):
        cfgs = [[svc(p, "%s%d" % (p, i), cr="cred%d" % i)] for i, p in enumerate(["mrp", "raop", "dmap"][:n])]
        gets = [{"op": "get", "cfg": c} for c in cfgs]
        removes = [{"op": "remove", "h": i} for i in range(n)]
        end = [{"op": "save"}, {"op": "changed"}, {"op": "fresh"}, {"op": "load"}, {"op": "changed"}, {"op": "scan", "cfg": cfgs[0]}]
        for kind in ("file", "memory"):
            yield ("zero-devices", kind, None, gets + [{"op": "save"}] + removes + end)
            yield ("zero-devices", kind, None, gets + removes + end)
            yield ("zero-devices", kind, None, gets + [{"op": "save"}, {"op": "fresh"}, {"op": "load"}] + [{"op": "remove", "h": n + i} for i in range(n)] + end)
        init = (1, [[(c[0]["p"], [("identifier", c[0]["id"]), ("credentials", c[0]["cr"])])] for c in cfgs])
        yield ("zero-devices", "file", init, [{"op": "load"}] + removes + end)
        yield ("zero-devices", "file", init, [{"op": "load"}] + removes[:-1] + [{"op": "save"}] + removes[-1:] + end)
    yield ("zero-devices", "file", (1, []), [{"op": "load"}, {"op": "changed"}, {"op": "save"}, {"op": "fresh"}, {"op": "load"}])

    # every declared field with every candidate value through save and a load into a fresh storage
    for sec, fl in sections:
        for f in fl:
            for v in candidates(f):
                yield ("field-roundtrip", "file", None, [
                    {"op": "get", "cfg": [a]}, {"op": "set", "h": 0, "sec": sec, "key": f[0], "val": v},
                    {"op": "save"}, {"op": "fresh"}, {"op": "load"}, {"op": "changed"}])
    for how in ("read", "corrupt"):
        lf = {"op": "loadfault", "how": how}
        yield ("failed-load", "file", None, [{"op": "get", "cfg": [a]}, {"op": "save"}, setc, lf, {"op": "changed"}, {"op": "save"}, {"op": "fresh"}, lf, {"op": "changed"}, {"op": "load"}])
        yield ("failed-load", "file", (1, [[("mrp", [("identifier", "A"), ("credentials", "c1")])]]), [lf, {"op": "get", "cfg": [a]}, {"op": "load"}, {"op": "scan", "cfg": [a]}])
    # random
    total = 1200 if not ctx.thorough else 12000
    for i in range(total):
        kind = "file" if rng.random() < 0.7 else "memory"
        init = rand_init_file(rng, sections) if kind == "file" else None
        extra_pw = rng.random() < 0.06
        n = rng.randrange(1, 11)
        ops = []
        nh = 0
        for _ in range(n):
            o = rand_op(rng, sections, 6, extra_pw)
            ops.append(o)
        if rng.random() < 0.5:
            ops += [{"op": "save"}]
        yield ("random" + ("-undeclared-pw" if extra_pw else ""), kind, init, ops)


def tuple_file(f):
    if f is None:
        return None
    return (f[0], [[(s, [(k, v) for k, v in kv]) for s, kv in dev] for dev in f[1]])


def list_file(f):
    return None if f is None else [f[0], [[[s, [[k, v] for k, v in kv]] for s, kv in dev] for dev in f[1]]]


def run(ctx):
    try:
        sections = gen(ctx)
    except Exception as ex:
        ctx.tie_broken("translator:settings-schema", "%s: %s" % (type(ex).__name__, ex))
        ctx.build_property()
        return
    ctx.build_property()
    if ctx.thorough:
        ctx.coqchk()
    ctx.rule = ("histories of get/scan(get+apply)/update/remove/set-field/save/load/fresh-storage/changed and save/load with an "
                "injected file-system fault (open, write or os.replace raising; read raising or yielding garbage), and the real "
                "pyatv.scan / connect / pair run against the storage with the scanner classes, facade and protocol table replaced "
                "(discovered lists with dropped devices at every position), on the real "
                "MemoryStorage and FileStorage: the corpus, every sequence up to the stated depth over a 13-operation "
                "alphabet (two devices with overlapping identifiers), and seeded random histories of 1-11 operations over "
                "configurations of 1-3 services with identifiers from a pool of 6 (incl. empty and non-ASCII), values incl. "
                "None/empty/unicode/large ints/enum members; non-trivial = at least one record exists at the end or a file "
                "was written; distinct by the concrete operation list")
    drv = Driver(sections)
    cases = []
    reported = set()
    try:
        for (src, kind, init, ops) in histories(ctx, sections):
            h = exec_history(drv, kind, init, ops)
            snap = h.snapshot()
            ctx.traces += 1
            ctx.count("src:" + src)
            ctx.count("len:%d" % len(h.rops))
            for o in h.rops:
                ctx.count("op:" + o["op"])
            for x in h.obs:
                if x[0] == "raise":
                    ctx.count("raise:" + x[1])
            for fl in h.flags:
                ctx.count("flag:" + fl)
            rep = {"kind": kind, "initial_file": list_file(h.init_canon), "ops": h.rops}
            for t in h.ties:
                ctx.tie_broken("correspondence:scan-glue", json.dumps({"history": rep, "detail": t}, default=repr))
            ctx.case(json.dumps(rep, sort_keys=True), nontrivial=bool(snap["handles"]) or snap["file"] is not None,
                     sample={"kind": kind, "ops": h.ops, "returned": h.obs, "stored_handles": snap["handles"],
                             "changed": snap["changed"]} if (src.startswith("random") and len(h.ops) in (4, 5)) else None)
            for key, what in h.errors:
                if key not in reported:
                    reported.add(key)
                    ctx.violation(key, what, shrink(drv, kind, h.init_canon, h.rops, key))
            cases.append((h, snap, rep))
    finally:
        drv.close()
    # model vs implementation inside Coq
    per = 120
    items = []
    for i in range(0, len(cases), per):
        t = Terms()
        try:
            body = ";\n".join(t.case(h, snap) for (h, snap, _r) in cases[i:i + per])
        except KeyError as ex:
            ctx.tie_broken("correspondence:observation-outside-model", repr(ex))
            continue
        txt = ("From Coq Require Import List NArith ZArith String. Import ListNotations. Open Scope string_scope.\n"
               "From PV Require Import Common.Cases C14.Model C14.Gen.\n" + t.defs() + "\n"
               "Definition cases : list (kind * option (Z * list ddev) * list op * (list obs * list nat * list rec * bool * option (Z * list ddev))) := [\n"
               + body + "\n].\nEval vm_compute in (bad_indices (check_case schema) cases).\n")
        items.append(("cases_%03d" % (i // per), txt))
    res = common.coq_run_many(items, ctx.pid)
    nbad = 0
    for name, (rc, out) in sorted(res.items()):
        bad = common.parse_eval_nat_list(out) if rc == 0 else None
        if bad is None:
            ctx.tie_broken("correspondence:" + name, out)
        elif bad:
            base = int(name.split("_")[1]) * per
            for b in bad:
                nbad += 1
                if nbad <= 5:
                    h, snap, rep = cases[base + b]
                    ctx.tie_broken("correspondence:storage-history", json.dumps(
                        {"history": rep, "impl_returned": h.obs, "impl_final": {"handles": snap["handles"], "changed": snap["changed"]}}, default=repr))
    ctx.extra["correspondence_mismatches"] = nbad
    ctx.trusted += [
        "pyatv.scan / connect / pair are driven with fake scanner classes, a fake facade and a fake protocol table substituted in the pyatv "
        "package namespace (harness/c14.py Glue); their filtering, get_settings and apply code is the real one and is entered into the history as the "
        "equivalent model operations",
        "hand-written model coq/C14/Model.v of pyatv/storage/__init__.py, file_storage.py, memory_storage.py, BaseConfig.apply/BaseService.apply and "
        "pydantic_compat.model_copy, tied on every run by executing each history on the real storage classes and in the model (vm_compute)",
        "translator harness/c14.py gen(): pydantic schema of pyatv/settings.py -> coq/C14/Gen.v, regenerated on every run, fails closed on any field kind it does not know",
        "pydantic (validation, dict/json with exclude_defaults, copy(update=...), __eq__) and the json module are outside the proof; their behaviour on the generated "
        "histories is what the correspondence run compares",
    ]
    ctx.assumptions += [
        "SHA-256 and the JSON encoding of a dump are injective (the hash is modelled by the dumps themselves)",
        "values assigned to settings fields fit the declared field type and validator (pydantic does not validate on assignment and coerces or rejects at load)",
        "'shares at least one identifier with it' is read as: with the stored record (DESIGN.md C14); a record is not extended with new identifiers by get_settings",
    ]


def replay(ctx, path):
    d = json.load(open(path))
    r = d.get("replay", d)
    sections = read_schema()
    drv = Driver(sections)
    try:
        h = exec_history(drv, r["kind"], tuple_file(r.get("initial_file")), r["ops"])
    finally:
        drv.close()
    for o in h.rops:
        if o["op"].startswith("py"):
            print("executed:", json.dumps(o))
    for o, x in zip(h.ops, h.obs):
        print(json.dumps(o), "->", json.dumps(x))
    keys = sorted(set(k for k, _ in h.errors))
    for k, w in h.errors:
        print("%s: %s" % (k, w))
    print("property-errors=%s" % keys)
    return 1 if keys else 0
