"""C19 - heartbeater: theorems in coq/C19, correspondence against the real coroutine."""
import asyncio
import itertools
import json

import common
import vloop

NAMES = {"S": "ISleepCancel", "O": "IOk", "F": "IFail", "C": "ICancel"}


async def drive(retries, pattern):
    """Run the real heartbeater against one scripted history; returns (trace, returned?)."""
    from pyatv.core.protocol import heartbeater

    trace = []
    entered = asyncio.Event()
    gate = {}

    async def sender(message):
        # a keep-alive counts as sent when the send phase of the iteration is over
        fut = asyncio.get_event_loop().create_future()
        gate["fut"] = fut
        entered.set()
        try:
            await fut
        finally:
            trace.append("Send")

    def finish():
        trace.append("Finish")

    def failure(exc):
        trace.append("Failure")

    task = asyncio.ensure_future(
        heartbeater("verif", sender, finish_func=finish, failure_func=failure,
                    retries=retries, interval=30))
    await asyncio.sleep(0)  # let the coroutine start (a task cancelled before its first step never runs)
    for ev in pattern:
        if task.done():
            break
        if ev == "S":
            # cancel at the first suspension point of this iteration
            task.cancel()
        else:
            # let a possible sleep elapse; wait until the send is in progress
            w = asyncio.ensure_future(entered.wait())
            await asyncio.wait([w, task], return_when=asyncio.FIRST_COMPLETED)
            if not w.done():
                w.cancel()
                break
            if ev == "O":
                gate["fut"].set_result(None)
            elif ev == "F":
                gate["fut"].set_exception(RuntimeError("no reply"))
            else:
                task.cancel()
        entered.clear()
        # let the task run up to its next suspension point
        for _ in range(4):
            await asyncio.sleep(0)
    done = task.done()
    if not done:
        task.cancel()
        n = len(trace)
        try:
            await task
        except asyncio.CancelledError:
            pass
        del trace[n:]
    else:
        try:
            task.result()
        except asyncio.CancelledError:
            pass
    return trace, done


def model_py(r, pattern):
    """Reference transcription used only to prune the enumeration tree (not the oracle)."""
    a = 0
    for i, ev in enumerate(pattern):
        if ev in "SC":
            return True
        if ev == "O":
            a = 0
        else:
            a += 1
            if a > r:
                return True
    return False


def enum_patterns(maxlen):
    """All histories up to maxlen, pruned: a history whose proper prefix already terminated
    (according to the implementation run) is not extended."""
    out = []
    frontier = [""]
    for _ in range(maxlen):
        nxt = []
        for p in frontier:
            for ev in "SOFC":
                nxt.append(p + ev)
        out.extend(nxt)
        frontier = nxt
        yield nxt



# ---------------------------------------------------------------------------------- call sites
# The two users of heartbeater: MrpProtocol.enable_heartbeat (failure closes the connection)
# and AP2Session.start_keep_alive (failure/finish reported to the device listener).  Here the
# environment is the DEVICE: it answers a keep-alive ('O') or stays silent / errors ('F'); other
# traffic on the same protocol object (answered and abandoned requests) is interleaved.  The
# observable trace must be the model's trace for the same O/F history.

async def drive_mrp(history, abandon_before, stop_inflight=False):
    """history: string over O/F (device answers / is silent for the i-th keep-alive);
    abandon_before: index of the keep-alive before which a user request is abandoned (or None)."""
    from pyatv.protocols.mrp import messages, protobuf
    from pyatv.protocols.mrp.connection import AbstractMrpConnection
    from pyatv.protocols.mrp.protocol import MrpProtocol, ProtocolState
    from pyatv.auth.hap_srp import SRPAuthHandler
    from pyatv.core import MutableService
    from pyatv.const import Protocol
    from pyatv.settings import InfoSettings

    class Conn(AbstractMrpConnection):
        def __init__(self):
            super().__init__()
            self.sent = []
            self.closed = 0

        async def connect(self):
            pass

        def enable_encryption(self, output_key, input_key):
            pass

        @property
        def connected(self):
            return not self.closed

        def close(self):
            self.closed += 1

        def send(self, message):
            self.sent.append(message)

    conn = Conn()
    proto = MrpProtocol(conn, SRPAuthHandler(), MutableService("id", Protocol.MRP, 0, {}), InfoSettings())
    proto._state = ProtocolState.READY
    proto.enable_heartbeat()
    trace = []
    seen = 0
    for i, ev in enumerate(history + "."):
        if abandon_before == i:
            # a caller gives up on a request the device never answers
            try:
                await asyncio.wait_for(proto.send_and_receive(messages.create(protobuf.SEND_COMMAND_MESSAGE), timeout=50), 0.5)
            except asyncio.TimeoutError:
                pass
        if ev == ".":
            break
        # wait (virtual time) for the next keep-alive to be sent, or for the connection to be closed
        for _ in range(2000):
            hb = [m for m in conn.sent[seen:] if m.type == protobuf.GENERIC_MESSAGE]
            if hb or conn.closed:
                break
            await asyncio.sleep(0.1)
        if conn.closed or not hb:
            break
        idx = seen + [j for j, m in enumerate(conn.sent[seen:]) if m.type == protobuf.GENERIC_MESSAGE][0]
        msg = conn.sent[idx]
        seen = idx + 1
        trace.append("Send")
        if ev == "O":
            resp = messages.create(protobuf.GENERIC_MESSAGE)
            resp.identifier = msg.identifier
            proto.message_received(resp, None)
            await asyncio.sleep(0)
        elif ev == "L":
            # the device answers, but only after the keep-alive has timed out (6 s latency): the late
            # answer belongs to the abandoned keep-alive and must not count for the retry in flight
            ident = str(msg.identifier)
            await asyncio.sleep(5.5)
            resp = messages.create(protobuf.GENERIC_MESSAGE)
            resp.identifier = ident
            proto.message_received(resp, None)
            await asyncio.sleep(0)
        else:
            await asyncio.sleep(5.5)  # send_and_receive times out after 5 s
    if stop_inflight and not conn.closed:
        # the connection is closed by the user while a keep-alive is in flight (or while the loop
        # sleeps): the loop must end quietly - no failure, no further keep-alive
        for _ in range(2000):
            hb = [m for m in conn.sent[seen:] if m.type == protobuf.GENERIC_MESSAGE]
            if hb or conn.closed:
                break
            await asyncio.sleep(0.1)
        if hb:
            trace.append("Send")
            seen = len(conn.sent)
        proto.stop()
        closed_by_stop = conn.closed
        await asyncio.sleep(300)
        extra = len([m for m in conn.sent[seen:] if m.type == protobuf.GENERIC_MESSAGE])
        trace.append("Finish")
        if extra:
            trace.append("SendAfterStop")
        if conn.closed != closed_by_stop:
            trace.append("FailureAfterStop")
        return trace
    # let a pending failure be reported: nothing may happen for a long while
    sent_before = len([m for m in conn.sent[seen:] if m.type == protobuf.GENERIC_MESSAGE])
    closed = conn.closed
    if closed:
        trace.append("Failure")
        await asyncio.sleep(200)
        extra = len([m for m in conn.sent[seen:] if m.type == protobuf.GENERIC_MESSAGE]) - sent_before
        if extra or conn.closed != closed:
            trace.append("ActivityAfterFailure")
    proto.stop()
    return trace


async def drive_ap2(history):
    from pyatv.protocols.airplay.ap2_session import AP2Session
    from pyatv.auth.hap_pairing import NO_CREDENTIALS
    from pyatv.settings import InfoSettings
    from pyatv.support.state_producer import StateProducer

    trace = []
    gate = {}
    entered = asyncio.Event()

    class Rtsp:
        async def feedback(self, allow_error=False):
            fut = asyncio.get_event_loop().create_future()
            gate["fut"] = fut
            entered.set()
            try:
                await fut
            finally:
                trace.append("Send")

    class L:
        def connection_lost(self, exc):
            trace.append("Failure")

        def connection_closed(self):
            trace.append("Finish")

    listener = L()
    sp = StateProducer()
    session = AP2Session("127.0.0.1", 7000, NO_CREDENTIALS, InfoSettings())
    session.rtsp = Rtsp()
    # the order of real use: pyatv.connect() starts the keep-alive, the application assigns its
    # device listener to the returned object afterwards (every other history assigns it first)
    late = len(history) % 2 == 1
    if not late:
        sp.listener = listener
    session.start_keep_alive(sp)
    if late:
        sp.listener = listener
    task = session._feedback_task
    await asyncio.sleep(0)
    for ev in history:
        if task.done():
            break
        if ev == "S":
            task.cancel()
        else:
            w = asyncio.ensure_future(entered.wait())
            await asyncio.wait([w, task], return_when=asyncio.FIRST_COMPLETED)
            if not w.done():
                w.cancel()
                break
            if ev == "O":
                gate["fut"].set_result(None)
            elif ev == "F":
                gate["fut"].set_exception(RuntimeError("no reply"))
            else:
                task.cancel()
        entered.clear()
        for _ in range(4):
            await asyncio.sleep(0)
    done = task.done()
    if not done:
        n = len(trace)
        task.cancel()
        try:
            await task
        except asyncio.CancelledError:
            pass
        del trace[n:]
    return trace, done


# deeper call-site scenarios: the real transport-facing classes under the keep-alive ------------

async def drive_ap2_deep(history, encrypted=False):
    """AP2Session.start_keep_alive on top of the REAL RtspSession and HttpConnection (fake
    transport).  Device behaviour per keep-alive: O = answers 200, o = answers 200 and the
    network delivers the answer in two reads, E = answers 500 (an error status), F = stays silent.  The unchanged code counts E and F as failed keep-alives."""
    from pyatv.protocols.airplay.ap2_session import AP2Session
    from pyatv.auth.hap_pairing import NO_CREDENTIALS
    from pyatv.settings import InfoSettings
    from pyatv.support.state_producer import StateProducer
    from pyatv.support.http import HttpConnection
    from pyatv.support.rtsp import RtspSession

    trace = []
    reqs = []

    class Tr:
        def write(self, data):
            reqs.append(bytes(data))

        def close(self):
            pass

        def get_extra_info(self, name, default=None):
            return ("127.0.0.1", 7000)

    class L:
        def connection_lost(self, exc):
            trace.append("Failure")

        def connection_closed(self):
            trace.append("Finish")

    listener = L()
    sp = StateProducer()
    conn = HttpConnection()
    conn.transport = Tr()
    conn._local_ip = conn._remote_ip = "127.0.0.1"
    session = AP2Session("127.0.0.1", 7000, NO_CREDENTIALS, InfoSettings())
    session.connection = conn
    session.rtsp = RtspSession(conn)
    session.start_keep_alive(sp)
    sp.listener = listener       # assigned after connect, as applications do
    cut = 11
    dev = None
    if encrypted:
        # the control channel as it is after pair-verify: HAP framing in both directions; the device
        # side is an independent HAPSession holding the mirrored keys; an answer that the network
        # splits is split inside the 2-byte length prefix of its encrypted block
        from pyatv.auth.hap_session import HAPSession
        k1, k2 = bytes(range(32)), bytes(range(32, 64))
        mine, dev = HAPSession(), HAPSession()
        mine.enable(k1, k2)
        dev.enable(k2, k1)
        conn.receive_processor = mine.decrypt
        conn.send_processor = mine.encrypt
        cut = 1
    raw_received = conn.data_received

    def deliver(data):
        # what a selector transport does when the protocol's data_received raises: fatal error,
        # the transport is closed and connection_lost(exc) is called
        try:
            raw_received(data)
        except Exception as ex:  # noqa
            trace.append("ProtocolRaised:" + type(ex).__name__)
            conn.connection_lost(ex)
    conn.data_received = deliver
    seen = 0
    for ev in history:
        for _ in range(4000):
            if len(reqs) > seen or "Failure" in trace or "Finish" in trace:
                break
            await asyncio.sleep(0.05)
        if len(reqs) <= seen:
            break
        req = reqs[seen]
        seen += 1
        trace.append("Send")
        if dev is not None:
            req = dev.decrypt(req)
        wire = (lambda b: dev.encrypt(b)) if dev is not None else (lambda b: b)
        cseq = None
        for line in req.split(b"\r\n"):
            if line.lower().startswith(b"cseq:"):
                cseq = line.split(b":", 1)[1].strip()
        if ev == "O":
            conn.data_received(wire(b"RTSP/1.0 200 OK\r\nCSeq: " + cseq + b"\r\nContent-Length: 0\r\n\r\n"))
            await asyncio.sleep(0)
        elif ev == "o":
            # the same answer, delivered by the network in two reads
            resp = wire(b"RTSP/1.0 200 OK\r\nCSeq: " + cseq + b"\r\nContent-Length: 0\r\n\r\n")
            conn.data_received(resp[:cut])
            await asyncio.sleep(0.01)
            conn.data_received(resp[cut:])
            await asyncio.sleep(0)
        elif ev == "E":
            conn.data_received(wire(b"RTSP/1.0 500 Internal Server Error\r\nCSeq: " + cseq + b"\r\nContent-Length: 0\r\n\r\n"))
            await asyncio.sleep(0)
        else:
            await asyncio.sleep(15)     # HTTP request timeout is 10 s
        for _ in range(10):
            await asyncio.sleep(0)
    if "Failure" in trace:
        n = len(reqs)
        await asyncio.sleep(300)
        if len(reqs) != n:
            trace.append("ActivityAfterFailure")
    task = session._feedback_task
    done = task.done()
    if not done:
        n = len(trace)
        task.cancel()
        try:
            await task
        except asyncio.CancelledError:
            pass
        del trace[n:]
    return trace


async def drive_ap2_late_then_stop():
    from pyatv.protocols.airplay.ap2_session import AP2Session
    from pyatv.auth.hap_pairing import NO_CREDENTIALS
    from pyatv.settings import InfoSettings
    from pyatv.support.state_producer import StateProducer
    from pyatv.support.http import HttpConnection
    from pyatv.support.rtsp import RtspSession
    trace, reqs = [], []

    class Tr:
        def write(self, data):
            reqs.append(bytes(data))

        def close(self):
            pass

        def get_extra_info(self, name, default=None):
            return ("127.0.0.1", 7000)

    class L:
        def connection_lost(self, exc):
            trace.append("Failure")

        def connection_closed(self):
            trace.append("Finish")

    def cseq_of(req):
        for line in req.split(b"\r\n"):
            if line.lower().startswith(b"cseq:"):
                return line.split(b":", 1)[1].strip()

    sp = StateProducer()
    conn = HttpConnection()
    conn.transport = Tr()
    conn._local_ip = conn._remote_ip = "127.0.0.1"
    session = AP2Session("127.0.0.1", 7000, NO_CREDENTIALS, InfoSettings())
    session.connection = conn
    session.rtsp = RtspSession(conn)
    session.start_keep_alive(sp)
    listener = L()                      # the producer only keeps a weak reference
    sp.listener = listener
    for _ in range(4000):
        if reqs:
            break
        await asyncio.sleep(0.05)
    if not reqs:
        return ["NoKeepAlive"]
    trace.append("Send")
    first = cseq_of(reqs[0])
    for _ in range(4000):                 # stay silent: the keep-alive times out and is retried at once
        if len(reqs) > 1:
            break
        await asyncio.sleep(0.05)
    if len(reqs) < 2:
        return trace + ["NoRetry"]
    trace.append("Send")
    # the answer to the FIRST keep-alive arrives now; the HTTP layer hands it to the retry, which files
    # it under its CSeq and goes on waiting for its own
    conn.data_received(b"RTSP/1.0 200 OK\r\nCSeq: " + first + b"\r\nContent-Length: 0\r\n\r\n")
    await asyncio.sleep(1)
    task = session._feedback_task
    task.cancel()                         # what AP2Session.stop() does when the connection is closed locally
    for _ in range(200):
        if task.done():
            break
        await asyncio.sleep(0.1)
    await asyncio.sleep(30)
    if not task.done():
        trace.append("StillRunning")
    return trace


async def drive_mrp_deep(history, drop=None, encrypted=False, reassign=None):
    """MrpProtocol.enable_heartbeat on top of the REAL MrpConnection with a device listener: after
    the fatal run the device listener must be told exactly once that the connection is gone.
    drop = "inflight" / "sleeping": after the history the DEVICE drops the TCP connection (the
    transport reports connection_lost) while a keep-alive is outstanding / while the loop sleeps:
    keep-alives must stop and the loss is reported exactly once (by the connection)."""
    from pyatv.protocols.mrp import messages, protobuf
    from pyatv.protocols.mrp.connection import MrpConnection
    from pyatv.protocols.mrp.protocol import MrpProtocol, ProtocolState
    from pyatv.auth.hap_srp import SRPAuthHandler
    from pyatv.core import MutableService
    from pyatv.const import Protocol
    from pyatv.settings import InfoSettings
    from pyatv.support.state_producer import StateProducer
    from pyatv.support.variant import read_variant

    loop = asyncio.get_event_loop()
    reports = []
    sent = []

    keep = []

    class L:
        # reassign = "same" / "new": the application's handler (re-)installs a listener on the device
        # object while it is being told (an application re-arming itself): still one report in all
        def _again(self):
            if reassign:
                nxt = self if reassign == "same" else L()
                keep.append(nxt)
                sp.listener = nxt

        def connection_lost(self, exc):
            reports.append("lost")
            self._again()

        def connection_closed(self):
            reports.append("closed")
            self._again()

    listener = L()

    class Device(StateProducer):
        """Stands in for FacadeAppleTV as device listener: the first report makes it tear every
        protocol down, and a protocol that is torn down (DMAP does) reports connection_closed from
        inside that hook - which must not reach the user's listener as a second notification."""

        torn = False

        def state_was_updated(self):
            self.listener.connection_closed()
            # ... and the other protocols' transports report their own closing on a later turn of the
            # loop (FacadeAppleTV.close() -> SetupData.close() -> transport.close() -> connection_lost(None))
            if not self.torn:
                self.torn = True
                loop.call_soon(lambda: self.listener.connection_closed())
    sp = Device(max_calls=1)
    sp.listener = listener
    conn = MrpConnection("127.0.0.1", 1, loop, atv=sp)

    class Tr:
        closed = False

        def write(self, data):
            sent.append(bytes(data))

        def close(self):
            if not self.closed:
                self.closed = True
                loop.call_soon(conn.connection_lost, None)    # what a real transport does

        def can_write_eof(self):
            return False

    tr = Tr()
    conn._transport = tr
    proto = MrpProtocol(conn, SRPAuthHandler(), MutableService("id", Protocol.MRP, 0, {}), InfoSettings())
    dev = None
    if encrypted:
        # an encrypted MRP session (after pair-verify); the device side is an independent cipher with the
        # mirrored keys.  History letter x: the device's answer is preceded by a frame that was damaged
        # on the way (fails authentication and is dropped) - the session must go on
        from pyatv.support.chacha20 import Chacha20Cipher8byteNonce
        from pyatv.support.variant import write_variant
        k1, k2 = bytes(range(32)), bytes(range(32, 64))
        conn.enable_encryption(k1, k2)
        dev = Chacha20Cipher8byteNonce(k2, k1)
    proto._state = ProtocolState.READY
    # attempts are counted where the keep-alive loop hands its message over (an attempt on a dead
    # connection never reaches the transport) and close() calls where the failure path ends
    attempts = []
    closes = []
    real_sar, real_close = proto.send_and_receive, conn.close

    async def counting_sar(message, *a, **k):
        attempts.append(1)
        return await real_sar(message, *a, **k)

    def counting_close():
        closes.append(1)
        real_close()
    proto.send_and_receive = counting_sar
    conn.close = counting_close
    proto.enable_heartbeat()
    trace = []
    seen = 0
    for ev in history:
        for _ in range(2000):
            if len(sent) > seen or tr.closed:
                break
            await asyncio.sleep(0.1)
        if tr.closed or len(sent) <= seen:
            break
        raw = sent[seen]
        seen += 1
        trace.append("Send")
        length, body = read_variant(raw)
        body = body[:length]
        if dev is not None:
            body = dev.decrypt(body)       # the device receives every frame, also those it does not answer
        if ev in "Ox":
            msg = protobuf.ProtocolMessage()
            msg.ParseFromString(body)
            resp = messages.create(protobuf.GENERIC_MESSAGE)
            resp.identifier = msg.identifier
            if dev is None:
                proto.message_received(resp, None)
            else:
                pre = b""
                if ev == "x":
                    junk = bytearray(dev.encrypt(messages.create(protobuf.GENERIC_MESSAGE).SerializeToString()))
                    junk[len(junk) // 2] ^= 0x40
                    pre = write_variant(len(junk)) + bytes(junk)
                    if seen % 2 == 0:
                        conn.data_received(pre)      # in a read of its own ...
                        pre = b""
                enc = dev.encrypt(resp.SerializeToString())
                conn.data_received(pre + write_variant(len(enc)) + enc)     # ... or in the same read as the answer
            await asyncio.sleep(0)
        else:
            await asyncio.sleep(5.5)
    if drop and not tr.closed:
        if drop == "inflight":
            for _ in range(2000):
                if len(sent) > seen or tr.closed:
                    break
                await asyncio.sleep(0.1)
            if len(sent) > seen:
                trace.append("Send")
                seen = len(sent)
        if not tr.closed:
            tr.closed = True
            conn.connection_lost(ConnectionResetError("peer dropped the connection"))
            n = len(sent)
            nrep = len(reports)
            na, nc = len(attempts), len(closes)
            await asyncio.sleep(300)
            trace.append("Finish")
            if len(sent) != n or len(attempts) != na:
                trace.append("SendAfterDrop")
            if len(closes) != nc:
                trace.append("FailureAfterDrop")
            if len(reports) != max(nrep, 1):
                trace.append("ReportAfterDrop")
            proto.stop()
            for _ in range(5):
                await asyncio.sleep(0)
            return trace, list(reports), tr.closed
    if tr.closed:
        trace.append("Failure")
        n = len(sent)
        await asyncio.sleep(300)
        if len(sent) != n:
            trace.append("ActivityAfterFailure")
    proto.stop()
    for _ in range(5):
        await asyncio.sleep(0)
    return trace, list(reports), tr.closed


def callsites(ctx, cases_mrp, cases_ap2):
    import itertools
    maxlen = 5 if not ctx.thorough else 7
    from pyatv.core.protocol import HEARTBEAT_RETRIES
    r = HEARTBEAT_RETRIES
    for n in range(1, maxlen + 1):
        for hist in itertools.product("OF", repeat=n):
            hist = "".join(hist)
            for ab in [None] + list(range(n + 1)):
                trace = vloop.run(drive_mrp, hist, ab)
                ctx.case(("mrp", hist, ab), nontrivial="F" in hist, sample={"site": "MrpProtocol.enable_heartbeat", "device": hist, "abandoned_request_before": ab, "trace": trace} if ab == 1 and n == 3 else None)
                ctx.count("mrp-callsite")
                errs = [e for e in oracle(r, hist, [t for t in trace if t != "ActivityAfterFailure"], True) if e != "finish-not-once-on-cancel"]
                if "ActivityAfterFailure" in trace:
                    errs.append("activity-after-failure")
                for e in errs:
                    ctx.violation("C19:mrp-callsite:" + e, "MrpProtocol keep-alive: " + e,
                                  {"site": "mrp", "device": hist, "abandoned_request_before": ab, "impl_trace": trace})
                cases_mrp.append((r, hist, [t for t in trace if t != "ActivityAfterFailure"], "Failure" in trace))
    # answers that arrive after the keep-alive timed out (they count as failed keep-alives)
    for n in range(1, maxlen):
        for hist0 in itertools.product("OFL", repeat=n):
            hist0 = "".join(hist0)
            hist = hist0.replace("L", "F")
            if "L" not in hist0 or model_py(r, hist[:-1]):
                continue
            trace = vloop.run(drive_mrp, hist0, None)
            ctx.case(("mrp-late", hist0), nontrivial=True, sample={"site": "MrpProtocol keep-alive, late answers", "device": hist0, "trace": trace} if hist0 == "LL" else None)
            ctx.count("mrp-late-answer")
            errs = [e for e in oracle(r, hist, [t for t in trace if t != "ActivityAfterFailure"], True) if e != "finish-not-once-on-cancel"]
            if "ActivityAfterFailure" in trace:
                errs.append("activity-after-failure")
            for e in errs:
                ctx.violation("C19:mrp-callsite:" + e, "MrpProtocol keep-alive with late answers: " + e,
                              {"site": "mrp", "device": hist0, "abandoned_request_before": None, "impl_trace": trace})
            cases_mrp.append((r, hist, [t for t in trace if t != "ActivityAfterFailure"], "Failure" in trace))
    # AP2: the connection is closed locally while the keep-alive waits for its own CSeq (it was handed
    # the late answer to the previous, timed-out keep-alive): no failure may be reported
    trace = vloop.run(drive_ap2_late_then_stop)
    ctx.case(("ap2-late-then-stop",), nontrivial=True, sample={"site": "AP2 keep-alive cancelled while waiting for its CSeq", "trace": trace})
    ctx.count("ap2-late-then-stop")
    if "Failure" in trace or trace.count("Finish") != 1:
        ctx.violation("C19:ap2-callsite:failure-reported-on-close", "AP2 keep-alive cancelled while waiting for its own CSeq: trace %s" % trace,
                      {"site": "ap2-late-then-stop", "impl_trace": trace})
    # the real transport-facing classes below the keep-alive
    for n in range(1, maxlen):
        for hist in itertools.product("OoEF", repeat=n):
            hist = "".join(hist)
            mh = hist.replace("E", "F").replace("o", "O")
            if model_py(r, mh[:-1]):
                continue
            for enc in (False, True):
                if enc and "o" not in hist:
                    continue
                trace = vloop.run(drive_ap2_deep, hist, enc)
                ctx.case(("ap2-deep", hist, enc), nontrivial=True, sample={"site": "AP2Session keep-alive over real RtspSession/HttpConnection", "device": hist, "encrypted": enc, "trace": trace} if hist == "OEF"[:n] else None)
                ctx.count("ap2-deep" + ("-encrypted" if enc else ""))
                core = [t for t in trace if t in ("Send", "Failure", "Finish")]
                errs = [e for e in oracle(r, mh, core, True) if e != "finish-not-once-on-cancel"]
                if "ActivityAfterFailure" in trace:
                    errs.append("activity-after-failure")
                if any(t.startswith("ProtocolRaised") for t in trace):
                    errs.append("well-formed-answer-kills-connection")
                for e in errs:
                    ctx.violation("C19:ap2-callsite:" + e, "AP2 keep-alive over the real RTSP/HTTP classes: " + e,
                                  {"site": "ap2-deep", "device": hist, "encrypted": enc, "impl_trace": trace})
                cases_mrp.append((r, mh, core, "Failure" in trace))
    for n in range(1, maxlen):
      for enc in (False, True):
        for hist0 in itertools.product("OF" if not enc else "OxF", repeat=n):
            hist0 = "".join(hist0)
            hist = hist0.replace("x", "O")
            if model_py(r, hist[:-1]) or (enc and "x" not in hist0):
                continue
            for rea in ((None, "same", "new") if not enc else (None,)):
                trace, reports, closed = vloop.run(drive_mrp_deep, hist0, None, enc, rea)
                ctx.case(("mrp-deep", hist0, enc, rea), nontrivial=True)
                ctx.count("mrp-deep" + ("-encrypted" if enc else "") + ("-listener-reassigned-in-handler" if rea else ""))
                errs = [e for e in oracle(r, hist, [t for t in trace if t != "ActivityAfterFailure"], True) if e != "finish-not-once-on-cancel"]
                if "ActivityAfterFailure" in trace:
                    errs.append("activity-after-failure")
                # the device listener is told exactly once that the connection is gone (after the fatal run
                # or at the latest when the protocol is stopped at the end of the scenario)
                if len(reports) != 1:
                    errs.append("device-listener-told-%d-times" % len(reports))
                for e in errs:
                    ctx.violation("C19:mrp-callsite:" + e, "MRP keep-alive over the real MrpConnection: " + e,
                                  {"site": "mrp-deep", "device": hist0, "encrypted": enc, "reassign": rea, "impl_trace": trace, "listener_reports": reports})
                cases_mrp.append((r, hist, [t for t in trace if t != "ActivityAfterFailure"], "Failure" in trace))
    # the device drops the connection while a keep-alive is outstanding / while the loop sleeps
    for n in range(0, maxlen - 1):
        for hist in itertools.product("OF", repeat=n):
            hist = "".join(hist)
            if model_py(r, hist):
                continue
            for drop in ("inflight", "sleeping"):
                if drop == "sleeping" and hist.endswith("F"):
                    continue      # a failed keep-alive is retried at once: the loop does not sleep there
                for rea in (None, "same", "new"):
                    trace, reports, closed = vloop.run(drive_mrp_deep, hist, drop, False, rea)
                    ctx.case(("mrp-drop", hist, drop, rea), nontrivial=True, sample={"site": "device drops the connection during MRP keep-alive", "device": hist, "when": drop, "trace": trace, "listener_reports": reports} if hist == "OF" else None)
                    ctx.count("mrp-drop-" + drop)
                    errs = []
                    if "SendAfterDrop" in trace:
                        errs.append("keepalive-after-connection-lost")
                    if "FailureAfterDrop" in trace:
                        errs.append("failure-declared-after-connection-lost")
                    if "ReportAfterDrop" in trace or len(reports) != 1:
                        errs.append("device-listener-told-%d-times" % len(reports))
                    for e in errs:
                        ctx.violation("C19:mrp-callsite:" + e, "device drops the connection during MRP keep-alive (%s): %s" % (drop, e),
                                      {"site": "mrp-drop", "device": hist, "when": drop, "reassign": rea, "impl_trace": trace, "listener_reports": reports})
                    cases_mrp.append((r, hist + ("C" if drop == "inflight" else "S"), [t for t in trace if t in ("Send", "Finish")], False))
    # user closes the connection (stop) while a keep-alive is outstanding, after every live prefix
    for n in range(0, maxlen):
        for hist in itertools.product("OF", repeat=n):
            hist = "".join(hist)
            if model_py(r, hist):
                continue
            trace = vloop.run(drive_mrp, hist, None, True)
            ctx.case(("mrp-stop", hist), nontrivial=True, sample={"site": "MrpProtocol.stop() during keep-alive", "device": hist, "trace": trace} if hist == "OF" else None)
            ctx.count("mrp-stop-inflight")
            for bad in ("SendAfterStop", "FailureAfterStop"):
                if bad in trace:
                    ctx.violation("C19:mrp-callsite:" + ("keepalive-after-close" if bad == "SendAfterStop" else "failure-reported-on-close"),
                                  "MrpProtocol.stop() while a keep-alive is in flight: " + bad,
                                  {"site": "mrp-stop", "device": hist, "impl_trace": trace})
            cases_mrp.append((r, hist + "C", [t for t in trace if t in ("Send", "Finish")], False))
    for n in range(1, maxlen + 1):
        for hist in itertools.product("SOFC", repeat=n):
            hist = "".join(hist)
            # prune: only histories whose proper prefixes keep the loop running
            if model_py(r, hist[:-1]):
                continue
            trace, done = vloop.run(drive_ap2, hist)
            ctx.case(("ap2", hist), nontrivial="Send" in trace)
            ctx.count("ap2-callsite")
            for e in oracle(r, hist, trace, done):
                ctx.violation("C19:ap2-callsite:" + e, "AP2Session keep-alive: " + e, {"site": "ap2", "history": hist, "impl_trace": trace})
            cases_ap2.append((r, hist, trace, done))


def coq_case(r, pat, trace, done):
    return "(%s, %s, %s, %s)" % (
        common.cnat(r), common.clist([NAMES[c] for c in pat]),
        common.clist(trace), common.cbool(done))


def oracle(r, pat, trace, done):
    """The property judged directly on the implementation's trace."""
    errs = []
    nf = trace.count("Failure")
    nfin = trace.count("Finish")
    # position of first cancel and of the first fatal run in the history
    a = 0
    fatal = None
    cancel = None
    for i, ev in enumerate(pat):
        if ev in "SC":
            cancel = i
            break
        if ev == "O":
            a = 0
        else:
            a += 1
            if a == r + 1:
                fatal = i
                break
    if fatal is not None:
        if nf != 1:
            errs.append("lost-not-reported-once")
        if trace and trace[-1] != "Failure":
            errs.append("activity-after-failure")
        if trace.count("Send") != fatal + 1:
            errs.append("keepalives-do-not-stop")
    else:
        if nf != 0:
            errs.append("failure-reported-while-alive-or-cancelled")
    if cancel is not None and fatal is None:
        if nfin != 1:
            errs.append("finish-not-once-on-cancel")
    return errs


def run(ctx):
    ok = ctx.build_property()
    maxlen = 9 if not ctx.thorough else 11
    if ctx.thorough:
        ctx.coqchk()
    ctx.rule = ("every history over {sleep-cancel, ok, fail, send-cancel} up to length %d for retries 0..3, "
                "enumerated as a tree (a history is extended only while the real coroutine is still running); "
                "non-trivial = the real coroutine made at least one send; distinct by (retries, history)" % maxlen)
    cases = []
    for r in range(4):
        frontier = [""]
        for depth in range(maxlen):
            nxt = []
            for p in frontier:
                for ev in "SOFC":
                    pat = p + ev
                    trace, done = vloop.run(drive, r, pat)
                    cases.append((r, pat, trace, done))
                    ctx.case((r, pat), nontrivial="Send" in trace,
                             sample={"retries": r, "history": pat, "impl_trace": trace, "returned": done})
                    ctx.count("len%d" % len(pat))
                    ctx.count("end:" + (trace[-1] if trace else "none"))
                    for e in oracle(r, pat, trace, done):
                        ctx.violation("C19:" + e, e, {"retries": r, "history": pat, "impl_trace": trace})
                    if not done:
                        nxt.append(pat)
            frontier = nxt
    cs_mrp, cs_ap2 = [], []
    callsites(ctx, cs_mrp, cs_ap2)
    # the MRP driver observes sends and the close only (no finish, still-running not distinguished)
    cases += cs_ap2
    mrp_cases = cs_mrp
    ctx.exhaustive = True
    ctx.traces = len(cases) + len(mrp_cases)
    # model vs implementation inside Coq
    items = []
    per = 1500
    for i in range(0, len(cases), per):
        chunk = cases[i:i + per]
        txt = ("From Coq Require Import List. Import ListNotations.\n"
               "From PV Require Import Common.Cases C19.Model.\n"
               "Definition cases : list (nat * list it * list obs * bool) := [\n%s\n].\n"
               "Eval vm_compute in (bad_indices check_case cases).\n"
               % ";\n".join(coq_case(*c) for c in chunk))
        items.append(("cases_%03d" % (i // per), txt))
    for i in range(0, len(mrp_cases), per):
        chunk = mrp_cases[i:i + per]
        txt = ("From Coq Require Import List. Import ListNotations.\n"
               "From PV Require Import Common.Cases C19.Model.\n"
               "Definition cases : list (nat * list it * list obs * bool) := [\n%s\n].\n"
               "Eval vm_compute in (bad_indices check_case_site cases).\n"
               % ";\n".join(coq_case(*c) for c in chunk))
        items.append(("mrpcases_%03d" % (i // per), txt))
    res = common.coq_run_many(items, ctx.pid)
    for name, (rc, out) in sorted(res.items()):
        bad = common.parse_eval_nat_list(out) if rc == 0 else None
        if bad is None:
            ctx.tie_broken("correspondence:" + name, out)
        elif bad:
            base = int(name.split("_")[1]) * per
            src = mrp_cases if name.startswith("mrp") else cases
            for b in bad[:5]:
                r, pat, trace, done = src[base + b]
                ctx.tie_broken("correspondence:heartbeater", json.dumps(
                    {"retries": r, "history": pat, "impl_trace": trace, "returned": done}))
    ctx.trusted += [
        "hand-written model coq/C19/Model.v of pyatv/core/protocol.py heartbeater, tied by exhaustive differential run (this file) evaluated in Coq by vm_compute",
        "harness/vloop.py virtual-time loop; scripted sender/cancellation driver in harness/c19.py",
    ]
    ctx.assumptions += [
        "asyncio delivers a task cancellation at the task's current suspension point",
        "the keep-alive sender suspends at least once before completing (true of every network sender)",
        "a task cancelled before its first step never runs (finish_func is then not called) - outside the model",
    ]


def replay(ctx, path):
    d = json.load(open(path))
    rp = d.get("replay") or {}
    from pyatv.core.protocol import HEARTBEAT_RETRIES
    site = rp.get("site")
    if site is None and "history" in rp and "retries" in rp:
        r, pat = rp["retries"], rp["history"]
        trace, done = vloop.run(drive, r, pat)
        errs = oracle(r, pat, trace, done)
        print("retries=%d history=%s impl_trace=%s returned=%s property-errors=%s" % (r, pat, trace, done, errs))
        return 1 if errs else 0
    r = HEARTBEAT_RETRIES
    if site == "mrp":
        trace = vloop.run(drive_mrp, rp["device"], rp.get("abandoned_request_before"))
        hist = rp["device"].replace("L", "F")
    elif site == "mrp-stop":
        trace = vloop.run(drive_mrp, rp["device"], None, True)
        print("device=%s trace=%s" % (rp["device"], trace))
        return 1 if ("SendAfterStop" in trace or "FailureAfterStop" in trace) else 0
    elif site == "mrp-drop":
        trace, reports, closed = vloop.run(drive_mrp_deep, rp["device"], rp["when"], False, rp.get("reassign"))
        print("device=%s when=%s trace=%s listener reports=%s" % (rp["device"], rp["when"], trace, reports))
        return 1 if ("SendAfterDrop" in trace or "FailureAfterDrop" in trace or "ReportAfterDrop" in trace or len(reports) != 1) else 0
    elif site == "ap2-late-then-stop":
        trace = vloop.run(drive_ap2_late_then_stop)
        print("trace=%s" % trace)
        return 1 if ("Failure" in trace or trace.count("Finish") != 1) else 0
    elif site == "ap2":
        trace, done = vloop.run(drive_ap2, rp["history"])
        errs = oracle(r, rp["history"], trace, done)
        print("history=%s trace=%s errors=%s" % (rp["history"], trace, errs))
        return 1 if errs else 0
    elif site == "ap2-deep":
        trace = vloop.run(drive_ap2_deep, rp["device"], bool(rp.get("encrypted")))
        hist = rp["device"].replace("E", "F").replace("o", "O")
    elif site == "mrp-deep":
        trace, reports, closed = vloop.run(drive_mrp_deep, rp["device"], None, bool(rp.get("encrypted")), rp.get("reassign"))
        hist = rp["device"].replace("x", "O")
        print("listener reports:", reports)
        if len(reports) != 1:
            return 1
    else:
        print(json.dumps(d, indent=1)[:3000])
        return 1
    errs = [e for e in oracle(r, hist, [t for t in trace if t in ("Send", "Failure", "Finish")], True) if e != "finish-not-once-on-cancel"]
    if "ActivityAfterFailure" in trace:
        errs.append("activity-after-failure")
    if any(t.startswith("ProtocolRaised") for t in trace):
        errs.append("well-formed-answer-kills-connection")
    print("device=%s trace=%s property-errors=%s" % (rp.get("device"), trace, errs))
    return 1 if errs else 0
