"""C19 - heartbeater: theorems in coq/C19, correspondence against the real coroutine."""
import asyncio
import itertools
import json

import common
import vloop

NAMES = {"S": "ISleepCancel", "O": "IOk", "F": "IFail", "C": "ICancel"}


async def drive(retries, pattern):
    """Run the real heartbeater against one scripted history; returns (trace, returned?)."""
    from pyatv.core.protocol import heartbeater

    trace = []
    entered = asyncio.Event()
    gate = {}

    async def sender(message):
        # a keep-alive counts as sent when the send phase of the iteration is over
        fut = asyncio.get_event_loop().create_future()
        gate["fut"] = fut
        entered.set()
        try:
            await fut
        finally:
            trace.append("Send")

    def finish():
        trace.append("Finish")

    def failure(exc):
        trace.append("Failure")

    task = asyncio.ensure_future(
        heartbeater("verif", sender, finish_func=finish, failure_func=failure,
                    retries=retries, interval=30))
    await asyncio.sleep(0)  # let the coroutine start (a task cancelled before its first step never runs)
    for ev in pattern:
        if task.done():
            break
        if ev == "S":
            # cancel at the first suspension point of this iteration
            task.cancel()
        else:
            # let a possible sleep elapse; wait until the send is in progress
            w = asyncio.ensure_future(entered.wait())
            await asyncio.wait([w, task], return_when=asyncio.FIRST_COMPLETED)
            if not w.done():
                w.cancel()
                break
            if ev == "O":
                gate["fut"].set_result(None)
            elif ev == "F":
                gate["fut"].set_exception(RuntimeError("no reply"))
            else:
                task.cancel()
        entered.clear()
        # let the task run up to its next suspension point
        for _ in range(4):
            await asyncio.sleep(0)
    done = task.done()
    if not done:
        task.cancel()
        n = len(trace)
        try:
            await task
        except asyncio.CancelledError:
            pass
        del trace[n:]
    else:
        try:
            task.result()
        except asyncio.CancelledError:
            pass
    return trace, done


def model_py(r, pattern):
    """Reference transcription used only to prune the enumeration tree (not the oracle)."""
    a = 0
    for i, ev in enumerate(pattern):
        if ev in "SC":
            return True
        if ev == "O":
            a = 0
        else:
            a += 1
            if a > r:
                return True
    return False


def enum_patterns(maxlen):
    """All histories up to maxlen, pruned: a history whose proper prefix already terminated
    (according to the implementation run) is not extended."""
    out = []
    frontier = [""]
    for _ in range(maxlen):
        nxt = []
        for p in frontier:
            for ev in "SOFC":
                nxt.append(p + ev)
        out.extend(nxt)
        frontier = nxt
        yield nxt


def coq_case(r, pat, trace, done):
    return "(%s, %s, %s, %s)" % (
        common.cnat(r), common.clist([NAMES[c] for c in pat]),
        common.clist(trace), common.cbool(done))


def oracle(r, pat, trace, done):
    """The property judged directly on the implementation's trace."""
    errs = []
    nf = trace.count("Failure")
    nfin = trace.count("Finish")
    # position of first cancel and of the first fatal run in the history
    a = 0
    fatal = None
    cancel = None
    for i, ev in enumerate(pat):
        if ev in "SC":
            cancel = i
            break
        if ev == "O":
            a = 0
        else:
            a += 1
            if a == r + 1:
                fatal = i
                break
    if fatal is not None:
        if nf != 1:
            errs.append("lost-not-reported-once")
        if trace and trace[-1] != "Failure":
            errs.append("activity-after-failure")
        if trace.count("Send") != fatal + 1:
            errs.append("keepalives-do-not-stop")
    else:
        if nf != 0:
            errs.append("failure-reported-while-alive-or-cancelled")
    if cancel is not None and fatal is None:
        if nfin != 1:
            errs.append("finish-not-once-on-cancel")
    return errs


def run(ctx):
    ok = ctx.build_property()
    maxlen = 9 if not ctx.thorough else 11
    if ctx.thorough:
        ctx.coqchk()
    ctx.rule = ("every history over {sleep-cancel, ok, fail, send-cancel} up to length %d for retries 0..3, "
                "enumerated as a tree (a history is extended only while the real coroutine is still running); "
                "non-trivial = the real coroutine made at least one send; distinct by (retries, history)" % maxlen)
    cases = []
    for r in range(4):
        frontier = [""]
        for depth in range(maxlen):
            nxt = []
            for p in frontier:
                for ev in "SOFC":
                    pat = p + ev
                    trace, done = vloop.run(drive, r, pat)
                    cases.append((r, pat, trace, done))
                    ctx.case((r, pat), nontrivial="Send" in trace,
                             sample={"retries": r, "history": pat, "impl_trace": trace, "returned": done})
                    ctx.count("len%d" % len(pat))
                    ctx.count("end:" + (trace[-1] if trace else "none"))
                    for e in oracle(r, pat, trace, done):
                        ctx.violation("C19:" + e, e, {"retries": r, "history": pat, "impl_trace": trace})
                    if not done:
                        nxt.append(pat)
            frontier = nxt
    ctx.exhaustive = True
    ctx.traces = len(cases)
    # model vs implementation inside Coq
    items = []
    per = 1500
    for i in range(0, len(cases), per):
        chunk = cases[i:i + per]
        txt = ("From Coq Require Import List. Import ListNotations.\n"
               "From PV Require Import Common.Cases C19.Model.\n"
               "Definition cases : list (nat * list it * list obs * bool) := [\n%s\n].\n"
               "Eval vm_compute in (bad_indices check_case cases).\n"
               % ";\n".join(coq_case(*c) for c in chunk))
        items.append(("cases_%03d" % (i // per), txt))
    res = common.coq_run_many(items, ctx.pid)
    for name, (rc, out) in sorted(res.items()):
        bad = common.parse_eval_nat_list(out) if rc == 0 else None
        if bad is None:
            ctx.tie_broken("correspondence:" + name, out)
        elif bad:
            base = int(name.split("_")[1]) * per
            for b in bad[:5]:
                r, pat, trace, done = cases[base + b]
                ctx.tie_broken("correspondence:heartbeater", json.dumps(
                    {"retries": r, "history": pat, "impl_trace": trace, "returned": done}))
    ctx.trusted += [
        "hand-written model coq/C19/Model.v of pyatv/core/protocol.py heartbeater, tied by exhaustive differential run (this file) evaluated in Coq by vm_compute",
        "harness/vloop.py virtual-time loop; scripted sender/cancellation driver in harness/c19.py",
    ]
    ctx.assumptions += [
        "asyncio delivers a task cancellation at the task's current suspension point",
        "the keep-alive sender suspends at least once before completing (true of every network sender)",
        "a task cancelled before its first step never runs (finish_func is then not called) - outside the model",
    ]


def replay(ctx, path):
    d = json.load(open(path))
    r = d["replay"]["retries"]
    pat = d["replay"]["history"]
    trace, done = vloop.run(drive, r, pat)
    errs = oracle(r, pat, trace, done)
    print("retries=%d history=%s impl_trace=%s returned=%s property-errors=%s" % (r, pat, trace, done, errs))
    return 1 if errs else 0
