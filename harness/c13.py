"""C13 - a feature reported as supported is backed by an implementation.

Theorems: coq/C13 (finite and complete over the generated tables: every set of connected
protocols - in any connect order - x every feature name; plus general lemmas about
add_mapping/get_feature for arbitrary tables).
Translator: gen(ctx) re-emits coq/C13/Gen.v from the working tree on every run (shares
collect() with harness/c01.py: the five real setup() generators run offline).
Correspondence: the real FacadeAppleTV assembled from the real interface objects each protocol
registers (their classes swapped for recording subclasses that keep the real override table
and never touch the network), all 31 subsets x all features; plus arbitrary tables with stub
Features objects.
"""
import inspect
import itertools
import json
import os
import time

import common
import vloop
import c01
from c01 import PROTOS, ICOQ, IACC, RELAYED, P, iface_cls, public_members, coq_protos, coq_str


# ----------------------------------------------------------------------- device profiles

HAP = ":".join(["aa" * 32, "bb" * 32, "cc" * 18, "dd" * 18])
LEGACY = "aabbccdd:" + "ee" * 32
COMP = HAP

# AirPlay feature-flag variants (names of AirPlayFlags members; encoded at run time)
FLAGS = {
    "none": [],
    "v1_video": ["SupportsAirPlayVideoV1", "SupportsLegacyPairing"],
    "v1_audio": ["SupportsLegacyPairing"],
    "v2_full": ["SupportsAirPlayVideoV1", "SupportsAirPlayVideoV2", "SupportsUnifiedMediaControl", "HasUnifiedAdvertiserInfo",
                "SupportsCoreUtilsPairingAndEncryption", "SupportsHKPairingAndAccessControl", "SupportsSystemPairing"],
    "v2_full_no_unified_adv": ["SupportsAirPlayVideoV1", "SupportsAirPlayVideoV2", "SupportsUnifiedMediaControl",
                               "SupportsCoreUtilsPairingAndEncryption", "SupportsHKPairingAndAccessControl"],
    "v2_audio": ["SupportsUnifiedMediaControl", "HasUnifiedAdvertiserInfo", "SupportsCoreUtilsPairingAndEncryption",
                 "SupportsSystemPairing"],
}

# name, model identifier, OS version, build, flag variant, AirPlay/RAOP credentials, Companion credentials, mrp_tunnel
PROFILES = [
    ("atv3_legacy", "AppleTV3,2", "8.4.4", "12H937", "v1_video", None, None, "auto"),
    ("atv4_tvos12_hap", "AppleTV5,3", "12.4", "16M568", "v2_full", HAP, COMP, "auto"),
    ("atv4k_tvos15_hap_tunnel_auto", "AppleTV6,2", "15.0", "19J346", "v2_full", HAP, COMP, "auto"),
    ("atv4k_tvos15_hap_tunnel_disabled", "AppleTV6,2", "15.0", "19J346", "v2_full", HAP, COMP, "disable"),
    ("atv4k_tvos15_no_credentials", "AppleTV6,2", "15.0", "19J346", "v2_full", None, None, "auto"),
    ("atv4k_gen3_tvos17_tunnel_forced", "AppleTV14,1", "17.0", "21J354", "v2_full", None, COMP, "force"),
    ("atv4k_tvos16_legacy_credentials", "AppleTV11,1", "16.0", "20J373", "v2_full", LEGACY, None, "auto"),
    ("atv4k_tvos15_no_unified_advertiser", "AppleTV6,2", "15.0", "19J346", "v2_full_no_unified_adv", HAP, COMP, "auto"),
    ("homepod_transient", "AudioAccessory1,1", "15.0", "19J346", "v2_audio", None, None, "auto"),
    ("homepod_mini_hap", "AudioAccessory5,1", "16.0", "20J373", "v2_audio", HAP, COMP, "auto"),
    ("homepod_gen2_tunnel_forced", "AudioAccessory6,1", "17.0", "21J354", "v2_audio", None, COMP, "force"),
    ("airport_express", "AirPort10,115", "7.8.1", "", "v1_audio", None, None, "auto"),
    ("third_party_speaker", "Sonos One", "1.0", "", "v2_audio", None, None, "auto"),
    ("mac", "MacBookPro16,1", "12.0", "21A559", "v2_full", None, None, "auto"),
]


# base profiles + the property variations that change what some setup() yields (filled by collect_profiles)
ACTIVE = list(PROFILES)

# values tried for every TXT key a protocol reads (None = key absent)
VALUE_POOL = [None, "0", "1", "2", "0,1,2", "1,2", "true", "false", "0x0", "0x1", "0x4", "0x200", "0x40000000",
              "0xFFFFFFFF,0x1FFFFF", "AppleTV6,2", "AudioAccessory5,1", "AirPort10,115", "9.0", "17.0", "TCP"]
VARY_BASE = "atv4k_tvos15_hap_tunnel_auto"


class RecDict(dict):
    """dict that records which keys are read"""

    def __init__(self, data, sink):
        super().__init__(data)
        self.sink = sink

    def get(self, k, d=None):
        self.sink.add(k)
        return super().get(k, d)

    def __getitem__(self, k):
        self.sink.add(k)
        return super().__getitem__(k)

    def __contains__(self, k):
        self.sink.add(k)
        return super().__contains__(k)


def profile_services(prof):
    """Per protocol: (properties, credentials) carrying the profile's model / OS / flags in every
    property the code reads them from (model, am, rpmd; osvers, ov, systembuildversion; features, ft)."""
    from pyatv.protocols.airplay.utils import AirPlayFlags
    name, model, osv, build, fl, cred, comp, tunnel = prof[:8]
    override = prof[8] if len(prof) > 8 else {}
    v = 0
    for n in FLAGS[fl]:
        v |= int(getattr(AirPlayFlags, n))
    feat = "0x%X,0x%X" % (v & 0xFFFFFFFF, v >> 32) if v >> 32 else "0x%X" % v
    mac = "AA:BB:CC:DD:EE:FF"
    out = {
        "MRP": ({"systembuildversion": build, "macaddress": mac, "allowpairing": "YES", "name": name, "modelname": model}, None),
        "DMAP": ({"ctln": name, "machine name": name, "hg": "00000000-1234-5678-9abc-def012345678"}, "0x0000000000000001"),
        "Companion": ({"rpmd": model, "rpfl": "0x36782", "rpvr": "195.2"}, comp),
        "AirPlay": ({"model": model, "osvers": osv, "features": feat, "deviceid": mac, "acl": "0", "psi": "P-1", "flags": "0x4"}, cred),
        "RAOP": ({"am": model, "ov": osv, "ft": feat, "et": "0,3,5", "tp": "UDP", "sf": "0x4", "vs": "366.0"}, cred),
    }
    for p, kv in override.items():
        for k, val in kv.items():
            if val is None:
                out[p][0].pop(k, None)
            else:
                out[p][0][k] = val
    return out


async def profile_units(prof, record=None, only_src=None):
    """Every SetupData yielded by every protocol's real setup() under the profile.
    Returns ([unit dict with live SetupData], cleanup).  record: {protocol: set} collects the property keys read."""
    from ipaddress import IPv4Address
    from pyatv import conf
    from pyatv.core import MutableService, create_core
    from pyatv.protocols import PROTOCOLS
    from pyatv.settings import Settings, MrpTunnel
    svcs = profile_services(prof)
    units, cores = [], []
    for src in PROTOS:
        if only_src and src != only_src:
            continue
        props, cred = svcs[src]
        svc = MutableService("verif-id", P(src), 1234, props, credentials=cred)
        if record is not None:
            svc._properties = RecDict(svc._properties, record.setdefault(src, set()))
        cfg = conf.AppleTV(IPv4Address("127.0.0.1"), prof[0])
        cfg.add_service(svc)
        settings = Settings()
        settings.protocols.airplay.mrp_tunnel = MrpTunnel(prof[7])
        core = await create_core(cfg, svc, settings=settings)
        cores.append(core)
        for sd in PROTOCOLS[P(src)].setup(core):
            units.append({"id": len(units), "src": src, "proto": sd.protocol.name, "sd": sd})

    async def cleanup():
        for c in cores:
            try:
                await c.session_manager.close()
            except Exception:  # noqa
                pass
    return units, cleanup


def unit_table(u):
    """The static table of one unit: registered interfaces with the members their class overrides,
    feature set, truthiness / subclass facts."""
    sd = u["sd"]
    ifs, truthy, sub = {}, True, True
    for k, inst in sd.interfaces.items():
        name = k.__name__
        if name not in ICOQ:
            raise ValueError("%s registers unknown interface %s" % (u["proto"], name))
        truthy = truthy and bool(inst)
        sub = sub and isinstance(inst, k)
        ifs[name] = [m for m, _ in public_members(k) if c01.overrides_mro(type(inst), k, m)]
    return {"id": u["id"], "src": u["src"], "proto": u["proto"], "ifaces": ifs,
            "features": sorted(f.name for f in sd.features), "truthy": truthy, "subclass": sub}


async def discover_keys():
    """The TXT keys each protocol reads: recorded through a recording mapping while its setup() runs (and its
    Features object answers every feature), plus the string keys its package looks up in a `properties` mapping."""
    import re
    from pyatv.const import FeatureName
    from pyatv import interface
    rec = {}
    base = [p for p in PROFILES if p[0] == VARY_BASE][0]
    units, cleanup = await profile_units(base, rec)
    try:
        for u in units:
            f = u["sd"].interfaces.get(interface.Features)
            for fn in FeatureName:
                try:
                    f.get_feature(fn)
                except Exception:  # noqa
                    pass
    finally:
        await cleanup()
    pat = re.compile(r"""properties(?:\.get\(|\[)\s*["']([^"']+)["']|["']([^"']+)["']\s+in\s+[\w.]*properties""")
    for p in PROTOS:
        d = os.path.join(common.REPO, "pyatv", "protocols", p.lower())
        for root, _, files in os.walk(d):
            for fn in files:
                if fn.endswith(".py"):
                    for m in pat.finditer(open(os.path.join(root, fn)).read()):
                        rec.setdefault(p, set()).add((m.group(1) or m.group(2)).lower() if p in ("MRP", "DMAP") else (m.group(1) or m.group(2)))
    return {p: sorted(k for k in rec.get(p, ()) if isinstance(k, str) and len(k) < 40) for p in PROTOS}


async def collect_profiles():
    """Tables of the base profiles, plus one profile for every single-key variation of the service properties
    (every key a protocol reads x VALUE_POOL) under which some setup() yields something ELSE than under any
    profile kept so far.  Sets ACTIVE."""
    c01.quiet()
    out, sigs = [], set()
    del ACTIVE[:]

    async def tables(prof, only_src=None):
        units, cleanup = await profile_units(prof, None, only_src)
        try:
            return [unit_table(u) for u in units]
        finally:
            await cleanup()
    for prof in PROFILES:
        tb = await tables(prof)
        out.append({"name": prof[0], "units": tb})
        sigs.add(json.dumps(tb, sort_keys=True))
        ACTIVE.append(prof)
    keys = await discover_keys()
    base = [p for p in PROFILES if p[0] == VARY_BASE][0]
    tried = refused = 0
    part_sigs, base_parts_done = {}, {}
    for p in PROTOS:
        for k in keys[p]:
            for val in VALUE_POOL:
                tried += 1
                prof = tuple(base[:8]) + ({p: {k: val}},)
                prof = ("%s~%s.%s=%s" % (base[0], p, k, "absent" if val is None else val),) + prof[1:]
                try:
                    part = await tables(prof, p)          # only the varied protocol's setup() can differ
                except Exception:  # noqa  the value is refused by the set-up code: not a device this check is about
                    refused += 1
                    continue
                psig = json.dumps([dict(u, id=0) for u in part], sort_keys=True)
                if psig in part_sigs.setdefault(p, set()):
                    continue
                part_sigs[p].add(psig)
                if not base_parts_done.get(p):
                    base_parts_done[p] = True       # the first one seen is compared with the base below anyway
                try:
                    tb = await tables(prof)
                except Exception:  # noqa
                    refused += 1
                    continue
                sg = json.dumps(tb, sort_keys=True)
                if sg in sigs or len(ACTIVE) >= 60:
                    continue
                sigs.add(sg)
                out.append({"name": prof[0].replace('"', ""), "units": tb})
                ACTIVE.append(prof)
    collect_profiles.info = {"keys_read": keys, "variations_tried": tried, "refused_by_setup": refused,
                             "kept_as_profiles": [p[0] for p in ACTIVE[len(PROFILES):]]}
    return out


def emit_c13(t):
    L = []
    A = L.append
    A("(* GENERATED by harness/c13.py gen() from the working tree of pyatv - do not edit; re-emitted on every run *)")
    A("From Coq Require Import List String.")
    A("From PV Require Import C01.Model C13.Model.")
    A("Import ListNotations.")
    A("")
    A("(* pyatv/core/facade.py DEFAULT_PRIORITIES as parsed (ast) and as imported (rt) *)")
    A("Definition default_ast : list proto := %s." % coq_protos(t["default_ast"]))
    A("Definition default_rt : list proto := %s." % coq_protos(t["default_rt"]))
    A("")
    A("(* pyatv.const.FeatureName: value, name *)")
    A("Definition all_features : list (feature * string) := [")
    A(";\n".join("  (%d, %s%%string)" % (f["index"], coq_str(f["name"])) for f in t["features"]))
    A("].")
    pu = [f["index"] for f in t["features"] if f["name"] == "PushUpdates"]
    if len(pu) != 1:
        raise ValueError("FeatureName.PushUpdates not found")
    A("Definition push_updates : feature := %d." % pu[0])
    A("")
    A("(* interface members carrying the feature's @feature decorator (members of Playing stand for Metadata.playing) *)")
    A("Definition feature_members : list (feature * list (iface * string)) := [")
    A(";\n".join("  (%d, [%s])" % (f["index"], "; ".join("(%s, %s%%string)" % (ICOQ[i], coq_str(m)) for i, m in dict.fromkeys(map(tuple, f["members"]))))
                 for f in t["features"]))
    A("].")
    A("")
    idx = {f["name"]: f["index"] for f in t["features"]}
    A("(* device profiles: every SetupData yielded by every protocol's real setup() under that profile")
    A("   (service properties / credentials / settings as listed in harness/c13.py PROFILES) *)")
    A("Definition profiles : list (string * list unit) := [")
    ps = []
    for pr in t["profiles"]:
        us = []
        for u in pr["units"]:
            us.append("     {| u_id := %d; u_src := %s; u_proto := %s;\n        u_feats := [%s];\n        u_impl := [%s];\n        u_ok := %s |}" % (
                u["id"], u["src"], u["proto"], "; ".join(str(idx[n]) for n in u["features"]),
                ";\n                   ".join("(%s, [%s])" % (ICOQ[i], "; ".join(coq_str(m) + "%string" for m in ms)) for i, ms in u["ifaces"].items()),
                common.cbool(u["truthy"] and u["subclass"])))
        ps.append("  (%s%%string, [\n%s])" % (coq_str(pr["name"]), ";\n".join(us)))
    A(";\n".join(ps))
    A("].")
    return "\n".join(L) + "\n"


def gen(ctx):
    t = vloop.run(c01.collect, False)
    t["profiles"] = vloop.run(collect_profiles)
    c01.write_if_changed(os.path.join(common.COQ, "C13", "Gen.v"), emit_c13(t))
    return t


# ----------------------------------------------------------------------- real objects, recorded

def swap_class(inst, base, proto, iface, log):
    """Replace the class of a real interface object by a subclass that keeps the override table of
    the real class (same members overridden, judged along the MRO) but records instead of talking to
    a device.  The object keeps its real state."""
    cls = type(inst)
    ns = {"_hit": c01._hit}
    for m, kind in public_members(base):
        if c01.overrides_mro(cls, base, m):
            real = getattr(cls, m, None)
            if kind == "prop" and isinstance(real, property) and m != "volume":
                # a recorded property still answers from the object's REAL state (a freshly set-up Companion
                # object reports PowerState.Unknown, ...): routing that depends on such a value is exercised
                def mk(m=m, real=real):
                    def fget(self):
                        self._hit(m)
                        try:
                            return real.fget(self)
                        except Exception:  # noqa
                            return None
                    return property(fget)
                ns[m] = mk()
            else:
                ns[m] = c01._mk_member(m, kind)
    rec = type("Rec" + cls.__name__, (cls,), ns)
    inst.__class__ = rec
    inst._proto, inst._iface, inst._log = proto, iface, log


def swap_features(inst, proto, log):
    cls = type(inst)

    def get_feature(self, feature_name):
        log.append((proto, "Features", feature_name.name))
        return cls.get_feature(self, feature_name)
    inst.__class__ = type("Rec" + cls.__name__, (cls,), {"get_feature": get_feature})


async def offline(sd, interfaces=None, ok=True):
    async def _connect():
        return ok
    return sd._replace(connect=_connect, close=lambda: set(), device_info=lambda: {},
                       interfaces=interfaces if interfaces is not None else sd.interfaces)


def fres_of(asked, state):
    if len(asked) == 1:
        return "FAsk " + asked[0]
    if not asked and state == "Available":
        return "FAvailable"
    if not asked and state == "Unsupported":
        return "FUnsupported"
    return None


PYATV_ORDER = ["AirPlay", "Companion", "DMAP", "MRP", "RAOP"]      # order of pyatv.protocols.PROTOCOLS


def profile_orders(units, rng, full):
    """Lists of [unit id, what its connect() returns] to add to the device object.  full: every non-empty set of
    configured services (31), each adding everything its setup() yielded - in the order pyatv.connect adds them or
    shuffled -, the same with the SetupData a setup() yields for ANOTHER protocol (MRP tunnel, embedded RAOP) not
    connecting, with one random SetupData not connecting, plus arbitrary sub-lists of the yielded SetupData with
    duplicates and random connect results.  Otherwise a small sample."""
    by_src = {p: [u["id"] for u in units if u["src"] == p] for p in PROTOS}
    foreign = {u["id"] for u in units if u["src"] != u["proto"]}
    orders = []
    for n, S in enumerate(c01.subsets()):
        srcs = [p for p in PYATV_ORDER if p in S]
        if n % 2:
            rng.shuffle(srcs)
        ids = [i for p in srcs for i in by_src[p]]
        if not ids:
            continue
        orders.append([(i, True) for i in ids])
        if any(i in foreign for i in ids) and (full == "all" or n % 2 == 0):
            orders.append([(i, i not in foreign) for i in ids])
        if n % (3 if full == "all" else 6) == 0:
            k = rng.choice(ids)
            orders.append([(i, i != k) for i in ids])
    allids = [u["id"] for u in units]
    for _ in range(12):
        ids = rng.sample(allids, rng.randint(1, len(allids)))
        if rng.random() < 0.3:
            ids.append(rng.choice(ids))
        orders.append([(i, rng.random() > 0.2) for i in ids])
    if not full:
        orders = rng.sample(orders, 6)
    return [[list(x) for x in o] for o in dict.fromkeys(tuple(o) for o in orders)]


STREAM = ["Audio", "Metadata", "PushUpdater", "RemoteControl"]     # what RAOP takes over during stream_file


ALL_IFACES = [n for n, _, _ in c01.IFACES]      # every key of FacadeAppleTV._interfaces, Features included


async def discover_takeovers():
    """What the real streaming entry points take over, asked from the code itself: every Stream object the
    real setup() generators register is given a recording core.takeover (which raises) and its
    stream_file / play_url is started.  Returns [(protocol, [interface names])]."""
    import asyncio
    from pyatv import interface
    c01.quiet()

    class Stop(Exception):
        pass
    rec = []
    prof = [p for p in PROFILES if p[0] == "atv4k_tvos15_hap_tunnel_auto"][0]
    units, cleanup = await profile_units(prof)
    try:
        for u in units:
            st = u["sd"].interfaces.get(interface.Stream)
            if st is None or not hasattr(st, "core"):
                continue

            def tk(*ifs, _p=u["proto"]):
                rec.append((_p, [i.__name__ for i in ifs if getattr(i, "__name__", None) in ICOQ]))
                raise Stop()
            st.core.takeover = tk
            for name, args in (("stream_file", ("verif-no-such-file",)), ("play_url", ("http://127.0.0.1:9/x",))):
                if c01.overrides_mro(type(st), interface.Stream, name):
                    try:
                        await asyncio.wait_for(getattr(st, name)(*args), 5)
                    except BaseException:  # noqa
                        pass
    finally:
        await cleanup()
    out = []
    for r in rec:
        if r[1] and r not in out:
            out.append(r)
    return out


def holder_scenarios(rng, thorough, discovered, protos, mode="real"):
    """Takeover states under which the features are queried and the members invoked: none; what the real
    stream_file / play_url take over (asked from the code, see discover_takeovers; at least RAOP holding
    Audio/Metadata/PushUpdater/RemoteControl and AirPlay holding RemoteControl); every set-up protocol
    holding EVERY interface of the device object, Features included."""
    sc = [None]
    for d in list(discovered) + [("RAOP", STREAM), ("AirPlay", ["RemoteControl"])]:
        d = (d[0], list(d[1]))
        if d not in sc:
            sc.append(d)
    if thorough:
        sc += [(p, list(ALL_IFACES)) for p in PROTOS]
    elif mode == "real":          # quick tier: with the real Features objects only
        sc += [(p, list(ALL_IFACES)) for p in protos]
    return sc


async def prepare_units(mode, pidx, log):
    """The real objects of one profile, classes swapped for recorders.  Returns (units, cleanup, off) where
    off(id, ok) is the unit's SetupData made offline with a connect() that returns `ok`."""
    from pyatv import interface
    from pyatv.const import FeatureName, FeatureState
    prof = ACTIVE[pidx]
    units, cleanup = await profile_units(prof)
    ifs_of = {}
    for u in units:
        sd, p = u["sd"], u["proto"]
        ifs = dict(sd.interfaces)
        for k, inst in list(ifs.items()):
            if k is interface.Features:
                if mode == "real":
                    swap_features(inst, p, log)
                else:
                    ifs[k] = c01.make_features({f.name: FeatureState.Available for f in FeatureName}, log, p)
            else:
                swap_class(inst, k, p, k.__name__, log)
        ifs_of[u["id"]] = ifs
    cache = {}

    async def off(i, ok=True):
        if (i, ok) not in cache:
            cache[(i, ok)] = await offline([u for u in units if u["id"] == i][0]["sd"], ifs_of[i], ok)
        return cache[(i, ok)]
    return units, cleanup, off


def norm_order(order):
    """[id | [id, ok]] -> [[id, ok]]"""
    return [[x, True] if isinstance(x, int) else [x[0], bool(x[1])] for x in order]


async def survey(t, atv, log, meta, sc, only_features=None, only_kwargs=None, variants=True, light=False):
    """Under takeover scenario `sc`: every reporting entry point of the features interface for every feature name,
    then every member of every reported feature is INVOKED through the device object.  Returns the records."""
    from pyatv.const import FeatureName, FeatureState
    out = []
    toks, refused = [], []
    if sc:
        try:
            toks.append(atv.takeover(P(sc[0]), *[iface_cls(i) for i in sc[1]]))
        except Exception as ex:  # noqa  an observation, not a harness failure: take what is granted
            refused.append("%s:%s" % ("+".join(sc[1]), type(ex).__name__))
            for i in sc[1]:
                try:
                    toks.append(atv.takeover(P(sc[0]), iface_cls(i)))
                except Exception as ex2:  # noqa
                    refused.append("%s:%s" % (i, type(ex2).__name__))
    try:
        gate = atv.features.in_state(FeatureState.Available, FeatureName.PlayUrl)
    except Exception:  # noqa
        gate = False
    eps = {}
    for label, call in (("all_features()", lambda: atv.features.all_features()),
                        ("all_features(include_unsupported=True)", lambda: atv.features.all_features(include_unsupported=True))):
        try:
            eps[label] = {k.name: v.state.name for k, v in call().items()}
        except Exception as ex:  # noqa  an observation
            eps[label] = "raised " + type(ex).__name__
    for f in t["features"]:
        if only_features and f["name"] not in only_features:
            continue
        fn = getattr(FeatureName, f["name"])
        del log[:]
        try:
            g = atv.features.get_feature(fn).state.name
        except Exception as ex:  # noqa
            g = "raised " + type(ex).__name__
        asked = [e[0] for e in log if e[1] == "Features"]
        other = {}
        a0, a1 = eps["all_features()"], eps["all_features(include_unsupported=True)"]
        other["all_features()"] = a0 if isinstance(a0, str) else a0.get(f["name"], "Unsupported")
        other["all_features(include_unsupported=True)"] = a1 if isinstance(a1, str) else a1.get(f["name"], "MISSING")
        for st in ([] if light else FeatureState):
            try:
                if atv.features.in_state(st, fn) != (st.name == g):
                    other["in_state(%s)" % st.name] = st.name if st.name != g else "not " + g
                if atv.features.in_state([st], fn) != (st.name == g):
                    other["in_state([%s])" % st.name] = st.name if st.name != g else "not " + g
            except Exception as ex:  # noqa
                other["in_state(%s)" % st.name] = "raised " + type(ex).__name__
        disagree = {k: v for k, v in other.items() if v != g}
        # the feature counts as reported if ANY entry point reports it in a state other than Unsupported
        via, eff_state = "get_feature", g
        if g == "Unsupported" or g.startswith("raised"):
            eff_state = "Unsupported"
            for k, v in disagree.items():
                if v in [x.name for x in FeatureState] and v != "Unsupported":
                    via, eff_state = k, v
                    break
        rec = dict(meta, holder=[sc[0], list(sc[1])] if sc else None, takeover_refused=refused,
                   feature=f["name"], index=f["index"], state=eff_state, get_feature=g, reported_via=via,
                   entry_points_disagree=disagree, asked=asked, gate=gate, calls=[])
        out.append(rec)
        if eff_state == "Unsupported":
            continue
        for (i, m) in dict.fromkeys(map(tuple, f["members"])):
            base = iface_cls(i)
            kind = dict(public_members(base))[m]
            kws = [{}] if (kind == "prop" or not variants) else c01.arg_variants(getattr(base, m))
            if only_kwargs is not None:
                kws = [only_kwargs] if kind != "prop" else [{}]
            for kw in kws:
                del log[:]
                exc = await c01.invoke(getattr(atv, IACC[i]), m, kind, base, kw)
                called = [e[0] for e in log if e[1] != "Features"]
                relay_ok = None
                if exc == "NotSupportedError" and not called:
                    # does the relayer find an implementation when asked directly?
                    try:
                        atv._interfaces[base].relay(m)
                        relay_ok = True
                    except Exception as ex:  # noqa
                        relay_ok = type(ex).__name__
                rec["calls"].append({"iface": i, "member": m, "arguments": c01.show_kwargs(kw),
                                     "holder": rec["holder"], "take": c01.holder_of(atv, i),
                                     "called": called, "exc": exc, "relay": relay_ok})
    for x in toks:
        x()
    return out


async def drive_real(t, mode, pidx, orders, only_features=None, scenarios=(None,), only_kwargs=None):
    """One device profile.  mode 'real': the real Features objects answer; mode 'worst': Features stubs that
    report every feature as Available (the over-approximation of the model made concrete).  For every order
    (list of unit ids, or [id, what connect() returns]) a device object is assembled from the real objects by the
    real FacadeAppleTV.connect, every feature is asked and every member of a reported feature is called."""
    c01.quiet()
    c01.string_kinds()          # the local files used as argument values exist
    log = []
    prof = ACTIVE[pidx]
    units, cleanup, off = await prepare_units(mode, pidx, log)
    out = []
    try:
        label_ = {u["id"]: "%s>%s" % (u["src"], u["proto"]) for u in units}
        proto_ = {u["id"]: u["proto"] for u in units}
        for order in orders:
            order = norm_order(order)
            atv = await c01.build_facade([await off(i, ok) for i, ok in order])
            connected = list(dict.fromkeys(proto_[i] for i, ok in order if ok))
            meta = {"profile": prof[0], "pidx": pidx, "order": order,
                    "added": [label_[i] + ("" if ok else " (connect() returned False)") for i, ok in order],
                    "connected": connected}
            scs = scenarios(connected) if callable(scenarios) else scenarios
            failing = any(not ok for _, ok in order)
            if failing and callable(scenarios):
                scs = [None]          # connect outcomes are a dimension of their own: no takeover on top
            for sc in scs:
                out += await survey(t, atv, log, meta, sc, only_features, only_kwargs, variants=not failing or only_kwargs is not None,
                                    light=failing)
    finally:
        await cleanup()
    return out


def usage_histories(rng, thorough):
    """Histories of public member calls (interface, member) after which the device object is surveyed again:
    every member once as a history of length 1, plus random histories of length 2-3."""
    mem = [(i, m) for i in RELAYED for m, _ in public_members(iface_cls(i))]
    hs = [[x] for x in mem]
    for _ in range(40 if not thorough else 400):
        hs.append([rng.choice(mem) for _ in range(rng.choice([2, 3]))])
    return hs


async def drive_usage(t, pidx, order, histories):
    """Multi-step use of ONE device object: after every member call of the history (placeholder arguments) every
    feature is queried again and every member of every reported feature is invoked again."""
    c01.quiet()
    c01.string_kinds()
    log = []
    prof = ACTIVE[pidx]
    units, cleanup, off = await prepare_units("real", pidx, log)
    out = []
    try:
        label_ = {u["id"]: "%s>%s" % (u["src"], u["proto"]) for u in units}
        order = norm_order(order)
        for h in histories:
            atv = await c01.build_facade([await off(i, ok) for i, ok in order])
            done = []
            for (i, m) in h:
                base = iface_cls(i)
                exc = await c01.invoke(getattr(atv, IACC[i]), m, dict(public_members(base))[m], base)
                done.append(["%s.%s" % (i, m), exc])
                meta = {"profile": prof[0], "pidx": pidx, "order": order, "added": [label_[x] for x, _ in order],
                        "connected": list(dict.fromkeys(u["proto"] for x, ok in order for u in units if u["id"] == x and ok)),
                        "after": [list(x) for x in done], "history": [list(x) for x in h[:len(done)]]}
                out += await survey(t, atv, log, meta, None, None, None, variants=False, light=True)
    finally:
        await cleanup()
    return out


def swap_stream(inst, proto, log):
    """Stream objects keep their REAL members (they take over through core.takeover before doing anything
    else); entering one is recorded."""
    from pyatv import interface
    cls = type(inst)
    ns = {}
    for m, kind in public_members(interface.Stream):
        if not c01.overrides_mro(cls, interface.Stream, m):
            continue
        real = getattr(cls, m)
        if kind == "async":
            def mk(real=real, m=m):
                async def f(self, *a, **k):
                    log.append((proto, "Stream", m))
                    return await real(self, *a, **k)
                return f
        else:
            def mk(real=real, m=m):
                def f(self, *a, **k):
                    log.append((proto, "Stream", m))
                    return real(self, *a, **k)
                return f
        ns[m] = mk()
    inst.__class__ = type("Bound" + cls.__name__, (cls,), ns)


async def drive_bound(t, pidx, service_sets, only_features=None):
    """The device object assembled the way pyatv.connect() does it - ONE configuration holding all services of
    the set, every protocol's setup() given core.takeover = partial(atv.takeover, <its protocol>) - from the real
    objects under one profile.  Stream members run their REAL code (takeover first, then the network, which is
    not there); everything else records.  Members of reported features of the Stream interface are invoked:
    any failure but NotSupportedError is fine."""
    import asyncio
    from functools import partial
    from ipaddress import IPv4Address
    from pyatv import conf, interface
    from pyatv.const import FeatureName, FeatureState
    from pyatv.core import CoreStateDispatcher, MutableService, create_core
    from pyatv.core.facade import FacadeAppleTV
    from pyatv.protocols import PROTOCOLS
    from pyatv.settings import Settings, MrpTunnel
    c01.quiet()
    prof = ACTIVE[pidx]
    svcs = profile_services(prof)
    out = []
    for S in service_sets:
        log, tklog, cores = [], [], []
        srcs = [p for p in PYATV_ORDER if p in S]
        rec0 = {"profile": prof[0], "pidx": pidx, "services": srcs, "mode": "bound"}
        try:
            cfg = conf.AppleTV(IPv4Address("127.0.0.1"), prof[0])
            for src in srcs:
                props, cred = svcs[src]
                cfg.add_service(MutableService("verif-id", P(src), 9, props, credentials=cred))
            settings = Settings()
            settings.protocols.airplay.mrp_tunnel = MrpTunnel(prof[7])
            disp = CoreStateDispatcher()
            atv = FacadeAppleTV(cfg, None, disp, settings)
            real_takeover = atv.takeover

            def rec_takeover(protocol, *ifs):
                tklog.append([protocol.name, [getattr(i, "__name__", str(i)) for i in ifs]])
                return real_takeover(protocol, *ifs)
            added = []
            for src in srcs:
                core = await create_core(cfg, cfg.get_service(P(src)), settings=settings, device_listener=atv,
                                         core_dispatcher=disp, takeover_method=partial(rec_takeover, P(src)))
                cores.append(core)
                for sd in PROTOCOLS[P(src)].setup(core):
                    p = sd.protocol.name
                    for k, inst in sd.interfaces.items():
                        if k is interface.Features:
                            swap_features(inst, p, log)
                        elif k is interface.Stream:
                            swap_stream(inst, p, log)
                        else:
                            swap_class(inst, k, p, k.__name__, log)
                    atv.add_protocol(await offline(sd))
                    added.append("%s>%s" % (src, p))
            await atv.connect()
        except Exception as ex:  # noqa  the real set-up code failed: an observation
            out.append(dict(rec0, setup_exception="%s: %s" % (type(ex).__name__, ex), calls=[], feature=None, state=None,
                            added=[], holder=None, gate=None, asked=[]))
            for c in cores:
                try:
                    await c.session_manager.close()
                except Exception:  # noqa
                    pass
            continue
        gate = atv.features.in_state(FeatureState.Available, FeatureName.PlayUrl)
        for f in t["features"]:
            mems = [(i, m) for (i, m) in dict.fromkeys(map(tuple, f["members"])) if i == "Stream"]
            if not mems or (only_features and f["name"] not in only_features):
                continue
            del log[:]
            info = atv.features.get_feature(getattr(FeatureName, f["name"]))
            rec = dict(rec0, added=added, holder=None, feature=f["name"], index=f["index"], state=info.state.name,
                       asked=[e[0] for e in log if e[1] == "Features"], gate=gate, calls=[])
            out.append(rec)
            if info.state == FeatureState.Unsupported:
                continue
            for (i, m) in mems:
                base = iface_cls(i)
                kind = dict(public_members(base))[m]
                del log[:]
                del tklog[:]
                try:
                    exc = await asyncio.wait_for(c01.invoke(getattr(atv, IACC[i]), m, kind, base), 5)
                except asyncio.TimeoutError:
                    exc = "TimeoutError"
                except BaseException as ex:  # noqa
                    exc = type(ex).__name__
                called = [e[0] for e in log if e[1] != "Features"]
                relay_ok = None
                if exc == "NotSupportedError" and not called:
                    try:
                        atv._interfaces[base].relay(m)
                        relay_ok = True
                    except Exception as ex:  # noqa
                        relay_ok = type(ex).__name__
                rec["calls"].append({"iface": i, "member": m, "arguments": {}, "holder": None, "take": c01.holder_of(atv, i),
                                     "called": called, "exc": exc, "relay": relay_ok, "takeovers_requested": list(tklog),
                                     "takeover_left": {x: c01.holder_of(atv, x) for x in ALL_IFACES if c01.holder_of(atv, x)}})
        for c in cores:
            try:
                await c.session_manager.close()
            except Exception:  # noqa
                pass
    return out


def judge(rec):
    """The property text on one (profile, added SetupData, feature): reported => invoking every member the
    feature stands for reaches an implementation, under every takeover holder; NotSupportedError raised by
    the facade / relayer is the violation.  Returns [(key, what, call)]."""
    bad = []
    conn = rec.get("connected")
    if conn is not None and any(p not in conn for p in rec.get("asked", [])):
        bad.append(("C13:connect:not-connected-protocol-reports:%s" % rec["feature"],
                    "device profile %s, SetupData added %s: the feature query for %s is answered (%s) by %s, whose connect() returned False"
                    % (rec["profile"], rec["added"], rec["feature"], rec.get("get_feature"), rec["asked"]), None))
    for c in rec["calls"]:
        where = "device profile %s, SetupData added %s%s, takeover %s: features.%s reports %s as %s; arguments %s" % (
            rec["profile"], rec["added"], (", after calling %s" % rec["after"]) if rec.get("after") else "", c["holder"],
            rec.get("reported_via", "get_feature"), rec["feature"], rec["state"], c.get("arguments") or "default")
        if conn is not None and any(p not in conn for p in c["called"]):
            bad.append(("C13:connect:not-connected-protocol-executes:%s" % rec["feature"],
                        "%s; %s.%s is executed by %s, whose connect() returned False" % (where, c["iface"], c["member"], c["called"]), c))
            continue
        if c["exc"] == "NotSupportedError" and c["called"]:
            bad.append(("C13:invoke:not-supported:%s" % rec["feature"],
                        "%s; %s.%s was relayed to %s, whose implementation was entered, but the call failed with NotSupportedError (takeovers requested: %s)"
                        % (where, c["iface"], c["member"], c["called"], c.get("takeovers_requested")), c))
        elif c["exc"] == "NotSupportedError" and not c["called"]:
            gated = (c["iface"], c["member"]) == ("Stream", "play_url") and not rec["gate"]
            if c["relay"] is True and gated:
                continue       # documented feature gate of play_url: PlayUrl is not Available; an implementation exists
            if c["relay"] is True:
                bad.append(("C13:invoke:not-supported:%s" % rec["feature"],
                            "%s and a set-up protocol implements %s.%s, but calling it through the device object fails with NotSupportedError"
                            % (where, c["iface"], c["member"]), c))
            else:
                bad.append(("C13:not-backed:%s" % rec["feature"],
                            "%s, but %s.%s fails with NotSupportedError: no set-up protocol implements it"
                            % (where, c["iface"], c["member"]), c))
        elif c["exc"] is None and not c["called"] and not (c["iface"] == "PushUpdater"):
            bad.append(("C13:invoke:not-routed:%s" % rec["feature"], "%s but %s.%s was executed by nobody" % (where, c["iface"], c["member"]), c))
        elif c["exc"] not in (None, "NotSupportedError") and rec.get("mode") != "bound":
            bad.append(("C13:invoke:unexpected-exception:%s" % rec["feature"], "%s but %s.%s raised %s" % (where, c["iface"], c["member"], c["exc"]), c))
    return bad


# ----------------------------------------------------------------------- arbitrary tables

async def drive_random(rng_state, n, feats_all):
    """Random tables: which protocol lists the feature, registers a (truthy/falsy/no) Features object, a
    PushUpdater; random connect order with duplicates (the duplicate carries a different table and must be
    ignored).  One feature per case (PushUpdates often)."""
    import random
    from pyatv.const import FeatureName, FeatureState
    rng = random.Random(rng_state)
    c01.quiet()
    out = []
    names = [f["name"] for f in feats_all]
    for _ in range(n):
        f = "PushUpdates" if rng.random() < 0.35 else rng.choice(names)
        order = [rng.choice(PROTOS) for _ in range(rng.randint(1, 6))]
        log = []
        first = {}
        setups = []
        for p in order:
            lists = rng.random() < 0.6
            fk = rng.choice(["yes", "yes", "yes", "falsy", "none"])
            push = rng.random() < 0.4
            ifs = {}
            if fk != "none":
                st = {n_: rng.choice([FeatureState.Available, FeatureState.Unavailable, FeatureState.Unknown,
                                      FeatureState.Unsupported]) for n_ in names}
                ifs["Features"] = c01.make_features(st, log, p, falsy=(fk == "falsy"))
            if push:
                ifs["PushUpdater"] = c01.make_stub("PushUpdater", p, ["active", "start", "stop"], log)
            others = [x for x in names if x != f and rng.random() < 0.2]
            setups.append(c01.stub_setup(p, ifs, ([f] if lists else []) + others))
            if p not in first:
                first[p] = (lists, fk == "yes", push)
        atv = await c01.build_facade(setups)
        del log[:]
        info = atv.features.get_feature(getattr(FeatureName, f))
        asked = [e[0] for e in log if e[1] == "Features"]
        out.append({"feature": f, "order": order, "bits": first, "asked": asked, "state": info.state.name})
    return out


HEADER = ("From Coq Require Import List String. Import ListNotations.\n"
          "From PV Require Import Common.Cases C01.Model C13.Model C13.Gen C13.Check.\n")


def run(ctx):
    c01.quiet()
    try:
        t = gen(ctx)
    except Exception:  # noqa  fail closed
        import traceback
        ctx.tie_broken("translator", traceback.format_exc())
        t = None
    ctx.note("translator done %.1fs" % (time.time() - ctx.t0))
    ok = ctx.build_property()
    ctx.note("build done %.1fs" % (time.time() - ctx.t0))
    if ctx.thorough:
        ctx.coqchk()
    ctx.rule = ("(a) per device profile (14 base profiles: service properties / credentials / tunnel setting; plus every single-key "
                "variation - each TXT key a protocol reads x 20 values incl. absent - that changes what a setup() yields): real FacadeAppleTV assembled "
                "from the objects every SetupData yielded by the five real setup() generators registers (classes swapped for "
                "recording subclasses with the same override table); orders = all 31 sets of configured services (in the "
                "order pyatv.connect adds them, or shuffled) + random sub-lists of the yielded SetupData with duplicates; "
                "quick tier: complete for one profile per distinct table set, 5 sampled orders for the others; x every "
                "FeatureName: answer of features.get_feature - and of all_features() with both values of include_unsupported and "
                "in_state(state | [state], name) for every state, which must all agree with it -, and every member of every reported feature called through the "
                "device object; once with the real Features objects, once with Features stubs reporting everything "
                "Available (worst case of the dynamic states); SetupData whose connect() returns False must contribute nothing; "
                "(a3) multi-step use of one device object: after every public member call (each member once, plus random "
                "histories of length 2-3) all features are queried and all reported members invoked again; (a2) per profile, sets of configured services assembled the way "
                "pyatv.connect does (one configuration, core.takeover = partial(atv.takeover, protocol)), Stream members running "
                "their real code: stream_file / play_url invoked when reported; takeover scenarios for the invocations: none, RAOP holding "
                "Audio/Metadata/PushUpdater/RemoteControl (stream_file), AirPlay holding RemoteControl (play_url), a protocol "
                "holding every interface (thorough: each protocol); (b) random tables "
                "with stub Features/PushUpdater objects incl. falsy and missing Features objects and duplicate protocols. "
                "non-trivial = the feature is reported (state other than Unsupported); distinct by canonical case")
    if t is None:
        return
    idx = {f["name"]: f["index"] for f in t["features"]}
    # ---------------------------------------------------------------- corpus first
    for fname, d in common.load_corpus(ctx.pid):
        r = d.get("replay", d)
        ctx.count("corpus")
        ctx.case(("corpus", fname), nontrivial=True)
        for key, what, call in vloop.run(replay_one, r, t, False):
            ctx.violation(key, what, dict(r, call=call))
    # ---------------------------------------------------------------- (a) real objects
    fcases, fmeta, icases, imeta = [], [], [], []
    ndis = 0
    try:
        discovered = vloop.run(discover_takeovers)
    except Exception:  # noqa
        discovered = []
    ctx.extra["takeovers_requested_by_the_streaming_code"] = discovered
    if not discovered:
        ctx.tie_broken("translator:takeover-sets", "stream_file / play_url did not reach core.takeover when started offline")
    sigs = {}
    for k, pr in enumerate(t["profiles"]):
        sigs.setdefault(json.dumps(pr["units"], sort_keys=True), k)
    reps = set(sigs.values())          # one profile per distinct table set is driven completely in the quick tier
    ctx.extra["profiles"] = [pr["name"] for pr in t["profiles"]]
    ctx.extra["property_variations"] = getattr(collect_profiles, "info", None)
    ctx.extra["profiles_driven_completely"] = [t["profiles"][k]["name"] for k in sorted(reps)] if not ctx.thorough else "all"
    for pidx, pr in enumerate(t["profiles"]):
        full = "all" if ctx.thorough else (pidx in reps)
        orders = profile_orders(pr["units"], ctx.rng, full)
        for mode in ("real", "worst"):
            if mode == "worst" and not full:
                continue
            orders_m = orders if (mode == "real" or ctx.thorough) else [o for o in orders if all(ok for _, ok in o)]
            recs = vloop.run(drive_real, t, mode, pidx, orders_m, None,
                             lambda protos, _m=mode: holder_scenarios(ctx.rng, ctx.thorough, discovered, protos, _m))
            for rec in recs:
                ctx.traces += 1
                reported = rec["state"] != "Unsupported"
                hk = json.dumps(rec["holder"])
                ctx.case((mode, rec["profile"], json.dumps(rec["order"]), hk, rec["feature"], rec["state"], tuple(rec["asked"])), nontrivial=reported,
                         sample={"mode": mode, "profile": rec["profile"], "added": rec["added"], "holder": rec["holder"], "feature": rec["feature"],
                                 "state": rec["state"], "asked": rec["asked"], "calls": rec["calls"]} if reported else None)
                ctx.count("%s:%s" % (mode, rec["state"]))
                ctx.count("profile:" + rec["profile"])
                for key, what, call in judge(rec):
                    call = call or {}
                    ctx.violation(key, what, {"kind": "real", "mode": mode, "profile": rec["profile"], "added": rec["added"],
                                              "order": rec["order"], "holder": call.get("holder"), "arguments": call.get("arguments") or {},
                                              "feature": rec["feature"], "state": rec["state"], "call": call or None})
                obs = fres_of(rec["asked"], rec.get("get_feature", rec["state"]))
                if rec.get("entry_points_disagree"):
                    ctx.count("features-entry-points-disagree")
                    if ndis < 5:
                        ctx.tie_broken("correspondence:features-entry-points-disagree", json.dumps(
                            {k: rec[k] for k in ("profile", "added", "holder", "feature", "get_feature", "entry_points_disagree")}))
                    ndis += 1
                if obs is None:
                    ctx.tie_broken("correspondence:features-unexpected-observation", json.dumps(rec))
                    continue
                ids = "[" + "; ".join("(%d, %s)" % (i, common.cbool(ok)) for i, ok in rec["order"]) + "]"
                if any(not ok for _, ok in rec["order"]):
                    ctx.count("orders-with-setupdata-not-connecting")
                fcases.append("(%d, %s, %d, %s)" % (pidx, ids, rec["index"], obs))
                if mode == "worst" and rec["asked"] and rec.get("get_feature", rec["state"]) != "Available":
                    ctx.tie_broken("correspondence:worst-case-stub", json.dumps(rec))
                for c in rec["calls"]:
                    cr = c01.coq_callres(c["called"], c["exc"])
                    ctx.count("call:" + ("executed" if c["called"] else str(c["exc"])))
                    if cr is None:
                        ctx.tie_broken("correspondence:invoke-unexpected-observation", json.dumps(rec))
                        continue
                    ctx.count("holder:" + (c["holder"][0] + ("*" if len(c["holder"][1]) > 4 else "") if c["holder"] else "none"))
                    if c.get("arguments"):
                        ctx.count("calls-with-non-default-arguments")
                    icases.append("(%d, %s, %s, %s, %s%%string, %s, %s)" % (pidx, ids, coq_protos(c["take"]), ICOQ[c["iface"]],
                                                                     coq_str(c["member"]), common.cbool(rec["gate"]), cr))
    ctx.exhaustive = bool(ctx.thorough)
    ctx.note("real objects driven %.1fs" % (time.time() - ctx.t0))
    funiq = list(dict.fromkeys(fcases))
    ctx.count("feature-cases-distinct", len(funiq))
    if not ctx.thorough and len(funiq) > 10000:
        funiq = ctx.rng.sample(funiq, 10000)      # the oracle judged every answer; the model comparison is sampled
    c01.run_cases_in_coq(ctx, "features", HEADER, "nat * list (nat * bool) * feature * fres", "check_real_feature",
                         funiq, lambda b: {"case": funiq[b], "profiles": ctx.extra["profiles"]}, per=2000)
    uniq = list(dict.fromkeys(icases))
    ctx.count("invoke-cases-distinct", len(uniq))
    if not ctx.thorough and len(uniq) > 8000:
        uniq = ctx.rng.sample(uniq, 8000)      # the oracle judged every call; the model comparison is sampled
    c01.run_cases_in_coq(ctx, "invoke", HEADER, "nat * list (nat * bool) * list proto * iface * string * bool * callres", "check_real_invoke",
                         uniq, lambda b: {"case": uniq[b], "profiles": ctx.extra["profiles"]}, per=2000)
    ctx.note("real objects compared %.1fs" % (time.time() - ctx.t0))
    # ---------------------------------------------------------------- (a2) takeover bound as pyatv.connect binds it, real Stream code
    embeds = []
    for pidx, pr in enumerate(t["profiles"]):
        sets = [S for S in c01.subsets() if "AirPlay" in S or "RAOP" in S]
        try:
            recs = vloop.run(drive_bound, t, pidx, sets)
        except Exception:  # noqa
            import traceback
            ctx.tie_broken("driver:bound:" + pr["name"], traceback.format_exc())
            continue
        for rec in recs:
            ctx.traces += 1
            if rec.get("setup_exception"):
                ctx.count("bound:setup-exception")
                ctx.violation("C13:setup:exception", "device profile %s, services %s: setting the device object up the way pyatv.connect does raised %s"
                              % (rec["profile"], rec["services"], rec["setup_exception"]),
                              {"kind": "bound", "profile": rec["profile"], "services": rec["services"], "feature": None})
                continue
            reported = rec["state"] != "Unsupported"
            ctx.case(("bound", rec["profile"], tuple(rec["services"]), rec["feature"], rec["state"]), nontrivial=reported,
                     sample={"mode": "bound", "profile": rec["profile"], "services": rec["services"], "added": rec["added"],
                             "feature": rec["feature"], "state": rec["state"], "calls": rec["calls"]} if rec["calls"] else None)
            ctx.count("bound:%s:%s" % (rec["feature"], rec["state"]))
            if "AirPlay>RAOP" in rec["added"] and rec["profile"] not in embeds:
                embeds.append(rec["profile"])
            for c in rec["calls"]:
                ctx.count("bound-call:%s.%s:%s" % (c["iface"], c["member"], c["exc"]))
            for key, what, call in judge(rec):
                ctx.violation(key, what, {"kind": "bound", "profile": rec["profile"], "services": rec["services"], "added": rec["added"],
                                          "feature": rec["feature"], "state": rec["state"], "call": call})
    ctx.extra["profiles_where_airplay_embeds_raop"] = embeds
    # ---------------------------------------------------------------- (a3) multi-step use of one device object
    hists = usage_histories(ctx.rng, ctx.thorough)
    for pidx, pr in enumerate(t["profiles"]):
        if not (ctx.thorough or pidx in reps):
            continue
        by_src = {p: [u["id"] for u in pr["units"] if u["src"] == p] for p in PROTOS}
        order = [i for p in PYATV_ORDER for i in by_src[p]]
        try:
            recs = vloop.run(drive_usage, t, pidx, order, hists)
        except Exception:  # noqa
            import traceback
            ctx.tie_broken("driver:usage:" + pr["name"], traceback.format_exc())
            continue
        for rec in recs:
            ctx.traces += 1
            ctx.case(("usage", rec["profile"], json.dumps(rec["history"]), rec["feature"], rec["state"]),
                     nontrivial=rec["state"] != "Unsupported")
            ctx.count("usage:steps")
            for key, what, call in judge(rec):
                ctx.violation(key, what, {"kind": "usage", "profile": rec["profile"], "added": rec["added"], "order": rec["order"],
                                          "history": rec["history"], "feature": rec["feature"], "state": rec["state"], "call": call})
    ctx.note("usage histories driven %.1fs" % (time.time() - ctx.t0))
    ctx.note("bound takeover driven %.1fs" % (time.time() - ctx.t0))
    # ---------------------------------------------------------------- (b) arbitrary tables
    n = 1500 if not ctx.thorough else 20000
    recs = vloop.run(drive_random, ctx.rng.getrandbits(32), n, t["features"])
    rcases, rmeta = [], []
    for rec in recs:
        ctx.traces += 1
        obs = fres_of(rec["asked"], rec["state"])
        reported = rec["state"] != "Unsupported"
        ctx.case(("random", rec["feature"], tuple(rec["order"]), tuple(sorted(rec["bits"].items())), obs), nontrivial=reported)
        ctx.count("random:%s" % (obs.split()[0] if obs else "unexpected"))
        if obs is None:
            ctx.tie_broken("correspondence:features-unexpected-observation", json.dumps(rec))
            continue
        tbl = "[" + "; ".join("(%s, (%s, %s, %s))" % (p, common.cbool(b[0]), common.cbool(b[1]), common.cbool(b[2]))
                              for p, b in rec["bits"].items()) + "]"
        rcases.append("(%s, %d, %d, %s, %s, %s)" % (coq_protos(t["default_rt"]), idx[rec["feature"]], idx["PushUpdates"],
                                                 coq_protos(rec["order"]), tbl, obs))
        rmeta.append(rec)
    c01.run_cases_in_coq(ctx, "random", HEADER,
                         "list proto * feature * feature * list proto * list (proto * (bool * bool * bool)) * fres",
                         "check_feature", rcases, lambda b: rmeta[b])
    ctx.note("random tables done %.1fs" % (time.time() - ctx.t0))
    ctx.extra["gen_tables"] = {"features": len(t["features"]), "real_features": t["real_features"],
                               "real_override_table": t["real"]}
    ctx.trusted += [
        "hand-written model coq/C13/Model.v of FacadeFeatures.add_mapping/get_feature and the registration loop of FacadeAppleTV.connect (pyatv/core/facade.py); the routing model is coq/C01/Model.v; both tied by the differential run of this file evaluated in Coq by vm_compute",
        "translator harness/c01.py collect() + harness/c13.py emit_c13(): feature sets / registered objects from the five real setup() generators run offline, FeatureName, the @feature decorators (feature -> members), override table by MRO, DEFAULT_PRIORITIES (ast + run time)",
        "class swap of the real interface objects for recording subclasses (same override table, no network); stub Features objects; harness/vloop.py",
    ]
    ctx.assumptions += [
        "the dynamic answer of a protocol's own Features object is over-approximated: the model only uses whether the protocol lists the feature in SetupData.features (the facade never asks a protocol about a feature it did not list - C13_feature_answer)",
        "features attached to properties of interface.Playing stand for Metadata.playing; VolumeUp/VolumeDown stand for the members of both RemoteControl and Audio (strong reading)",
        "FacadeStream.play_url refusing while PlayUrl is not Available is the facade's feature gate, not a missing implementation (judged by asking the relayer directly)",
    ]


async def replay_one(r, t, verbose=True):
    """Re-run one replay dict {profile, added: ["src>proto", ...], feature, mode}; returns list of (key, what)."""
    names = [pr["name"] for pr in t["profiles"]]
    if r.get("kind") == "bound" and r.get("profile") in names:
        recs = await drive_bound(t, names.index(r["profile"]), [r["services"]], [r["feature"]] if r.get("feature") else None)
        out = []
        for rec in recs:
            if verbose:
                print("profile=%s services=%s added=%s feature=%s state=%s calls=%s %s" % (
                    rec["profile"], rec["services"], rec["added"], rec["feature"], rec["state"], rec["calls"], rec.get("setup_exception") or ""))
            if rec.get("setup_exception"):
                out.append(("C13:setup:exception", rec["setup_exception"], None))
            else:
                out += judge(rec)
        return out
    if r.get("profile") not in names:
        return [("C13:replay:unknown-profile", str(r.get("profile")), None)]
    pidx = names.index(r["profile"])
    if r.get("kind") == "usage":
        recs = await drive_usage(t, pidx, r["order"], [[tuple(x) for x in r["history"]]])
        out = []
        for rec in recs:
            if rec["history"] == [list(x) for x in r["history"]] and rec["feature"] == r["feature"]:
                if verbose:
                    print("profile=%s added=%s after=%s feature=%s state=%s calls=%s" % (
                        rec["profile"], rec["added"], rec["after"], rec["feature"], rec["state"], rec["calls"]))
                out += judge(rec)
        return out
    lab = {"%s>%s" % (u["src"], u["proto"]): u["id"] for u in t["profiles"][pidx]["units"]}
    order = r["order"] if r.get("order") else [lab[x] for x in r["added"] if x in lab]
    if not r.get("order") and len(order) != len(r["added"]):
        if verbose:
            print("profile %s no longer yields %s" % (r["profile"], [x for x in r["added"] if x not in lab]))
    sc = [tuple(r["holder"])] if r.get("holder") else [None]
    kw = None
    if r.get("call"):
        c = r["call"]
        base = iface_cls(c["iface"])
        if not isinstance(getattr(base, c["member"]), property):
            kw = c01.load_kwargs(getattr(base, c["member"]), c.get("arguments"))
    recs = await drive_real(t, r.get("mode", "real"), pidx, [order], [r["feature"]], sc, kw)
    out = []
    for rec in recs:
        if verbose:
            print("profile=%s added=%s holder=%s feature=%s state=%s asked=%s calls=%s" % (
                rec["profile"], rec["added"], rec["holder"], rec["feature"], rec["state"], rec["asked"], rec["calls"]))
        out += judge(rec)
    return out


def replay(ctx, path):
    d = json.load(open(path))
    if d.get("key") == "tie-broken":
        print("tie-broken replay: %s" % json.dumps(d.get("broken"))[:2000])
        return 1
    r = d.get("replay", d)
    t = vloop.run(c01.collect, False)
    t["profiles"] = vloop.run(collect_profiles)
    v = vloop.run(replay_one, r, t)
    print("property-errors=%s" % [x[:2] for x in v])
    return 1 if v else 0
