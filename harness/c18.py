"""C18 - failed operations release everything they acquired.

(1) control-flow skeletons of connect / stream_file / play_url / send_audio are regenerated
    from /repo's AST on every run (coq/C18/Gen.v) and the verified analyser of
    Common/Skeleton.v proves, for EVERY placement of a failure or cancellation, that nothing
    is held at exit (coq/C18/Properties.v).
(2) fault enumeration on the real code: each collaborator call is made to raise / be
    cancelled in turn and the real resources are inspected.
"""
import asyncio
import importlib
import inspect
import json
import os

import common
import gen_skeleton as gs
import vloop

# resource ids
CONN, SESSION, PM, TAKEOVER, AUDIOFILE, SERVER, HTTPCONN, TRANSPORT, UNREG, RTSPCONN = range(10)
RES_NAMES = {RTSPCONN: "RTSP connection of the streaming session", UNREG: "established protocol connection not yet known to close()", CONN: "protocol connection(s)", SESSION: "http session manager", PM: "playback manager (_is_acquired)",
             TAKEOVER: "interface takeover", AUDIOFILE: "audio file", SERVER: "local web server",
             HTTPCONN: "http connection", TRANSPORT: "audio datagram transport"}


def specs():
    import pyatv
    from pyatv.core.facade import FacadeAppleTV
    from pyatv.protocols.raop import RaopStream, RaopPlaybackManager
    from pyatv.protocols.airplay import AirPlayStream
    from pyatv.protocols.raop.stream_client import StreamClient
    return {
        "connect": (pyatv.connect, {
            "inline": {"atv.connect": inspect.unwrap(FacadeAppleTV.connect)},
            "effects": [
                (r"^http\.create_session\(", [("acquire", SESSION, True)]),
                (r"^setup_data\.connect\(\)$", [("acquire", CONN, True)]),
                (r"^atv\.close\(\)$", [("release", CONN, False), ("release", SESSION, False)]),
                # close() only closes the protocols recorded in _protocol_handlers: between a successful
                # connect() of a protocol and this assignment nothing may fail
                (r"^self\._protocol_handlers\[setup_data\.protocol\] = setup_data$", [("release", UNREG, False)]),
            ],
            "true_branch_effects": [(r"^await setup_data\.connect\(\)$", [("acquire", UNREG, False)])],
            "nofail": [r"^FacadeAppleTV\(", r"^PROTOCOLS\.items\(\)", r"^config_copy\.get_service\(", r"^self\._protocols_to_setup\.",
                       r"^MemoryStorage\(", r"^interface\.DeviceInfo\(", r"^dict_merge\(",
                       r"\.register\(", r"^self\._features\.add_mapping\(",
                       r"^exceptions\.\w+\(", r"^config_copy\.apply\(", r"^atv\.add_protocol\("],
        }, "exn-balanced"),
        "stream_file": (RaopStream.stream_file, {
            "inline": {"self.playback_manager.acquire": RaopPlaybackManager.acquire,
                       "self.playback_manager.setup": RaopPlaybackManager.setup,
                       "self.playback_manager.teardown": RaopPlaybackManager.teardown},
            "effects": [
                (r"^self\._is_acquired = True", [("acquire", PM, False)]),
                (r"^self\._is_acquired = False", [("release", PM, False)]),
                (r"^self\.core\.takeover\(", [("acquire", TAKEOVER, True)]),
                (r"^takeover_release\(\)$", [("release", TAKEOVER, False)]),
                (r"^open_source\(", [("acquire", AUDIOFILE, True)]),
                (r"^audio_file\.close\(\)$", [("release-then-call", AUDIOFILE, True)]),
                (r"^self\._connection = await http_connect", [("acquire", RTSPCONN, False)]),
                (r"^self\._connection\.close\(\)$", [("release", RTSPCONN, False)]),
            ],
            "guards": {"takeover_release": ("held", TAKEOVER), "audio_file": ("held", AUDIOFILE), "self._connection": ("held", RTSPCONN)},
            "nofail": [r"^self\._stream_client\.close\(\)$", r"^self\._context\.reset\(\)$",
                       r"^exceptions\.\w+\(", r"^extract_credentials\(", r"^merge_into\("],
        }, "balanced"),
        "play_url": (AirPlayStream.play_url, {
            "effects": [
                (r"^server\.start\(\)$", [("acquire", SERVER, True)]),
                (r"^server\.close\(\)$", [("release-then-call", SERVER, True)]),
                (r"^self\.core\.takeover\(", [("acquire", TAKEOVER, True)]),
                (r"^takeover_release\(\)$", [("release", TAKEOVER, False)]),
                (r"^self\._connection = await http_connect", [("acquire", HTTPCONN, False)]),
                (r"^self\._connection = None", [("release", HTTPCONN, False)]),
            ],
            "guards": {"takeover_release": ("held", TAKEOVER), "server": ("held", SERVER), "self._connection": ("held", HTTPCONN)},
            "nofail": [r"^self\._connection\.close\(\)$", r"^exceptions\.\w+\(", r"^os\.path\.exists\(", r"^kwargs\.get\(",
                       r"^asyncio\.ensure_future\(", r"^RtspSession\(", r"^AirPlayPlayer\("],
        }, "balanced"),
        "send_audio": (StreamClient.send_audio, {
            "effects": [
                (r"^self\.loop\.create_datagram_endpoint\(", [("acquire", TRANSPORT, True)]),
                (r"^transport\.close\(\)$", [("release", TRANSPORT, False)]),
            ],
            "guards": {"transport": ("held", TRANSPORT)},
            "nofail": [r"^exceptions\.\w+\(", r"^self\._packet_backlog\.clear\(\)$", r"^self\.context\.reset\(\)$", r"^pct_to_dbfs\("],
        }, "balanced"),
    }


class Tr(gs.Translator):
    """adds: multi-effects per pattern; effects on `target = value` text; release-then-call."""

    def effect_of(self, text):
        for rx, e in self.effects:
            if rx.search(text):
                return e
        return None

    def eff_list(self, effs, node, awaited):
        out = []
        for e in effs:
            kind, ident, can_fail = e
            if kind == "release-then-call":
                out.append(("Eff", "Release", ident))
                out.append(("Call", awaited, self.label(node, awaited)))
            else:
                if can_fail:
                    out.append(("Call", awaited, self.label(node, awaited)))
                out.append(("Eff", {"acquire": "Acquire", "release": "Release", "write": "Write"}[kind], ident))
        return out

    def calls_in(self, node, awaited=False):
        import ast
        if isinstance(node, ast.Await) and isinstance(node.value, ast.Call):
            return self.calls_in(node.value, awaited=True)
        if isinstance(node, ast.Call):
            text = gs.src(node)
            effs = self.effect_of(text)
            inlined = [fn for prefix, fn in self.inline.items() if text.startswith(prefix + "(")]
            if effs is not None and not inlined:
                out = []
                for a in node.args:
                    out += self.calls_in(a.value if isinstance(a, ast.Starred) else a)
                for k in node.keywords:
                    out += self.calls_in(k.value)
                return out + self.eff_list(effs, node, awaited)
        return super().calls_in(node, awaited)

    def stmt(self, s):
        import ast
        import re
        if isinstance(s, ast.If):
            text = gs.src(s.test)
            for rx, effs in self.spec.get("true_branch_effects", []):
                if re.search(rx, text):
                    self.matched = getattr(self, "matched", set()) | {rx}
                    pre = self.calls_in(s.test)
                    a = self.seq(self.eff_list(effs, s.test, False) + [self.block(s.body)])
                    return self.seq(pre + [("Choice", a, self.block(s.orelse))])
        if isinstance(s, (ast.Assign, ast.AnnAssign)) and s.value is not None:
            text = gs.src(s)
            if isinstance(s, ast.AnnAssign):
                text = "%s = %s" % (gs.src(s.target), gs.src(s.value))
            effs = self.effect_of(text)
            if effs is not None and not isinstance(s.value, ast.Call) and not (isinstance(s.value, ast.Await)):
                return self.seq(self.calls_in(s.value) + self.eff_list(effs, s, False))
            if effs is not None and isinstance(s.value, ast.Await):
                # e.g. self._connection = await http_connect(...): the call may fail, then the effect
                inner = self.calls_in(s.value)
                return self.seq(inner + self.eff_list(effs, s, False))
        return super().stmt(s)


def translate_all():
    out = {}
    for name, (fn, spec, pred) in specs().items():
        tr = Tr(spec)
        cmd = tr.function(fn)
        for rx, _ in spec.get("true_branch_effects", []):
            if rx not in getattr(tr, "matched", set()):
                raise gs.Unsupported("%s: no `if` with condition %s found (the effect table no longer describes the code)" % (name, rx))
        out[name] = (cmd, tr.labels, pred, spec)
    return out


def gen(ctx):
    sk = translate_all()
    lines = ["(* GENERATED by harness/c18.py from /repo's AST on every run - do not edit *)",
             "From Coq Require Import List. Import ListNotations.",
             "From PV Require Import Common.Skeleton."]
    for name, (cmd, labels, pred, spec) in sk.items():
        lines.append("Definition sk_%s : cmd := %s." % (name, gs.to_coq(cmd)))
    txt = "\n".join(lines) + "\n"
    path = os.path.join(common.COQ, "C18", "Gen.v")
    if not os.path.exists(path) or open(path).read() != txt:
        with open(path, "w") as f:
            f.write(txt)
    return sk


def skeleton_witnesses(cmd, pred):
    """Search the skeleton (Python interpreter of the same semantics) for an execution that
    violates the predicate; returns list of (outcome, held, path)."""
    bad = []
    seen = set()
    for o, (held, written), path in gs.outcomes(cmd, (frozenset(), frozenset())):
        if pred == "exn-balanced" and o != "E":
            continue
        if held:
            key = (o, tuple(sorted(held)), tuple(path[-2:]))
            if key in seen:
                continue
            seen.add(key)
            bad.append((o, sorted(held), path))
    return bad


# ------------------------------------------------------------------------------ fault enumeration

class Boom(Exception):
    pass


class FaultPlan:
    """The n-th instrumented collaborator call raises (mode 'exn') or blocks forever so that the
    driver can cancel the task (mode 'cancel')."""

    def __init__(self, n, mode):
        self.n = n
        self.mode = mode
        self.count = 0
        self.hit = None
        self.blocked = None
        self.names = []

    def tick_sync(self, name):
        self.count += 1
        self.names.append(name)
        if self.count == self.n and self.mode == "exn":
            self.hit = name
            raise Boom("injected at %s" % name)

    async def tick(self, name):
        self.count += 1
        self.names.append(name)
        if self.count == self.n:
            self.hit = name
            if self.mode == "exn":
                raise Boom("injected at %s" % name)
            self.blocked = asyncio.get_event_loop().create_future()
            await self.blocked


async def run_with_plan(plan, coro_factory):
    """Run the operation; in cancel mode cancel the task once the chosen call is blocked."""
    task = asyncio.ensure_future(coro_factory())
    for _ in range(200):
        await asyncio.sleep(0)
        if task.done() or plan.blocked is not None:
            break
    if plan.blocked is not None and not task.done():
        task.cancel()
    try:
        await task
        return "ok"
    except asyncio.CancelledError:
        return "cancelled"
    except BaseException as ex:  # noqa
        return "raised:" + type(ex).__name__


# -- stream_file ----------------------------------------------------------------------------------

async def scenario_stream_file(n, mode, variant):
    from pyatv.protocols import raop
    from pyatv.protocols.raop import RaopStream, RaopPlaybackManager, RaopAudio
    from pyatv.core import MutableService, ProtocolStateDispatcher, CoreStateDispatcher
    from pyatv.const import Protocol
    from pyatv import exceptions

    plan = FaultPlan(n, mode)
    state = {"takeover": 0, "conn_closed": 0, "conn_open": 0, "client_closed": 0, "file_closed": 0, "file_open": 0}

    class Conn:
        def close(self):
            state["conn_closed"] += 1
            state["conn_open"] -= 1

    class Ctx:
        credentials = None
        password = None
        sample_rate, channels, bytes_per_channel = 44100, 2, 2
        volume = None

        def reset(self):
            pass

    class Client:
        info = {"initialVolume": -20.0} if variant == 1 else {}
        listener = None

        async def initialize(self, props):
            await plan.tick("client.initialize")

        async def send_audio(self, *a, **k):
            await plan.tick("client.send_audio")

        async def set_volume(self, v):
            await plan.tick("client.set_volume")

        def close(self):
            state["client_closed"] += 1

        def stop(self):
            pass

    class AudioFile:
        async def get_metadata(self):
            await plan.tick("audio_file.get_metadata")
            from pyatv.interface import MediaMetadata
            return MediaMetadata()

        async def close(self):
            state["file_open"] -= 1
            state["file_closed"] += 1
            await plan.tick("audio_file.close")

    from pyatv import conf as conf_mod
    from pyatv.settings import Settings as RealSettings

    class Core:
        service = MutableService("id", Protocol.RAOP, 7000, {})
        settings = RealSettings()
        config = conf_mod.AppleTV("127.0.0.1", "x")

        def takeover(self, *ifaces):
            plan.tick_sync("core.takeover")
            state["takeover"] += 1

            def rel():
                state["takeover"] -= 1
            return rel

    core = Core()
    pm = RaopPlaybackManager(core)

    # the REAL RaopPlaybackManager.setup runs; what it calls is replaced: opening the connection,
    # building the RTSP session, picking the protocol version and building the stream client can
    # each fail, leaving the session half set up
    async def http_connect(*a):
        await plan.tick("http_connect")
        state["conn_open"] += 1
        return Conn()

    def rtsp_session(conn):
        plan.tick_sync("RtspSession()")
        return object()

    def protocol_version(service, preferred):
        plan.tick_sync("get_protocol_version")
        from pyatv.protocols.airplay.utils import AirPlayMajorVersion
        return AirPlayMajorVersion.AirPlayV1

    def stream_client(rtsp, context, proto, settings):
        plan.tick_sync("StreamClient()")
        return Client()

    pm._context = Ctx()
    saved_setup = (raop.http_connect, raop.RtspSession, raop.get_protocol_version, raop.StreamClient, raop.airplayv1.AirPlayV1)
    raop.http_connect, raop.RtspSession, raop.get_protocol_version, raop.StreamClient = http_connect, rtsp_session, protocol_version, stream_client
    raop.airplayv1.AirPlayV1 = lambda context, rtsp: object()

    async def open_source(*a):
        await plan.tick("open_source")
        state["file_open"] += 1
        return AudioFile()

    class Audio:
        has_changed_volume = variant == 2
        volume = 33.0

        async def set_volume(self, v):
            await plan.tick("audio.set_volume")

    saved = raop.open_source
    raop.open_source = open_source
    try:
        stream = RaopStream(core, None, Audio(), pm)
        from pyatv.interface import MediaMetadata
        md = None if variant != 2 else MediaMetadata(title="x")
        if mode == "overlap":
            plan.mode = "cancel"      # the n-th call blocks; nobody cancels it here
            t1 = asyncio.ensure_future(stream.stream_file("dummy"))
            for _ in range(200):
                await asyncio.sleep(0)
                if t1.done() or plan.blocked is not None:
                    break
            leaks = []
            second = "not-run"
            if plan.blocked is not None:
                before = (pm._is_acquired, state["takeover"], pm._connection is not None, state["file_open"], state["conn_open"])
                try:
                    await stream.stream_file("dummy")
                    second = "accepted"
                except exceptions.InvalidStateError:
                    second = "refused"
                except BaseException as ex:  # noqa
                    second = "raised:" + type(ex).__name__
                if second != "refused":
                    leaks.append("overlapping stream_file was not refused: " + second)
                after = (pm._is_acquired, state["takeover"], pm._connection is not None, state["file_open"], state["conn_open"])
                if after != before or not pm._is_acquired:
                    leaks.append("refused overlapping call disturbed the active stream (before=%s after=%s)" % (before, after))
                plan.blocked.set_result(None)
            try:
                await t1
                res = "ok"
            except BaseException as ex:  # noqa
                res = "raised:" + type(ex).__name__
                leaks.append("first stream failed after the overlap: " + res)
        else:
            res = await run_with_plan(plan, lambda: stream.stream_file("dummy", metadata=md, override_missing_metadata=(variant == 2)))
            leaks = []
        if pm._is_acquired:
            leaks.append("playback manager still acquired")
        if state["takeover"] != 0:
            leaks.append("takeover not released")
        if pm._connection is not None or pm._stream_client is not None:
            leaks.append("session not torn down")
        if state["conn_open"] != 0:
            leaks.append("RTSP connection left open")
        if state["file_open"] != 0:
            leaks.append("audio file left open")
        # a later stream must start normally
        plan2 = FaultPlan(0, "exn")
        plan.n = 0
        res2 = await run_with_plan(plan2, lambda: stream.stream_file("dummy"))
        if res2 != "ok":
            leaks.append("second stream_file refused: " + res2)
        return {"result": res, "hit": plan.hit, "calls": plan.count, "leaks": leaks}
    finally:
        raop.open_source = saved
        raop.http_connect, raop.RtspSession, raop.get_protocol_version, raop.StreamClient, raop.airplayv1.AirPlayV1 = saved_setup


async def scenario_stream_overlap(block_at):
    """A second stream_file while one is active is refused and must not disturb the first."""
    return await scenario_stream_file(block_at, "overlap", 0)


# -- play_url ---------------------------------------------------------------------------------------

async def scenario_play_url(n, mode, local_file, other_stream_active=False):
    from pyatv.protocols import airplay as ap
    from pyatv.protocols.airplay import AirPlayStream
    from pyatv.core import MutableService
    from pyatv.const import Protocol
    from pyatv import conf

    plan = FaultPlan(n, mode)
    state = {"takeover": 0, "server_running": 0, "conn_open": 0}

    class Server:
        file_address = "http://127.0.0.1:1234/file"

        def __init__(self, *a):
            pass

        async def start(self):
            await plan.tick("server.start")
            state["server_running"] += 1

        async def close(self):
            state["server_running"] -= 1
            await plan.tick("server.close")

    class Conn:
        def close(self):
            state["conn_open"] -= 1

    async def http_connect(*a):
        await plan.tick("http_connect")
        state["conn_open"] += 1
        return Conn()

    class Player:
        def __init__(self, *a):
            pass

        async def play_url(self, url, position):
            await plan.tick("player.play_url")

    class Core:
        config = conf.AppleTV("127.0.0.1", "x")
        service = MutableService("id", Protocol.AirPlay, 7000, {})
        settings = None

        def takeover(self, *ifaces):
            plan.tick_sync("core.takeover")
            state["takeover"] += 1

            def rel():
                state["takeover"] -= 1
            return rel

    other_release = None
    facade = None
    if other_stream_active:
        # the REAL facade bookkeeping: another protocol's stream holds RemoteControl (what
        # RaopStream.stream_file takes over), so play_url must be refused and leave that takeover alone
        from ipaddress import IPv4Address
        from pyatv import interface
        from pyatv.core import CoreStateDispatcher
        from pyatv.core.facade import FacadeAppleTV
        from pyatv.settings import Settings
        facade = FacadeAppleTV(conf.AppleTV(IPv4Address("127.0.0.1"), "verif"), None, CoreStateDispatcher(), Settings())
        other_release = facade.takeover(Protocol.RAOP, interface.Audio, interface.Metadata, interface.PushUpdater, interface.RemoteControl)

        def real_takeover(self, *ifaces):
            plan.tick_sync("core.takeover")
            return facade.takeover(Protocol.AirPlay, *ifaces)
        Core.takeover = real_takeover
    saved = (ap.StaticFileWebServer, ap.http_connect, ap.AirPlayPlayer, ap.net.get_local_address_reaching, ap.os.path.exists)
    ap.StaticFileWebServer, ap.http_connect, ap.AirPlayPlayer = Server, http_connect, Player
    ap.net.get_local_address_reaching = lambda addr: "127.0.0.1"
    ap.os.path.exists = lambda p: local_file
    try:
        stream = AirPlayStream(Core())
        stream.create_airplay_protocol = lambda service, rtsp: (plan.tick_sync("create_airplay_protocol"), None)[1]
        res = await run_with_plan(plan, lambda: stream.play_url("/tmp/file.mp4" if local_file else "http://x/y.mp4"))
        leaks = []
        if state["takeover"] != 0:
            leaks.append("takeover not released")
        if state["server_running"] != 0:
            leaks.append("local web server left running")
        if state["conn_open"] != 0 or stream._connection is not None:
            leaks.append("http connection left open")
        if stream._play_task is not None:
            leaks.append("play task reference left")
        if facade is not None:
            from pyatv import interface
            holders = {i.__name__: (facade._interfaces[i]._takeover_protocol or [None])[0] for i in (interface.Audio, interface.Metadata, interface.PushUpdater, interface.RemoteControl)}
            if res != "raised:InvalidStateError":
                leaks.append("play_url while another stream is active was not refused: " + res)
            if any(h != Protocol.RAOP for h in holders.values()):
                leaks.append("refused play_url disturbed the other stream's takeover: %s" % {k: getattr(v, "name", None) for k, v in holders.items()})
            other_release()
            if any(facade._interfaces[i]._takeover_protocol for i in (interface.Audio, interface.Metadata, interface.PushUpdater, interface.RemoteControl)):
                leaks.append("interfaces still taken over after the other stream released them")
        return {"result": res, "hit": plan.hit, "calls": plan.count, "leaks": leaks}
    finally:
        ap.StaticFileWebServer, ap.http_connect, ap.AirPlayPlayer, ap.net.get_local_address_reaching, ap.os.path.exists = saved



# -- send_audio ---------------------------------------------------------------------------------------

async def scenario_send_audio(n, mode):
    from pyatv.protocols.raop.stream_client import StreamClient
    from pyatv.protocols.raop.protocols import StreamContext
    from pyatv.settings import Settings
    from pyatv.interface import MediaMetadata

    plan = FaultPlan(n, mode)
    state = {"transport_open": 0, "proto_torn_down": 0, "control_closed": 0, "timing_closed": 0, "stopped": 0}

    class Transport:
        def close(self):
            state["transport_open"] -= 1

    class Loop:
        async def create_datagram_endpoint(self, *a, **k):
            await plan.tick("loop.create_datagram_endpoint")
            state["transport_open"] += 1
            return Transport(), None

    class ConnInfo:
        remote_ip = "127.0.0.1"

    class Rtsp:
        connection = ConnInfo()

        async def set_parameter(self, *a, **k):
            await plan.tick("rtsp.set_parameter")

        async def set_metadata(self, *a, **k):
            await plan.tick("rtsp.set_metadata")

        async def set_artwork(self, *a, **k):
            await plan.tick("rtsp.set_artwork")

        async def record(self, *a, **k):
            await plan.tick("rtsp.record")

        async def flush(self, *a, **k):
            await plan.tick("rtsp.flush")

        async def teardown(self, *a, **k):
            await plan.tick("rtsp.teardown")

    class Proto:
        async def start_feedback(self):
            await plan.tick("protocol.start_feedback")

        def teardown(self):
            state["proto_torn_down"] += 1

    class Control:
        def start(self, addr):
            plan.tick_sync("control_client.start")

        def close(self):
            state["control_closed"] += 1

    class Timing:
        def close(self):
            state["timing_closed"] += 1

    class Source:
        duration = 3

    ctx_ = StreamContext()
    client = StreamClient(Rtsp(), ctx_, Proto(), Settings())
    client.loop = Loop()
    client.control_client = Control()
    client.timing_server = Timing()
    from pyatv.protocols.raop.parsers import MetadataType
    client._metadata_types = MetadataType.Progress | MetadataType.Text | MetadataType.Artwork

    async def stream_data(source, transport):
        await plan.tick("_stream_data")
    client._stream_data = stream_data

    async def set_volume(v):
        await plan.tick("set_volume")
    client.set_volume = set_volume
    res = await run_with_plan(plan, lambda: client.send_audio(Source(), MediaMetadata(title="t", artwork=b"x"), volume=20.0))
    leaks = []
    if state["transport_open"] != 0:
        leaks.append("audio datagram transport left open")
    if plan.count > 0 and plan.hit != "loop.create_datagram_endpoint" and (state["proto_torn_down"] == 0 or state["control_closed"] == 0 or state["timing_closed"] == 0):
        leaks.append("stream client not closed (protocol/control/timing)")
    return {"result": res, "hit": plan.hit, "calls": plan.count, "leaks": leaks}


# -- StreamClient.initialize (what stream_file runs between setup() and send_audio) -----------------------

async def scenario_initialize(n, mode, model="AppleTV"):
    """Real StreamClient.initialize with a failure / cancellation at each collaborator; afterwards the
    owner's clean-up (RaopPlaybackManager.teardown -> StreamClient.close) runs and no UDP endpoint the
    client opened may be left."""
    from pyatv.protocols.raop.stream_client import StreamClient
    from pyatv.protocols.raop.protocols import StreamContext
    from pyatv.settings import Settings

    plan = FaultPlan(n, mode)
    state = {"udp_open": 0, "proto_torn_down": 0}

    class Sock:
        def getsockname(self):
            return ("127.0.0.1", 6000)

    class Transport:
        def __init__(self):
            self.closed = False

        def close(self):
            if not self.closed:
                self.closed = True
                state["udp_open"] -= 1

        def get_extra_info(self, name, default=None):
            return Sock()

        def sendto(self, *a):
            pass

    class Loop:
        async def create_datagram_endpoint(self, factory, **k):
            await plan.tick("loop.create_datagram_endpoint")
            proto = factory()
            tr = Transport()
            state["udp_open"] += 1
            proto.connection_made(tr)
            return tr, proto

    class ConnInfo:
        local_ip = remote_ip = "127.0.0.1"

    class Rtsp:
        connection = ConnInfo()

        async def info(self):
            await plan.tick("rtsp.info")
            return {}

        async def auth_setup(self):
            await plan.tick("rtsp.auth_setup")

    class Proto:
        async def setup(self, timing_port, control_port):
            await plan.tick("protocol.setup")

        def teardown(self):
            state["proto_torn_down"] += 1

    client = StreamClient(Rtsp(), StreamContext(), Proto(), Settings())
    client.loop = Loop()
    props = {"et": "0,1", "md": "0,1,2", "am": model, "sr": "44100", "ch": "2", "ss": "16"}
    res = await run_with_plan(plan, lambda: client.initialize(props))
    client.close()          # what the playback manager's teardown does after a failed stream_file
    leaks = []
    if state["udp_open"] != 0:
        leaks.append("%d UDP endpoint(s) of the stream client left open" % state["udp_open"])
    if state["proto_torn_down"] == 0:
        leaks.append("protocol not torn down")
    return {"result": res, "hit": plan.hit, "calls": plan.count, "leaks": leaks}


# -- what the tear-down of a streaming session itself has to release -----------------------------------------

async def scenario_protocol_teardown(version, has_event_channel, feedback_started):
    """StreamClient.close() relies on the protocol object's teardown(): whatever part of the session
    exists (event channel, feedback / keep-alive task) must be released whichever other part exists."""
    from pyatv.protocols.raop.protocols import StreamContext, airplayv1, airplayv2
    state = {"channel_closed": 0, "task_cancelled": 0}

    class Channel:
        def close(self):
            state["channel_closed"] += 1

    class Resp:
        code = 200

    class Rtsp:
        calls = 0

        async def feedback(self, *a, **k):
            # the probing call of AirPlay v1 is answered, later ones (from the task) never are
            Rtsp.calls += 1
            if Rtsp.calls > 1:
                await asyncio.sleep(3600)
            return Resp()

    proto = (airplayv2.AirPlayV2 if version == 2 else airplayv1.AirPlayV1)(StreamContext(), Rtsp())
    leaks = []
    task = None
    if version == 2 and has_event_channel:
        proto.event_channel = Channel()
    if feedback_started:
        await proto.start_feedback()
        for _ in range(3):
            await asyncio.sleep(0)
        task = getattr(proto, "_feedback_task", None) or getattr(proto, "_keep_alive_task", None)
    proto.teardown()
    for _ in range(3):
        await asyncio.sleep(0)
    if version == 2 and has_event_channel and state["channel_closed"] != 1:
        leaks.append("event channel of the AirPlay 2 session left open (closed %d times)" % state["channel_closed"])
    if task is not None and not task.done():
        leaks.append("feedback / keep-alive task still running after teardown")
        task.cancel()
    return {"result": "ok", "leaks": leaks}


async def real_web_server_close(workdir):
    """The REAL StaticFileWebServer (aiohttp, loopback): after close() the port is released AND a
    connection the device still holds (keep-alive after its download) is closed by the server."""
    import os
    from pyatv.support.http import StaticFileWebServer
    path = os.path.join(workdir, "served.bin")
    with open(path, "wb") as f:
        f.write(b"x" * 4096)
    server = StaticFileWebServer(path, "127.0.0.1")
    await server.start()
    leaks = []
    try:
        reader, writer = await asyncio.wait_for(asyncio.open_connection("127.0.0.1", server._port), 5)
        writer.write(b"GET /served.bin HTTP/1.1\r\nHost: x\r\nConnection: keep-alive\r\n\r\n")
        await writer.drain()
        got = b""
        while b"\r\n\r\n" not in got or len(got.split(b"\r\n\r\n", 1)[1]) < 4096:
            chunk = await asyncio.wait_for(reader.read(65536), 5)
            if not chunk:
                break
            got += chunk
        if not got.startswith(b"HTTP/1.1 200"):
            return {"result": "skipped", "leaks": [], "note": "download did not succeed: %r" % got[:40]}
    finally:
        await asyncio.wait_for(server.close(), 10)
    try:
        rest = await asyncio.wait_for(reader.read(1), 3)
        if rest != b"":
            leaks.append("web server still talks on a connection accepted before close()")
    except asyncio.TimeoutError:
        leaks.append("a connection accepted before close() is still open after the local web server was closed")
    try:
        r2, w2 = await asyncio.wait_for(asyncio.open_connection("127.0.0.1", server._port), 2)
        w2.close()
        leaks.append("web server port still accepts connections after close()")
    except (OSError, asyncio.TimeoutError):
        pass
    writer.close()
    return {"result": "ok", "leaks": leaks}


# -- connect ---------------------------------------------------------------------------------------------

async def scenario_connect(subset, fail_at, fail_kind):
    """Real pyatv.connect with PROTOCOLS replaced by fakes; protocol number fail_at of the subset fails."""
    import pyatv
    from pyatv.const import Protocol
    from pyatv.core import SetupData
    from pyatv import conf
    from pyatv.support import http as http_mod

    log = {"connected": [], "closed": [], "session_closed": 0, "session_created": 0, "tasks_run": 0}

    class SM:
        session = None

        async def close(self):
            log["session_closed"] += 1

    async def create_session(session=None):
        log["session_created"] += 1
        return SM()

    from pyatv.storage.memory_storage import MemoryStorage

    class Storage(MemoryStorage):
        async def get_settings(self, config):
            if fail_kind == "get_settings":
                raise Boom("storage backend failed")
            return await super().get_settings(config)

    def mk_setup(proto, idx):
        def setup(core):
            async def connect():
                if idx == fail_at:
                    if fail_kind in ("exn", "exn+closefault"):
                        raise Boom("connect failed for %s" % proto.name)
                    if fail_kind == "oserror":
                        raise OSError("unreachable")
                log["connected"].append(proto.name)
                return True

            def device_info():
                # the connection of this protocol IS established when these run
                if idx == fail_at and fail_kind == "device_info":
                    raise Boom("device_info failed for %s" % proto.name)
                return {}

            class Ifaces(dict):
                def items(self):
                    if idx == fail_at and fail_kind == "interfaces":
                        raise Boom("interfaces failed for %s" % proto.name)
                    return super().items()

            class Feats(set):
                def __iter__(self):
                    if idx == fail_at and fail_kind == "features":
                        raise Boom("features failed for %s" % proto.name)
                    return super().__iter__()

            def close():
                log["closed"].append(proto.name)

                async def bg():
                    if fail_kind == "exn+closefault":
                        # disconnecting is not instantaneous and may itself fail: the first protocol's
                        # close task raises at once, the others need a moment
                        if idx == 0:
                            raise RuntimeError("close task of %s failed" % proto.name)
                        await asyncio.sleep(1)
                    log["tasks_run"] += 1
                return {asyncio.ensure_future(bg())}

            if idx == fail_at and fail_kind == "setup":
                # setting the protocol up fails (e.g. unparsable credentials): nothing is connected
                # yet, but connect() has already created the HTTP session manager
                raise Boom("setup failed for %s" % proto.name)
            yield SetupData(proto, connect, close, device_info, Ifaces(), Feats())
        return setup

    class PM:
        def __init__(self, setup):
            self.setup = setup

    saved_protocols = dict(pyatv.PROTOCOLS)
    saved_cs = http_mod.create_session
    pyatv.PROTOCOLS.clear()
    for i, p in enumerate(subset):
        pyatv.PROTOCOLS[p] = PM(mk_setup(p, i))
    http_mod.create_session = create_session
    try:
        cfg = conf.AppleTV("127.0.0.1", "x")
        for p in subset:
            cfg.add_service(conf.ManualService("id-%s" % p.name, p, 1000, {}))
        try:
            atv = await pyatv.connect(cfg, asyncio.get_event_loop(), storage=Storage())
            res = "ok"
            tasks = atv.close()
            if tasks:
                await asyncio.wait(tasks)
        except BaseException as ex:  # noqa
            res = "raised:" + type(ex).__name__
        for _ in range(5):
            await asyncio.sleep(0)
        leaks = []
        if fail_kind == "exn+closefault" and res not in ("ok", "raised:Boom"):
            leaks.append("connect() reported %s instead of the failure that made it give up" % res)
        if res != "ok":
            for name in log["connected"]:
                if name not in log["closed"]:
                    leaks.append("protocol %s left connected" % name)
            if log["session_closed"] != log["session_created"] or log["session_created"] > 1:
                leaks.append("session manager created %d times, closed %d times" % (log["session_created"], log["session_closed"]))
            pending = [t for t in asyncio.all_tasks() if t is not asyncio.current_task() and not t.done()]
            if pending:
                leaks.append("%d background task(s) left" % len(pending))
        return {"result": res, "log": log, "leaks": leaks}
    finally:
        pyatv.PROTOCOLS.clear()
        pyatv.PROTOCOLS.update(saved_protocols)
        http_mod.create_session = saved_cs


# -- takeover bookkeeping of the real facade ------------------------------------------------------------

TAKEOVER_PROTOS = ["MRP", "AirPlay", "RAOP"]     # numbered 1..3 in the model


def takeover_ifaces():
    from pyatv import interface
    return [interface.RemoteControl, interface.Audio, interface.Metadata]    # numbered 0..2; 3.. = no relayer


def takeover_histories(rng, thorough):
    """Operation lists: ("take", proto_no, [iface numbers]) / ("release", k) where k numbers the
    accepted takeovers; a handle is released at most once."""
    lists = [[]] + [[a] for a in range(4)] + [[a, b] for a in range(4) for b in range(4)]
    lists += [[0, 1, 2], [2, 1, 0], [3, 2, 0, 1], [1, 3, 1]]
    takes = [("take", p, l) for p in (1, 2) for l in lists]
    hist = [[a] for a in takes]
    # every pair of takeovers, each followed by the possible releases
    for a in takes:
        for b in takes:
            hist.append([a, b])
    n = 1500 if not thorough else 12000
    for _ in range(n):
        h = []
        accepted_guess = 0
        released = set()
        for _ in range(rng.randint(3, 7)):
            if accepted_guess > len(released) and rng.random() < 0.4:
                k = rng.choice([x for x in range(accepted_guess) if x not in released])
                released.add(k)
                h.append(("release", k))
            else:
                p = rng.randint(1, 3)
                l = [rng.randrange(4) for _ in range(rng.randint(0, 3))]
                h.append(("take", p, l))
                accepted_guess += 1      # upper bound; releases of refused ones are dropped at run time
        hist.append(h)
    return hist


def run_takeover_history(hist):
    """Run one history on a real FacadeAppleTV; returns (ops actually performed, observations, problems)."""
    from ipaddress import IPv4Address
    from pyatv import conf, exceptions
    from pyatv.const import Protocol
    from pyatv.core import CoreStateDispatcher
    from pyatv.core.facade import FacadeAppleTV
    from pyatv.settings import Settings
    atv = FacadeAppleTV(conf.AppleTV(IPv4Address("127.0.0.1"), "verif"), None, CoreStateDispatcher(), Settings())
    ifaces = takeover_ifaces()
    protos = [Protocol[n] for n in TAKEOVER_PROTOS]

    class NoRelayer:
        pass

    def holders():
        out = []
        for i in ifaces:
            t = atv._interfaces[i]._takeover_protocol
            out.append(protos.index(t[0]) + 1 if t else None)
        return out

    handles = []          # release functions of accepted takeovers, in order
    alive = []
    ops, obs, problems = [], [], []
    for o in hist:
        before = holders()
        if o[0] == "take":
            args = [ifaces[i] if i < len(ifaces) else NoRelayer for i in o[2]]
            try:
                rel = atv.takeover(protos[o[1] - 1], *args)
                ok = True
                handles.append(rel)
                alive.append(True)
            except exceptions.InvalidStateError:
                ok = False
            after = holders()
            if not ok and after != before:
                problems.append("refused takeover by %s of %s changed the holders from %s to %s" % (TAKEOVER_PROTOS[o[1] - 1], o[2], before, after))
            if ok:
                for j in range(len(ifaces)):
                    want = o[1] if j in o[2] else before[j]
                    if after[j] != want:
                        problems.append("accepted takeover of %s by %d: interface %d held by %s, expected %s" % (o[2], o[1], j, after[j], want))
            ops.append(o)
            obs.append((after, ok))
        else:
            k = o[1]
            if k >= len(handles) or not alive[k]:
                continue
            alive[k] = False
            handles[k]()
            ops.append(o)
            obs.append((holders(), True))
    # releasing whatever is still held leaves every interface free
    for k, rel in enumerate(handles):
        if alive[k]:
            rel()
    if any(h is not None for h in holders()):
        problems.append("interfaces still taken over after every handle was released: %s" % holders())
    return ops, obs, problems


def takeover_part(ctx):
    def c_on(x):
        return "None" if x is None else "(Some %d)" % x

    def c_op(o):
        return "Take %d %s" % (o[1], common.clist([str(i) for i in o[2]])) if o[0] == "take" else "Release %d" % o[1]

    cc = common.CoqCases(ctx, "From PV Require Import Common.Cases C18.TakeoverModel.", per_file=400)
    cc.group("takeover", "check_takeover_case", "nat * list op * list (slots * bool)")
    try:
        hists = takeover_histories(ctx.rng, ctx.thorough)
        for h in hists:
            ops, obs, problems = run_takeover_history(h)
            nref = sum(1 for _, ok in obs if not ok)
            ctx.case(("takeover", tuple((o[0], o[1], tuple(o[2]) if o[0] == "take" else None) for o in ops)), nontrivial=len(ops) > 1,
                     sample={"op": "takeover history", "ops": ops, "holders_after_each": [o_[0] for o_ in obs], "accepted": [o_[1] for o_ in obs]} if (nref and len(ops) > 3) else None)
            ctx.count("takeover:refused" if nref else "takeover:all-accepted")
            rp = {"op": "takeover", "history": ops, "observed": [[o_[0], o_[1]] for o_ in obs]}
            for pr in problems:
                key = ("C18:takeover:refused-call-disturbs-holder" if "refused" in pr else
                       "C18:takeover:still-held-after-release" if "still taken" in pr else "C18:takeover:accepted-wrong-holders")
                ctx.violation(key, pr, rp)
            term = "(3, %s, %s)" % (common.clist([c_op(o) for o in ops]),
                                    common.clist(["(%s, %s)" % (common.clist([c_on(x) for x in hs]), "true" if ok else "false") for hs, ok in obs]))
            cc.add("takeover", term, rp)
    except AttributeError as ex:
        ctx.tie_broken("takeover:driver", "the facade/relayer no longer has the attributes the driver reads: %r" % ex)
        return
    for g, meta in cc.run():
        ctx.tie_broken("correspondence:takeover", json.dumps(meta)[:1500])


def leak_key(op, leaks, hit):
    l = leaks[0]
    if op == "connect":
        if "left connected" in l:
            return "C18:connect:earlier-protocols-left-open"
        if "instead of the failure" in l:
            return "C18:connect:original-error-replaced"
        if "background task" in l:
            return "C18:connect:background-tasks-left"
        return "C18:connect:" + l.split()[0]
    if op == "stream_file":
        if hit == "core.takeover":
            return "C18:stream_file:takeover-raises"
        if hit == "audio_file.close":
            return "C18:stream_file:close-raises-skips-teardown"
        return "C18:stream_file:leak-at-" + str(hit)
    if op == "play_url":
        if hit == "core.takeover":
            return "C18:play_url:takeover-raises"
        return "C18:play_url:leak-at-" + str(hit)
    if op == "send_audio":
        return "C18:send_audio:leak-at-" + str(hit)
    return "C18:%s:leak" % op


def run(ctx):
    sk = None
    try:
        sk = gen(ctx)
    except Exception as ex:
        ctx.tie_broken("translator:skeleton", repr(ex))
    ok = ctx.build_property()
    if ctx.thorough:
        ctx.coqchk()
    ctx.rule = ("fault enumeration: for stream_file (3 variants) and play_url (remote URL / local file) a failure and a cancellation is injected "
                "at every collaborator call in turn; for connect() every non-empty subset of the five protocols x every position of the failing "
                "protocol x {exception, OSError}; non-trivial = the injected fault was actually hit")
    ctx.extra["skeletons"] = {}
    if sk:
        for name, (cmd, labels, pred, spec) in sk.items():
            ctx.extra["skeletons"][name] = {"listing": gs.pretty(cmd, 0, labels), "predicate": pred, "calls": len(labels),
                                            "effect_table": [[r, [list(e) for e in effs]] for r, effs in spec.get("effects", [])],
                                            "guards": spec.get("guards", {}), "assumed_not_to_fail": spec.get("nofail", [])}
            # independent search for a violating execution of the skeleton (gives the witness when
            # the Coq obligation fails)
            bad = skeleton_witnesses(cmd, pred)
            ctx.extra["skeletons"][name]["violating_paths"] = len(bad)
            for o, held, path in bad[:3]:
                ctx.tie_broken("skeleton:%s" % name, json.dumps({
                    "outcome": {"E": "exception", "C": "cancelled", "N": "normal", "R": "return"}[o],
                    "still_held": [RES_NAMES[h] for h in held],
                    "decisions": [(labels[l], what) for l, what in path]}))

    # ---- fault enumeration on the real code
    from pyatv.const import Protocol
    import itertools
    for variant in (0, 1, 2):
        base = vloop.run(scenario_stream_file, 0, "exn", variant)
        ncalls = base["calls"]
        if base["leaks"] or base["result"] != "ok":
            ctx.violation("C18:stream_file:fault-free-run", "fault-free stream_file leaks or fails", {"op": "stream_file", "variant": variant, "observed": base})
        for n in range(1, ncalls + 1):
            for mode in ("exn", "cancel"):
                r = vloop.run(scenario_stream_file, n, mode, variant)
                ctx.case(("stream_file", variant, n, mode), nontrivial=r["hit"] is not None,
                         sample={"op": "stream_file", "variant": variant, "fault": mode, "at": r["hit"], "result": r["result"], "leaks": r["leaks"]})
                ctx.count("stream_file:" + mode)
                if r["leaks"]:
                    ctx.violation(leak_key("stream_file", r["leaks"], r["hit"]), "stream_file: " + "; ".join(r["leaks"]),
                                  {"op": "stream_file", "variant": variant, "fault": mode, "nth_call": n, "at": r["hit"], "observed": r})
    base = vloop.run(scenario_stream_file, 0, "exn", 0)
    for n in range(1, base["calls"] + 1):
        r = vloop.run(scenario_stream_overlap, n)
        ctx.case(("stream_overlap", n), nontrivial=True, sample={"op": "stream_file overlap", "first_blocked_at": r["hit"], "leaks": r["leaks"]} if n == 3 else None)
        ctx.count("stream_file:overlap")
        if r["leaks"]:
            ctx.violation("C18:stream_file:overlap", "overlapping stream_file: " + "; ".join(r["leaks"]),
                          {"op": "stream_overlap", "nth_call": n, "at": r["hit"], "observed": r})
    for local in (False, True):
        base = vloop.run(scenario_play_url, 0, "exn", local)
        if base["leaks"] or base["result"] != "ok":
            ctx.violation("C18:play_url:fault-free-run", "fault-free play_url leaks or fails", {"op": "play_url", "local": local, "observed": base})
        for n in range(1, base["calls"] + 1):
            for mode in ("exn", "cancel"):
                r = vloop.run(scenario_play_url, n, mode, local)
                ctx.case(("play_url", local, n, mode), nontrivial=r["hit"] is not None,
                         sample={"op": "play_url", "local_file": local, "fault": mode, "at": r["hit"], "result": r["result"], "leaks": r["leaks"]})
                ctx.count("play_url:" + mode)
                if r["leaks"]:
                    ctx.violation(leak_key("play_url", r["leaks"], r["hit"]), "play_url: " + "; ".join(r["leaks"]),
                                  {"op": "play_url", "local": local, "fault": mode, "nth_call": n, "at": r["hit"], "observed": r})
    for local in (False, True):
        r = vloop.run(scenario_play_url, 0, "exn", local, True)
        ctx.case(("play_url-refused", local), nontrivial=True, sample={"op": "play_url while another stream holds RemoteControl", "local_file": local, "result": r["result"], "leaks": r["leaks"]})
        ctx.count("play_url:refused")
        if r["leaks"]:
            ctx.violation("C18:play_url:refused-while-other-stream-active", "play_url while another stream is active: " + "; ".join(r["leaks"]),
                          {"op": "play_url_refused", "local": local, "observed": r})
    base = vloop.run(scenario_send_audio, 0, "exn")
    if base["leaks"] or base["result"] != "ok":
        ctx.violation("C18:send_audio:fault-free-run", "fault-free send_audio leaks or fails", {"op": "send_audio", "observed": base})
    for n in range(1, base["calls"] + 1):
        for mode in ("exn", "cancel"):
            r = vloop.run(scenario_send_audio, n, mode)
            ctx.case(("send_audio", n, mode), nontrivial=r["hit"] is not None,
                     sample={"op": "send_audio", "fault": mode, "at": r["hit"], "result": r["result"], "leaks": r["leaks"]} if n == 3 else None)
            ctx.count("send_audio:" + mode)
            if r["leaks"]:
                ctx.violation(leak_key("send_audio", r["leaks"], r["hit"]), "send_audio: " + "; ".join(r["leaks"]),
                              {"op": "send_audio", "fault": mode, "nth_call": n, "at": r["hit"], "observed": r})
    for model in ("AppleTV", "AirPort10,115"):
        base = vloop.run(scenario_initialize, 0, "exn", model)
        if base["leaks"] or base["result"] != "ok":
            ctx.violation("C18:initialize:fault-free-run", "fault-free StreamClient.initialize + close leaks or fails", {"op": "initialize", "model": model, "observed": base})
        for n in range(1, base["calls"] + 1):
            for mode in ("exn", "cancel"):
                r = vloop.run(scenario_initialize, n, mode, model)
                ctx.case(("initialize", model, n, mode), nontrivial=r["hit"] is not None,
                         sample={"op": "StreamClient.initialize", "fault": mode, "at": r["hit"], "result": r["result"], "leaks": r["leaks"]} if n == 2 else None)
                ctx.count("initialize:" + mode)
                if r["leaks"]:
                    ctx.violation("C18:initialize:leak-at-%s-%d" % (r["hit"], n), "StreamClient.initialize: " + "; ".join(r["leaks"]),
                                  {"op": "initialize", "model": model, "fault": mode, "nth_call": n, "at": r["hit"], "observed": r})
    for version in (1, 2):
        for chan in (False, True):
            for fb in (False, True):
                r = vloop.run(scenario_protocol_teardown, version, chan, fb)
                ctx.case(("protocol-teardown", version, chan, fb), nontrivial=chan or fb,
                         sample={"op": "AirPlayV%d.teardown" % version, "event_channel": chan, "feedback_started": fb, "leaks": r["leaks"]} if (chan and not fb) else None)
                ctx.count("protocol-teardown")
                if r["leaks"]:
                    ctx.violation("C18:teardown:airplayv%d:%s" % (version, "event-channel-left-open" if "event channel" in r["leaks"][0] else "task-left-running"),
                                  "AirPlayV%d.teardown(): %s" % (version, "; ".join(r["leaks"])),
                                  {"op": "protocol_teardown", "version": version, "event_channel": chan, "feedback_started": fb, "observed": r})
    try:
        import tempfile
        os.makedirs(os.path.join(common.BUILD, "c18web"), exist_ok=True)
        loop = asyncio.new_event_loop()
        try:
            r = loop.run_until_complete(asyncio.wait_for(real_web_server_close(os.path.join(common.BUILD, "c18web")), 40))
        finally:
            loop.close()
        ctx.case(("web-server-close",), nontrivial=r["result"] == "ok", sample={"op": "StaticFileWebServer.close with a kept-alive connection", "result": r["result"], "leaks": r["leaks"]})
        ctx.count("web-server-close:" + r["result"])
        if r["leaks"]:
            ctx.violation("C18:play_url:web-server-connection-left-open", "local web server: " + "; ".join(r["leaks"]), {"op": "web_server_close", "observed": r})
    except OSError as ex:
        ctx.note("real web server scenario skipped (loopback sockets unavailable): %r" % ex)
    protos = [Protocol.MRP, Protocol.DMAP, Protocol.Companion, Protocol.AirPlay, Protocol.RAOP]
    for k in range(1, 6):
        for subset in itertools.combinations(protos, k):
            for fail_at in range(k):
                for kind in ("exn", "oserror", "device_info", "interfaces", "features", "setup", "get_settings", "exn+closefault"):
                    r = vloop.run(scenario_connect, list(subset), fail_at, kind)
                    if kind == "features" and r["result"] == "ok":
                        continue     # the facade did not iterate the feature set: nothing was injected
                    ctx.case(("connect", tuple(p.name for p in subset), fail_at, kind), nontrivial=fail_at > 0 or kind not in ("exn", "oserror", "setup", "get_settings"),
                             sample={"op": "connect", "protocols": [p.name for p in subset], "failing": fail_at, "result": r["result"], "leaks": r["leaks"]} if fail_at == 1 else None)
                    ctx.count("connect:" + kind)
                    if r["result"] == "ok":
                        ctx.violation("C18:connect:failure-swallowed", "connect() did not raise", {"op": "connect", "observed": r})
                    if r["leaks"]:
                        ctx.violation(leak_key("connect", r["leaks"], None), "connect: " + "; ".join(r["leaks"]),
                                      {"op": "connect", "protocols": [p.name for p in subset], "failing_index": fail_at, "kind": kind, "observed": r})
    takeover_part(ctx)
    ctx.exhaustive = True
    ctx.traces = ctx.evaluations
    ctx.trusted += [
        "harness/gen_skeleton.py + the effect/guard/no-fail tables in harness/c18.py (printed in this evidence under 'skeletons'): trusted to emit what the source says; fail closed on unsupported constructs",
        "the skeleton abstracts data: a call either returns, raises or (if awaited) is cancelled; that a given collaborator really fails that way is what the fault enumeration samples",
        "fake collaborators of the fault enumeration (playback session, audio source, web server, http connection, protocol SetupData)",
    ]
    ctx.assumptions += ["calls listed under assumed_not_to_fail (constructors, closing a transport, logging) do not raise",
                        "connect(): only failures (exceptions) are required to clean up, per the property text; cancellation of connect() is not judged"]


def replay(ctx, path):
    d = json.load(open(path))
    r = d.get("replay", {})
    op = r.get("op")
    if op == "stream_file":
        out = vloop.run(scenario_stream_file, r["nth_call"], r["fault"], r["variant"])
    elif op == "play_url":
        out = vloop.run(scenario_play_url, r["nth_call"], r["fault"], r["local"])
    elif op == "protocol_teardown":
        out = vloop.run(scenario_protocol_teardown, r["version"], r["event_channel"], r["feedback_started"])
    elif op == "web_server_close":
        os.makedirs(os.path.join(common.BUILD, "c18web"), exist_ok=True)
        out = asyncio.new_event_loop().run_until_complete(real_web_server_close(os.path.join(common.BUILD, "c18web")))
    elif op == "initialize":
        out = vloop.run(scenario_initialize, r["nth_call"], r["fault"], r["model"])
    elif op == "play_url_refused":
        out = vloop.run(scenario_play_url, 0, "exn", r["local"], True)
    elif op == "stream_overlap":
        out = vloop.run(scenario_stream_overlap, r["nth_call"])
    elif op == "send_audio":
        out = vloop.run(scenario_send_audio, r["nth_call"], r["fault"])
    elif op == "takeover":
        ops, obs, problems = run_takeover_history([tuple(o) for o in r["history"]])
        print("\n".join(problems) or "no problem")
        return 1 if problems else 0
    elif op == "connect":
        from pyatv.const import Protocol
        out = vloop.run(scenario_connect, [Protocol[p] for p in r["protocols"]], r["failing_index"], r["kind"])
    else:
        print(json.dumps(d, indent=1)[:3000])
        return 1
    print(json.dumps(out, indent=1, default=repr))
    return 1 if out["leaks"] else 0
