"""C12 - discovery result independent of packet order and duplication.

Theorems in coq/C12; this file drives the REAL MulticastDnsSdClientProtocol /
UnicastDnsSdClientProtocol (pyatv/core/mdns.py) through the real scanners
(pyatv/core/scan.py) and pyatv.scan() with fake transports, judges the property text on
the returned configurations, and compares every run with the Gallina model inside Coq.

Datagrams are built by the DNS encoder below, written from RFC 1035 (4.1 message format,
4.1.4 name compression), RFC 2782 (SRV), RFC 6763 section 6 (TXT key=value strings).  pyatv's own
encoder (pyatv.support.dns.DnsMessage.pack) is NOT used.
"""
import asyncio
import itertools
import json
import struct
import time

import common
import vloop

# --------------------------------------------------------------------------- DNS encoder (RFC 1035)

T_A, T_PTR, T_TXT, T_SRV, T_AAAA, T_NSEC = 1, 12, 16, 33, 28, 47


class Enc:
    """One DNS message under construction; names may be compressed (RFC 1035 4.1.4)."""

    def __init__(self, compress):
        self.buf = bytearray(12)
        self.compress = compress
        self.offsets = {}

    def name(self, labels):
        """labels: list of str (no root label)."""
        labels = list(labels)
        out = bytearray()
        for i in range(len(labels)):
            suffix = tuple(labels[i:])
            if self.compress and suffix in self.offsets:
                ptr = self.offsets[suffix]
                out += struct.pack(">H", 0xC000 | ptr)
                return bytes(out)
            off = len(self.buf) + len(out)
            if off < 0x3FFF:
                self.offsets.setdefault(suffix, off)
            raw = labels[i].encode("utf-8")
            assert 0 < len(raw) < 64, labels
            out += bytes([len(raw)]) + raw
        out += b"\x00"
        return bytes(out)

    def rr(self, rec):
        """rec: dict(name=[labels], type, cls, ttl, and one of ip/target/txt/srv/raw)."""
        self.buf += self.name(rec["name"])
        self.buf += struct.pack(">HHI", rec["type"], rec["cls"], rec["ttl"])
        lenpos = len(self.buf)
        self.buf += b"\x00\x00"
        t = rec["type"]
        if t == T_A:
            self.buf += struct.pack(">I", rec["ip"])
        elif t == T_PTR:
            self.buf += self.name(rec["target"])
        elif t == T_TXT:
            for ch in rec["txt"]:
                raw = txt_chunk(ch)
                assert len(raw) < 256
                self.buf += bytes([len(raw)]) + raw
        elif t == T_SRV:
            self.buf += struct.pack(">HHH", rec["prio"], rec["weight"], rec["port"])
            self.buf += self.name(rec["target"])
        else:
            self.buf += bytes(rec["raw"])
        rdlen = len(self.buf) - lenpos - 2
        self.buf[lenpos:lenpos + 2] = struct.pack(">H", rdlen)
        return rdlen

    def finish(self, nan, nar):
        self.buf[0:12] = struct.pack(">6H", 0, 0x8400, 0, nan, 0, nar)
        return bytes(self.buf)


def txt_chunk(ch):
    """ch = [key, value_bytes_hex or None]; None => attribute present without '='."""
    k, v = ch
    kb = bytes.fromhex(k[4:]) if k.startswith("hex:") else k.encode("ascii")     # "hex:..." = raw key bytes
    if v is None:
        return kb
    return kb + b"=" + bytes.fromhex(v)


def encode_msg(msg):
    """msg = dict(answers=[rec], additional=[rec], compress=bool) -> (bytes, [rdlen per record])."""
    e = Enc(msg.get("compress", False))
    lens = []
    for r in msg["answers"]:
        lens.append(e.rr(r))
    for r in msg["additional"]:
        lens.append(e.rr(r))
    return e.finish(len(msg["answers"]), len(msg["additional"])), lens


# --------------------------------------------------------------------------- driver for the real code

class FakeReceiver:
    """Stands in for mdns.ReceiveDelegate in MulticastDnsSdClientProtocol._receivers."""

    def __init__(self):
        self.closed = False
        self.closed_by_protocol = False
        self.sent = 0

    def sendto(self, message, target):
        self.sent += 1

    def close(self):
        self.closed = True


class FakeTransport:
    """Stands in for the connected datagram transport of UnicastDnsSdClientProtocol."""

    def __init__(self):
        self.closed = False
        self.sent = 0

    def sendto(self, data, addr=None):
        self.sent += 1

    def close(self):
        self.closed = True


def ip_str(n):
    return "%d.%d.%d.%d" % ((n >> 24) & 255, (n >> 16) & 255, (n >> 8) & 255, n & 255)


async def _scan(mode, protos, ids, feed, burst=False, timeout=3):
    """Run pyatv.scan() with the socket layer replaced.

    mode 'm': feed = [(src_ip_int, bytes)] delivered in order to the real
              MulticastDnsSdClientProtocol.datagram_received (through the same
              catch-and-log barrier ReceiveDelegate/asyncio apply), until the protocol closes.
    mode 'u': feed = [[bytes]] per host, delivered to the real UnicastDnsSdClientProtocol
              until it closes its transport.
    burst=False: one datagram per event-loop iteration, and nothing any more once the protocol closed
              its receivers / transport (what a selector transport does after close()).
    burst=True:  the whole sequence is handed over synchronously in one go (no await in between) and
              datagram_received keeps being called for the rest of the batch after the protocol
              considered itself finished.
    Returns (configs, info).
    """
    import pyatv
    from pyatv.const import Protocol
    from pyatv.core import mdns
    from pyatv.core import scan as scanmod

    loop = asyncio.get_event_loop()
    nh = len(feed) if mode == "u" else 0
    info = {"delivered": [0] * nh if mode == "u" else [0], "raised": 0, "completed": [False] * nh, "aborted": False,
            "abort_at": None}

    async def fake_multicast(loop_, services, address="224.0.0.251", port=5353, timeout=4, end_condition=None):
        protocol = mdns.MulticastDnsSdClientProtocol(loop_, services, address, port, end_condition)
        recv = FakeReceiver()
        protocol._receivers.append(recv)
        def one(k):
            src, data = feed[k]
            try:
                protocol.datagram_received(data, (ip_str(src), 5353))
            except Exception:  # what ReceiveDelegate.datagram_received does
                info["raised"] += 1
            info["delivered"] = [k + 1]
            if recv.closed and info["abort_at"] is None:
                info["abort_at"] = k
            info["aborted"] = bool(recv.closed)

        def deliver(k=0):
            if burst:
                for j in range(len(feed)):
                    one(j)
            elif k < len(feed) and not recv.closed:
                one(k)
                loop_.call_soon(deliver, k + 1)

        loop_.call_soon(deliver)
        return await protocol.get_response(timeout)

    hostno = {}

    async def fake_unicast(loop_, address, services, port=5353, timeout=4):
        protocol = mdns.UnicastDnsSdClientProtocol(services, address, timeout)
        tr = FakeTransport()
        idx = hostno[address]
        def one(k):
            try:
                protocol.datagram_received(feed[idx][k], (address, 5353))
            except Exception:  # asyncio logs and continues (call_exception_handler)
                info["raised"] += 1
            info["delivered"][idx] = k + 1
            info["completed"][idx] = bool(tr.closed)

        def deliver(k=0):
            if burst:
                for j in range(len(feed[idx])):
                    one(j)
            elif k < len(feed[idx]) and not tr.closed:
                one(k)
                loop_.call_soon(deliver, k + 1)

        protocol.connection_made(tr)
        loop_.call_soon(deliver)
        try:
            return await protocol.get_response()
        finally:
            tr.close()

    async def fake_knocker(*a, **kw):
        async def nothing():
            pass
        return asyncio.ensure_future(nothing())

    proto = None
    if protos:
        proto = {Protocol[p] for p in protos}
    identifier = set(ids) if ids else None
    hosts = None
    if mode == "u":
        hosts = ["10.9.9.%d" % (i + 1) for i in range(len(feed))]
        hostno.update({h: i for i, h in enumerate(hosts)})
    saved = (mdns.multicast, mdns.unicast, scanmod.knock.knocker)
    mdns.multicast, mdns.unicast, scanmod.knock.knocker = fake_multicast, fake_unicast, fake_knocker
    try:
        confs = await pyatv.scan(loop, timeout=timeout, identifier=identifier, protocol=proto, hosts=hosts)
    finally:
        mdns.multicast, mdns.unicast, scanmod.knock.knocker = saved
    return confs, info


def observe(confs):
    """Exact (ordered) observation of the returned configurations."""
    out = []
    for c in confs:
        out.append({
            "address": int(c.address),
            "name": c.name,
            "deep_sleep": bool(c.deep_sleep),
            "model": int(c.device_info.model.value),
            "properties": [[t, [[k, v] for k, v in dict(p).items()]] for t, p in c.properties.items()],
            "services": [[s.protocol.name, s.identifier, int(s.port), [[k, v] for k, v in s.properties.items()]]
                         for s in c.services],
            "identifier": c.identifier,
            "main_service": _main_service(c),
            "devinfo": _devinfo(c),
        })
    return out


def _main_service(c):
    try:
        s = c.main_service()
    except Exception:  # NoServiceError
        return None
    return [s.protocol.name, int(s.port)]


def _devinfo(c):
    """What else a user reads from device_info (judged by the oracle only, not modelled)."""
    d = c.device_info
    try:
        return [int(d.operating_system.value), d.version, d.build_number, d.mac, d.output_device_id, d.raw_model]
    except Exception as ex:
        return ["EXC", repr(ex)]


def devinfo_unambiguous(c, protos):
    """Premise for judging the remaining device_info fields: the extractors of the requested protocols,
    each applied on its own to one service type's properties (no order involved), do not contradict each
    other in any key - the formal reading of "self-consistent" for those fields."""
    from pyatv.const import Protocol
    from pyatv.protocols import PROTOCOLS
    from pyatv.support.collections import CaseInsensitiveDict
    seen = {}
    for t, props in c["properties"]:
        for pname in (protos or PROTO_ORDER):
            if t in TYPES[pname]:
                try:
                    d = PROTOCOLS[Protocol[pname]].device_info(t, CaseInsensitiveDict(dict(props)))
                except Exception:
                    d = {}
                for k, v in d.items():
                    if seen.setdefault(k, v) != v:
                        return False
    return True


def run_scan(mode, protos, ids, feed, burst=False):
    confs, info = vloop.run(_scan, mode, protos, ids, feed, burst)
    return observe(confs), info


# --------------------------------------------------------------------------- simulated devices

DEVINFO = "_device-info._tcp.local"
SLEEP = "_sleep-proxy._udp.local"
TYPES = {
    "AirPlay": ["_airplay._tcp.local"],
    "Companion": ["_companion-link._tcp.local"],
    "DMAP": ["_appletv-v2._tcp.local", "_touch-able._tcp.local", "_hscp._tcp.local"],
    "MRP": ["_mediaremotetv._tcp.local"],
    "RAOP": ["_raop._tcp.local", "_airport._tcp.local"],
}
PROTO_ORDER = ["AirPlay", "Companion", "DMAP", "MRP", "RAOP"]
PROTO_NUM = {"DMAP": 1, "MRP": 2, "AirPlay": 3, "Companion": 4, "RAOP": 5}
ALL_TYPES = [t for p in PROTO_ORDER for t in TYPES[p]]
FOREIGN_TYPES = ["_googlecast._tcp.local", "_ipp._tcp.local", "_homekit._tcp.local"]
MODEL_STRS = ["AppleTV6,2", "AppleTV5,3", "AudioAccessory5,1", "AppleTV3,2", "Bogus1,1"]
INTERNAL_STRS = ["J105aAP", "J42dAP", "J33AP", "NopeAP"]


def requested_types(protos):
    ps = [p for p in PROTO_ORDER if (not protos or p in protos)]
    return [DEVINFO, SLEEP] + [t for p in ps for t in TYPES[p]]


def nqueries(protos):
    return (len(requested_types(protos)) + 2) // 3


def hx(s):
    return s.encode("utf-8").hex()


def L(name):
    return name.split(".")


def decode_value(b):
    """What mdns.decode_value is documented to do (model input abstraction for TXT values)."""
    try:
        return b.replace(b"\xc2\xa0", b" ").replace(b"\x00\xa0", b" ").decode("utf-8")
    except Exception:
        return str(b)


def rec_ptr(ty, full, ttl=10):
    return {"name": L(ty), "type": T_PTR, "cls": 1, "ttl": ttl, "target": full}


def rec_srv(full, port, target, ttl=10, prio=0, weight=0):
    return {"name": full, "type": T_SRV, "cls": 0x8001, "ttl": ttl, "prio": prio, "weight": weight,
            "port": port, "target": target}


def rec_txt(full, chunks, ttl=10):
    return {"name": full, "type": T_TXT, "cls": 0x8001, "ttl": ttl, "txt": chunks}


def rec_a(host, ip, ttl=10):
    return {"name": host, "type": T_A, "cls": 0x8001, "ttl": ttl, "ip": ip}


def rec_raw(name, typ, raw, ttl=10):
    return {"name": name, "type": typ, "cls": 1, "ttl": ttl, "raw": list(raw)}


def vary_key(rng, k):
    """TXT keys are case-insensitive: vary the case now and then."""
    r = rng.random()
    if r < 0.15:
        return k.upper()
    if r < 0.3:
        return k.lower()
    return k


def make_service(rng, ty, dev, idx):
    """One service instance of a simulated device: (type, instance label(s), port, txt chunks)."""
    did = dev["id"]
    name = dev["name"]
    blank = dev.get("blank", ())      # identifier sources of this device that are present but EMPTY / missing
    chunks = []
    inst = name
    port = 1024 + rng.randrange(60000)
    if ty == "_airplay._tcp.local":
        chunks = [["deviceid", "" if "airplay" in blank else hx(did + ":AP")], ["features", hx("0x4A7FCA00,0xBC354BD0")]]
        if dev.get("apmodel"):
            chunks.append(["model", hx(dev["apmodel"])])
        if rng.random() < 0.3:
            chunks.append(["acl", hx("0")])
    elif ty == "_companion-link._tcp.local":
        chunks = [["rpHA", hx("9948cfb6da55")], ["rpFl", hx("0x36782")]]
        if (rng.random() < 0.6 or dev.get("force_companion_id")) and "companion" not in blank:
            chunks.append(["rpMRtID", hx(did + "-CMP")])
        elif "companion" in blank and rng.random() < 0.5:
            chunks.append(["rpMRtID", ""])
        if dev.get("apmodel") and rng.random() < 0.5:
            chunks.append(["rpMd", hx(dev["apmodel"])])
    elif ty == "_mediaremotetv._tcp.local":
        chunks = [["Name", hx(name)], ["UniqueIdentifier", "" if "mrp" in blank else hx(did + "-MRP")],
                  ["SystemBuildVersion", hx(rng.choice(["18M60", "19J346", "17K449"]))]]
        if rng.random() < 0.5:
            chunks.append(["AllowPairing", hx("YES")])
    elif ty == "_raop._tcp.local":
        if "raop" in blank:
            inst = "@" + name                            # empty MAC part, no pk (or an empty one)
            if rng.random() < 0.3:
                chunks.append(["pk", ""])
        elif rng.random() < 0.8 or "@" in name:     # (a bare instance name "a@b" would be split into id "a", name "b")
            inst = did.replace(":", "") + "@" + name
        else:
            chunks.append(["pk", hx(did + "pk")])
        chunks += [["am", hx(dev["apmodel"])]] if dev.get("apmodel") else []
        chunks += [["vs", hx("366.0")]]
        if rng.random() < 0.06:
            chunks.append(["waMA", hx(rng.choice(["AA-BB,raMA=1", "AA-BB,broken"]))])
    elif ty == "_airport._tcp.local":
        chunks = [["syAP", hx("115")], ["syVs", hx("7.8.1")]]
        r = rng.random()
        if r < 0.45:      # AirPort Express: "waMA" is parsed by the RAOP device-info extractor
            chunks.append(["waMA", hx("%s,raMA=70-73-CB-B9-4C-91,raM2=70-73-CB-BB-D4-12,syVs=7.8.1" % did.replace(":", "-"))])
        elif r < 0.75:    # malformed: an element without "=" makes that extractor raise (for this one service)
            chunks.append(["waMA", hx(rng.choice(["%s,raMA=1,broken", "%s,", "%s,,syVs=7.8.1", "%s,x"]) % did.replace(":", "-"))])
    elif ty == "_appletv-v2._tcp.local":
        inst = ("" if "dmap" in blank else dev["dmapid"]) + "_hs"
        port = dev["dmapport"]
        chunks = [["Name", hx(name)], ["hG", hx("00000000-1111-2222")]]
    elif ty == "_touch-able._tcp.local":
        inst = "_ta" if "dmap" in blank else dev["dmapid"]
        port = dev["dmapport"]
        chunks = [["CtlN", hx(name)], ["DvTy", hx("AppleTV")]]
    elif ty == "_hscp._tcp.local":
        inst = name + " lib"
        port = dev["dmapport"]
        chunks = [["Machine Name", hx(name)], ["Machine ID", "" if "dmap" in blank else hx(dev["dmapid"])],
                  ["hG", hx("00000000-1111-2222")]]
    else:  # foreign type
        chunks = [["id", hx(did)], ["md", hx("Chromecast")]]
    chunks = [[vary_key(rng, k), v] for k, v in chunks]
    # TXT oddities that do not affect self-consistency
    r = rng.random()
    if r < 0.08:
        chunks.append(["flag", None])                    # attribute without '='
    elif r < 0.16:
        chunks.append(["note", "c2a0" + hx("x")])        # non-breaking space, replaced by decode_value
    elif r < 0.22:
        chunks.append(["bin", "ff00fe"])                 # not UTF-8: repr fallback
    elif r < 0.30:
        k = chunks[0][0]
        chunks.append([k.swapcase(), chunks[0][1]])      # repeated key (other case, same value)
    return {"type": ty, "inst": inst, "port": port, "txt": chunks}


NAMES = ["Living Room", "Kök", "Bedroom.TV", "ATV", "Office 2", "sovrum", "HomePod_L", "a@b"]


def make_device(rng, i, kinds, nserv=None):
    dev = {
        "ip": (10 << 24) + (rng.randrange(3) << 8) + 10 + i,
        "host": "host%d-%s" % (i, rng.choice(["atv", "pod", "mac"])),
        "name": NAMES[(i + rng.randrange(len(NAMES))) % len(NAMES)] + ("" if rng.random() < 0.7 else " %d" % i),
        "id": "%02X:%02X:%02X" % (rng.randrange(256), rng.randrange(256), i),
        "dmapid": "%04X%04X%d" % (rng.randrange(65536), rng.randrange(65536), i),
        "dmapport": rng.choice([3689, 3690 + i]),
        "apmodel": rng.choice([None, None] + MODEL_STRS[:1] + MODEL_STRS),
        "devinfo": rng.choice([None] + INTERNAL_STRS),
    }
    r = rng.random()
    groups = ["airplay", "mrp", "raop", "companion", "dmap"]
    if r < 0.12:
        dev["blank"] = groups                            # no usable identifier at all: must not be returned
    elif r < 0.22:
        dev["blank"] = rng.sample(groups, rng.randint(1, 3))
    else:
        dev["blank"] = []
    # model hints of a self-consistent device agree: keep the _device-info model only when it
    # does not contradict the AirPlay/RAOP/Companion model string
    n = nserv or rng.randint(1, 5)
    tys = rng.sample(kinds, min(n, len(kinds)))
    modern = ["_airplay._tcp.local", "_raop._tcp.local", "_companion-link._tcp.local"]
    if nserv is None and rng.random() < 0.3 and all(t in kinds for t in modern):
        # tvOS 15+ Apple TV / HomePod / AirPort Express: neither MRP nor DMAP, several services with identifiers
        tys = rng.sample(modern, rng.randint(2, 3))
        if rng.random() < 0.3:
            tys.append("_airport._tcp.local")
        dev["force_companion_id"] = True
    if "_hscp._tcp.local" in tys and dev["apmodel"] != "Bogus1,1":
        dev["apmodel"] = None      # an iTunes library (model Music) does not also claim an Apple TV model
    dev["services"] = [make_service(rng, t, dev, k) for k, t in enumerate(tys)]
    return dev


def service_records(dev, sv, with_ptr=True, ttl=10):
    full = [sv["inst"]] + L(sv["type"])
    host = [dev["host"], "local"]
    ans = [rec_ptr(sv["type"], full, ttl)] if with_ptr else []
    add = [rec_srv(full, sv["port"], host, ttl), rec_txt(full, sv["txt"], ttl)]
    return ans, add


def devinfo_record(dev, ttl=10):
    return rec_txt([dev["name"]] + L(DEVINFO), [["model", hx(dev["devinfo"])]], ttl)


def device_datagrams(rng, dev, src=None):
    """Split the answers of one device over 1..n datagrams (each one self-contained: PTR, SRV, TXT, A)."""
    svs = list(dev["services"])
    rng.shuffle(svs)
    k = rng.randint(1, len(svs))
    groups = [[] for _ in range(k)]
    for j, sv in enumerate(svs):
        groups[j % k if j < k else rng.randrange(k)].append(sv)
    out = []
    # multi-homed host: some answers carry only a link-local A record, the routable one comes in another datagram
    carrier = rng.randrange(k) if (k > 1 and rng.random() < 0.3) else None
    for gi, g in enumerate(groups):
        ans, add = [], []
        ttl = rng.choice([10, 10, 120, 4500])
        for sv in g:
            a, b = service_records(dev, sv, with_ptr=rng.random() < 0.85, ttl=ttl)
            ans += a
            add += b
        if carrier is None or gi == carrier:
            add.append(rec_a([dev["host"], "local"], dev["ip"], ttl))
        elif rng.random() < 0.8:
            add.append(rec_a([dev["host"], "local"], (169 << 24) + (254 << 16) + 7 * 256 + dev["ip"] % 256, ttl))
        if rng.random() < 0.25:
            add.insert(rng.randrange(len(add) + 1), rec_a([dev["host"], "local"], (169 << 24) + (254 << 16) + rng.randrange(65536), ttl))
        if rng.random() < 0.2:
            add.append(rec_raw([dev["host"], "local"], T_AAAA, bytes([0xfe, 0x80] + [0] * 13 + [1]), ttl))
        if rng.random() < 0.15:
            add.append(rec_raw([dev["host"], "local"], T_NSEC, bytes([0xc0, 0x0c, 0, 4, 0x40, 0, 0, 8]), ttl))
        if dev["devinfo"] and rng.random() < 0.7:
            add.append(devinfo_record(dev, ttl))
        out.append({"src": src if src is not None else dev["ip"],
                    "msg": {"answers": ans, "additional": add, "compress": rng.random() < 0.6}})
    if rng.random() < 0.3:
        # the same answer sent once more from the link-local side of a multi-homed host: identical records,
        # but the A record is the link-local one
        base = rng.choice([d for d in out if any(r["type"] == T_A and r["ip"] == dev["ip"] for r in d["msg"]["additional"])] or [None])
        if base is not None:
            twin = json.loads(json.dumps(base))
            for r in twin["msg"]["additional"]:
                if r["type"] == T_A and r["ip"] == dev["ip"]:
                    r["ip"] = (169 << 24) + (254 << 16) + 9 * 256 + dev["ip"] % 256
            out.insert(rng.randrange(len(out) + 1), twin)
    return out


# --------------------------------------------------------------------------- scenarios

def pick_protos(rng):
    r = rng.random()
    if r < 0.45:
        return []
    if r < 0.65:
        return ["MRP", "AirPlay"]
    k = rng.randint(1, 4)
    return sorted(rng.sample(PROTO_ORDER, k), key=PROTO_ORDER.index)


def device_ids(dev, req=None):
    """Identifiers a user could pass to scan(identifier=...) for this device."""
    out = []
    for sv in dev["services"]:
        t = sv["type"]
        if req is not None and t not in req:
            continue
        grp = {"_mediaremotetv._tcp.local": "mrp", "_airplay._tcp.local": "airplay", "_raop._tcp.local": "raop",
               "_companion-link._tcp.local": "companion"}.get(t, "dmap")
        if grp in dev.get("blank", ()):
            continue
        if t == "_mediaremotetv._tcp.local":
            out.append(dev["id"] + "-MRP")
        elif t == "_airplay._tcp.local":
            out.append(dev["id"] + ":AP")
        elif t in ("_touch-able._tcp.local", "_appletv-v2._tcp.local", "_hscp._tcp.local"):
            out.append(dev["dmapid"])
        elif t == "_raop._tcp.local" and "@" in sv["inst"] and sv["inst"].split("@")[0] == dev["id"].replace(":", ""):
            out.append(dev["id"].replace(":", ""))
    return out


def fit_to_queries(rng, dg, nq):
    """A unicast responder normally sends one answer per query: pad with answers that carry no
    record / fold surplus datagrams into the last one."""
    dg = list(dg)
    while len(dg) < nq:
        dg.insert(rng.randrange(len(dg) + 1), {"src": dg[0]["src"], "msg": {"answers": [], "additional": [], "compress": False}})
    while len(dg) > nq:
        extra = dg.pop()
        dg[-1]["msg"]["answers"] += extra["msg"]["answers"]
        dg[-1]["msg"]["additional"] += extra["msg"]["additional"]
    return dg


def gen_consistent(rng, mode, with_ids):
    """1..4 self-consistent devices with 1..5 services each."""
    protos = pick_protos(rng)
    if with_ids and mode == "m" and rng.random() < 0.6:
        protos = rng.choice([["MRP", "AirPlay"], ["MRP"], ["AirPlay", "Companion"], ["AirPlay", "RAOP"], ["DMAP"]])
        protos = sorted(protos, key=PROTO_ORDER.index)
    req = requested_types(protos)
    ndev = rng.randint(1, 4) if mode == "m" else rng.randint(1, 3)
    devs = []
    dgrams = []
    for i in range(ndev):
        kinds = list(ALL_TYPES)
        if rng.random() < 0.25:
            kinds += FOREIGN_TYPES[:1]
        dev = make_device(rng, i, kinds)
        devs.append(dev)
        dg = device_datagrams(rng, dev)
        if mode == "u" and rng.random() < 0.7:
            dg = fit_to_queries(rng, dg, nqueries(protos))
        elif rng.random() < 0.1:
            dg.append({"src": dg[0]["src"], "msg": {"answers": [], "additional": [], "compress": False}})
        for d in dg:
            d["host"] = i
        dgrams += dg
    kind = "devices"
    if rng.random() < 0.2 and ndev < 4:
        # a multi-homed device answering on two interfaces (wired + wifi): the same services and identifiers
        # from two source addresses, each with its own A record -> one configuration per address
        kind = "two-interfaces"
        twin = json.loads(json.dumps(rng.choice(devs)))
        twin["ip"] = (10 << 24) + (3 << 8) + 60 + ndev
        twin["host"] = twin["host"] + "-wifi"
        devs.append(twin)
        dg = device_datagrams(rng, twin)
        if mode == "u" and rng.random() < 0.7:
            dg = fit_to_queries(rng, dg, nqueries(protos))
        for d in dg:
            d["host"] = ndev
        dgrams += dg
        ndev += 1
    if mode == "m" and rng.random() < 0.12:
        # a sleep proxy answers on behalf of a sleeping device: PTR only, then the full records
        kind = "sleep-proxy"
        dev = make_device(rng, 7, ALL_TYPES)
        proxy_ip = (10 << 24) + 200
        ans = [rec_ptr(sv["type"], [sv["inst"]] + L(sv["type"])) for sv in dev["services"]]
        if rng.random() < 0.5:
            ans.append(rec_ptr(SLEEP, ["70-35-60-63 Proxy"] + L(SLEEP)))
        dgrams.append({"src": proxy_ip, "host": ndev, "msg": {"answers": ans, "additional": [], "compress": True}})
        for d in device_datagrams(rng, dev, src=proxy_ip):
            d["host"] = ndev
            dgrams.append(d)
        devs.append(dev)
    if rng.random() < 0.15:
        dgrams.append({"src": rng.choice(dgrams)["src"] if rng.random() < 0.5 else (10 << 24) + 250,
                       "host": rng.randrange(ndev), "garbage": bytes(rng.randrange(256) for _ in range(rng.randint(0, 20))).hex()})
    if mode == "m" and rng.random() < 0.55:
        # answers for service types that were NOT asked for, from the devices' own addresses: they must not
        # influence anything (judged by comparing the same delivery with and without them)
        for _ in range(rng.randint(1, 3)):
            dev = rng.choice(devs)
            src = [d["src"] for d in dgrams if d.get("host") == devs.index(dev)][0]
            unreq = [t for t in ALL_TYPES if t not in req] + FOREIGN_TYPES
            ty = rng.choice(unreq)
            fdev = dict(dev, blank=[])
            sv = make_service(rng, ty, fdev, 0)
            a, b = service_records(fdev, sv)
            if rng.random() < 0.6:
                msg = {"answers": a, "additional": [], "compress": True}             # pointer only: all ports 0
            else:
                msg = {"answers": a, "additional": b + [rec_a([dev["host"], "local"], dev["ip"])], "compress": True}
            dgrams.append({"src": src, "host": devs.index(dev), "msg": msg, "unrequested": True})
    ids = []
    if with_ids:
        cands = [x for d in devs for x in device_ids(d, req)]
        if cands and rng.random() < 0.9:
            ids = [rng.choice(cands)]
            if rng.random() < 0.2:
                ids.append("no-such-id")
        else:
            ids = ["no-such-id"]
    return {"mode": mode, "protos": protos, "ids": ids, "dgrams": dgrams, "consistent": True, "kind": kind}


def gen_inconsistent(rng, mode, with_ids):
    """Correspondence only: conflicting or malformed announcements (the model must still agree)."""
    sc = gen_consistent(rng, mode, with_ids)
    sc["consistent"] = False
    dgs = sc["dgrams"]
    msgs = [d for d in dgs if "msg" in d]
    what = rng.choice(["srv-conflict", "txt-conflict", "two-a", "same-ip", "two-instances", "no-instance",
                       "txt-only", "ptr-only", "dmap-mismatch", "model-conflict", "ptr-retarget", "port0", "mixed-foreign"])
    sc["kind"] = what
    d = rng.choice(msgs)
    m = d["msg"]
    recs = m["answers"] + m["additional"]
    srvs = [r for r in recs if r["type"] == T_SRV]
    txts = [r for r in recs if r["type"] == T_TXT and r["name"][-3:] != L(DEVINFO)[-3:]]
    if what == "srv-conflict" and srvs:
        r = dict(rng.choice(srvs)); r["port"] = r["port"] % 60000 + 7; 
        dgs.append({"src": d["src"], "host": d["host"], "msg": {"answers": [], "additional": [r, dict(recs[-1]) if recs[-1]["type"] == T_A else r], "compress": False}})
    elif what == "txt-conflict" and txts:
        r = dict(rng.choice(txts)); r["txt"] = [list(c) for c in r["txt"]] + [["deviceid", hx("FF:FF:FF")], ["UniqueIdentifier", hx("other")]]
        rng.shuffle(r["txt"])
        dgs.append({"src": d["src"], "host": d["host"], "msg": {"answers": [], "additional": [r], "compress": False}})
    elif what == "two-a":
        a = [r for r in recs if r["type"] == T_A]
        if a:
            r = dict(a[0]); r["ip"] = r["ip"] + 64
            m["additional"].insert(rng.randrange(len(m["additional"]) + 1), r)
    elif what == "same-ip" and mode == "m" and len(msgs) > 1:
        other = rng.choice(msgs)
        ips = [r["ip"] for r in recs if r["type"] == T_A and (r["ip"] >> 16) != 0xA9FE]
        if ips:
            for r in other["msg"]["additional"]:
                if r["type"] == T_A and (r["ip"] >> 16) != 0xA9FE:
                    r["ip"] = ips[0]
    elif what == "two-instances" and srvs:
        r = rng.choice(srvs)
        full2 = [r["name"][0] + " (2)"] + r["name"][1:]
        t = [x for x in txts if x["name"] == r["name"]]
        m["additional"].append(dict(r, name=full2, port=r["port"] + 1))
        if t:
            m["additional"].append(dict(t[0], name=full2, txt=[list(c) for c in t[0]["txt"]][:1] + [["extra", hx("1")]]))
        m["answers"].append(rec_ptr(".".join(r["name"][-3:]), full2))
    elif what == "no-instance" and srvs:
        r = rng.choice(srvs)
        bare = r["name"][-3:]
        m["additional"].append(dict(r, name=bare))
        t = [x for x in txts if x["name"] == r["name"]]
        if t:
            m["additional"].append(dict(t[0], name=bare))
    elif what == "txt-only" and txts:
        r = rng.choice(txts)
        dgs.append({"src": d["src"], "host": d["host"], "msg": {"answers": [], "additional": [dict(r)], "compress": False}})
    elif what == "ptr-only":
        ptrs = [r for r in recs if r["type"] == T_PTR]
        if ptrs:
            dgs.append({"src": d["src"], "host": d["host"], "msg": {"answers": [dict(x) for x in ptrs], "additional": [], "compress": True}})
    elif what == "dmap-mismatch":
        for r in srvs:
            if r["name"][-3] in ("_touch-able", "_appletv-v2", "_hscp"):
                r["port"] = 4000 + rng.randrange(50)
    elif what == "model-conflict":
        for r in txts:
            if r["name"][-3] in ("_airplay", "_raop", "_companion-link"):
                r["txt"] = [c for c in r["txt"] if c[0].lower() not in ("model", "am", "rpmd")]
                key = {"_airplay": "model", "_raop": "am", "_companion-link": "rpMd"}[r["name"][-3]]
                r["txt"].append([key, hx(rng.choice(MODEL_STRS))])
    elif what == "ptr-retarget":
        ptrs = [r for r in recs if r["type"] == T_PTR]
        if ptrs:
            r = rng.choice(ptrs)
            other = ["Ghost"] + r["name"]
            dgs.append({"src": d["src"], "host": d["host"], "msg": {"answers": [dict(r, target=other)], "additional": [], "compress": False}})
    elif what == "port0" and srvs:
        rng.choice(srvs)["port"] = 0
    elif what == "mixed-foreign":
        dev = make_device(rng, 9, FOREIGN_TYPES, 1)
        a, b = service_records(dev, dev["services"][0])
        m["answers"] += a
        m["additional"] += b
    return sc


def gen_orders(rng, n, nperm, ndup, exhaustive, nq=4):
    """Delivery orders over datagram indices 0..n-1: identity first, then permutations, then
    duplicated deliveries."""
    base = list(range(n))
    orders = [base]
    seen = {tuple(base)}
    if exhaustive and n <= 6:
        for p in itertools.permutations(base):
            if p not in seen:
                seen.add(p)
                orders.append(list(p))
    else:
        for _ in range(nperm * 3):
            if len(orders) > nperm:
                break
            p = base[:]
            rng.shuffle(p)
            if tuple(p) not in seen:
                seen.add(tuple(p))
                orders.append(p)
    for _ in range(ndup):
        p = base[:]
        rng.shuffle(p)
        for _ in range(rng.randint(1, 3)):
            p.insert(rng.randrange(len(p) + 1), rng.choice(base))
        if tuple(p) not in seen:
            seen.add(tuple(p))
            orders.append(p)
    # re-sent queries: one answer repeated at least as often as there are queries before the others arrive
    firsts = base[:] if 1 < n <= 4 else (rng.sample(base, 3) if n > 4 else [])
    for x in firsts:
        p = [i for i in base if i != x]
        rng.shuffle(p)
        p = [x] * (nq + rng.randint(0, 1)) + p
        if rng.random() < 0.5:
            p.append(x)
        if tuple(p) not in seen:
            seen.add(tuple(p))
            orders.append(p)
    return orders


# --------------------------------------------------------------------------- running one scenario

def encode_scenario(sc):
    """-> per datagram (bytes, rdlens or None)"""
    out = []
    for d in sc["dgrams"]:
        if "garbage" in d:
            out.append((bytes.fromhex(d["garbage"]), None))
        else:
            out.append(encode_msg(d["msg"]))
    return out


def feed_for(sc, enc, order):
    if sc["mode"] == "m":
        return [(sc["dgrams"][i]["src"], enc[i][0]) for i in order]
    nh = 1 + max(d["host"] for d in sc["dgrams"])
    feed = [[] for _ in range(nh)]
    for i in order:
        feed[sc["dgrams"][i]["host"]].append(enc[i][0])
    return feed


def normalise(obs, protos=None):
    """The snapshot the property talks about: address, identifiers (the set and the main one), services with
    ports and properties (merged per protocol, and the per-service-type table config.properties), model,
    deep-sleep flag - plus what a user derives from the result: name, main service, and the remaining
    device_info fields where the announcements do not contradict each other.  As a set; observe() copied
    everything when scan() returned."""
    out = []
    for c in obs:
        out.append((c["address"],
                    tuple(sorted(s[1] for s in c["services"] if s[1] is not None)),
                    tuple(sorted((s[0], s[2], tuple(sorted(map(tuple, s[3])))) for s in c["services"])),
                    c["model"], c["deep_sleep"],
                    tuple(sorted((t, tuple(sorted(map(tuple, p)))) for t, p in c["properties"])),
                    c["identifier"], c["name"], tuple(c["main_service"] or ()),
                    tuple(c["devinfo"]) if devinfo_unambiguous(c, protos) else None))
    return sorted(out, key=repr)


def effective(sc, order, info, burst=False):
    """What the protocol took in and whether it considered itself finished (observed on the fake
    transport): two deliveries in the same mode with the same effective input must give the same result."""
    if sc["mode"] == "m":
        n = len(order) if burst else (info["delivered"][0] if info["delivered"] else 0)
        pre = order[:n]
        if burst:
            return (frozenset(pre),)
        last = sc["dgrams"][pre[-1]]["src"] if (info["aborted"] and pre) else None
        return (frozenset(pre), bool(info["aborted"]), last)
    nh = len(info["delivered"])
    per = [[] for _ in range(nh)]
    for i in order:
        per[sc["dgrams"][i]["host"]].append(i)
    return tuple((frozenset(per[h][:info["delivered"][h]]), bool(info["completed"][h])) for h in range(nh))


def judge_single(sc, obs):
    """Clauses of the property that concern one returned result."""
    errs = []
    addrs = [c["address"] for c in obs]
    if len(addrs) != len(set(addrs)):
        errs.append(("duplicate-address", "one address yields more than one configuration"))
    req = set(requested_types(sc["protos"]))
    wanted = set(sc["protos"] or PROTO_ORDER)
    for c in obs:
        if not any(s[1] for s in c["services"]):
            errs.append(("config-without-identifier", "a configuration without any identifier was returned"))
        for s in c["services"]:
            if s[0] not in wanted:
                errs.append(("unrequested-service-returned", "service of a protocol that was not requested: %s" % s[0]))
        for t, _ in c["properties"]:
            if t not in req:
                errs.append(("unrequested-service-returned", "properties of a service type that was not requested: %s" % t))
    return errs


# --------------------------------------------------------------------------- Coq terms

class Emit:
    """Prints Coq terms, naming every distinct string / dict / record / configuration once per file
    (elaborating large list literals is what costs time in coqc)."""

    def __init__(self):
        self.names = {}
        self.defs = []

    def intern(self, prefix, typ, term):
        key = (typ, term)
        n = self.names.get(key)
        if n is None:
            n = "%s%d" % (prefix, len(self.names))
            self.names[key] = n
            self.defs.append("Definition %s : %s := %s." % (n, typ, term))
        return n

    def str(self, s):
        raw = s.encode("utf-8")
        if all(32 <= b < 127 for b in raw):
            term = '(lit "%s")' % s.replace('"', '""')
        else:
            term = "[" + ";".join(str(b) for b in raw) + "]"
        return self.intern("s", "str", term)

    def ostr(self, s):
        return "None" if s is None else "(Some %s)" % self.str(s)

    def dict(self, items):
        return self.intern("p", "dict", "[" + ";".join("(%s,%s)" % (self.str(k), self.str(v)) for k, v in items) + "]")

    def rec(self, r, rdlen):
        name = ".".join(r["name"])
        t = r["type"]
        if t == T_A:
            rd = "(RA %d)" % r["ip"]
        elif t == T_PTR:
            rd = "(RPtr %s)" % self.str(".".join(r["target"]))
        elif t == T_TXT:
            kv = [(k, "" if v is None else decode_value(bytes.fromhex(v))) for k, v in r["txt"]]
            rd = "(RTxt %s)" % self.dict(kv)
        elif t == T_SRV:
            rd = "(RSrv %d %d %d %s)" % (r["prio"], r["weight"], r["port"], self.str(".".join(r["target"])))
        else:
            rd = "(RRaw [%s])" % ";".join(str(b) for b in r["raw"])
        return self.intern("r", "rec", "(mkRec %s %d %d %d %d %s)" % (self.str(name), t, r["cls"], r["ttl"], rdlen, rd))

    def dgram(self, d, rdlens):
        if "garbage" in d:
            return "Garbage"
        recs = d["msg"]["answers"] + d["msg"]["additional"]
        return self.intern("d", "dgram", "(Msg [%s])" % ";".join(self.rec(r, n) for r, n in zip(recs, rdlens)))

    def obs(self, obs):
        if obs == "EXC":
            return "[mkO 0 None false 99 [] [] None None]"
        cs = []
        for c in obs:
            props = "[" + ";".join("(%s,%s)" % (self.str(t), self.dict(p)) for t, p in c["properties"]) + "]"
            svcs = "[" + ";".join(
                self.intern("v", "osvc", "(%d,%s,%d,%s)" % (PROTO_NUM[x[0]], self.ostr(x[1]), x[2], self.dict(x[3])))
                for x in c["services"]) + "]"
            ms = c["main_service"]
            cs.append(self.intern("c", "oconfig", "(mkO %d %s %s %d %s %s %s %s)" % (
                c["address"], self.ostr(c["name"]), common.cbool(c["deep_sleep"]), c["model"], props, svcs,
                self.ostr(c["identifier"]), "None" if ms is None else "(Some (%d,%d))" % (PROTO_NUM[ms[0]], ms[1]))))
        return "[" + ";".join(cs) + "]"

    def case(self, sc, enc, order, obs, info, burst=False):
        dg = [self.dgram(d, enc[j][1]) for j, d in enumerate(sc["dgrams"])]
        b = "Burst" if burst else ""
        if sc["mode"] == "m":
            h = "(HMulti%s [%s])" % (b, ";".join("(%d,%s)" % (sc["dgrams"][i]["src"], dg[i]) for i in order))
        else:
            nh = 1 + max(d["host"] for d in sc["dgrams"])
            per = [[] for _ in range(nh)]
            for i in order:
                per[sc["dgrams"][i]["host"]].append(dg[i])
            h = "(HUni%s [%s])" % (b, ";".join("[" + ";".join(x) + "]" for x in per))
        return "(%s, mkCase [%s] [%s] %s %s)" % (
            common.cbool(bool(sc["consistent"])),
            ";".join(sc["protos"]), ";".join(self.str(x) for x in sc["ids"]), h, self.obs(obs))


def lookup_tables():
    from pyatv.support.device_info import lookup_internal_name, lookup_model
    tm = [(s, lookup_model(s).value) for s in MODEL_STRS]
    ti = [(s, lookup_internal_name(s).value) for s in INTERNAL_STRS]
    return tm, ti


def coq_file(em, cases, tm, ti):
    tms = ";".join("(%s,%d)" % (em.str(x), v) for x, v in tm)
    tis = ";".join("(%s,%d)" % (em.str(x), v) for x, v in ti)
    return ("From Coq Require Import List NArith String. Import ListNotations.\n"
            "From PV Require Import Common.Cases C12.Model C12.Checkers.\n"
            "Open Scope N_scope. Open Scope string_scope.\n"
            "%s\n"
            "Definition tm : list (str * N) := [%s].\n"
            "Definition ti : list (str * N) := [%s].\n"
            "Definition cases : list (bool * case) := [\n%s\n].\n"
            "Eval vm_compute in (bad_indices (fun bc => check_case_full tm ti (fst bc) (snd bc)) cases).\n"
            % ("\n".join(em.defs), tms, tis, ";\n".join(cases)))


# --------------------------------------------------------------------------- entry points

def static_checks(ctx):
    """Constants the model hard-codes (cheap fail-closed checks against the tree under test)."""
    from pyatv.const import DeviceModel, Protocol
    from pyatv.core import mdns
    from pyatv.protocols import PROTOCOLS
    problems = []
    if [p.name for p in PROTOCOLS] != PROTO_ORDER:
        problems.append("PROTOCOLS order %r" % [p.name for p in PROTOCOLS])
    for p, m in PROTOCOLS.items():
        if list(m.scan().keys()) != TYPES[p.name]:
            problems.append("scan() types of %s: %r" % (p.name, list(m.scan().keys())))
    if {p.name: p.value for p in Protocol} != PROTO_NUM:
        problems.append("Protocol enum values")
    if DeviceModel.Music.value != 10 or DeviceModel.Unknown.value != 0:
        problems.append("DeviceModel.Music/Unknown values")
    if mdns.SERVICES_PER_MSG != 3 or mdns.DEVICE_INFO_SERVICE != DEVINFO or mdns.SLEEP_PROXY_SERVICE != SLEEP:
        problems.append("mdns constants")
    if problems:
        ctx.tie_broken("constants", json.dumps(problems))


def as_run(o):
    """A delivery is an order (list of datagram indices) or {"order": [...], "burst": true}."""
    if isinstance(o, dict):
        return list(o["order"]), bool(o.get("burst"))
    if isinstance(o, tuple):
        return list(o[0]), bool(o[1])
    return list(o), False


def safe_run_scenario(sc, runs):
    """Runs the real scan for every delivery.  Returns (encoded datagrams, [(order, obs, info, burst)])."""
    enc = encode_scenario(sc)
    res = []
    for r in runs:
        order, burst = as_run(r)
        try:
            obs, info = run_scan(sc["mode"], sc["protos"], sc["ids"], feed_for(sc, enc, order), burst)
        except Exception as ex:  # scan() itself raised
            obs, info = "EXC", {"delivered": [], "aborted": False, "completed": [], "raised": repr(ex)}
        res.append((order, obs, info, burst))
    return enc, res


def run_spec(order, burst):
    return {"order": order, "burst": True} if burst else order


def group_judge(sc, res):
    """Oracle on one scenario; returns list of dict(key, what, order, base) (order/base are run specs)."""
    out = []
    mode = "multicast" if sc["mode"] == "m" else "unicast"
    for order, obs, info, burst in res:
        if obs == "EXC":
            out.append({"key": "C12:%s:scan-raised" % mode,
                        "what": "pyatv.scan() raised %s instead of returning the configurations of the devices that answered"
                                % info.get("raised"), "order": run_spec(order, burst), "base": None})
            break
    good = [r for r in res if r[1] != "EXC"]
    for order, obs, info, burst in good:
        for k, w in judge_single(sc, obs):
            out.append({"key": "C12:%s:%s" % (mode, k), "what": w, "order": run_spec(order, burst), "base": None})
    # answers for service types that were not requested are ignored: the same delivery with and without
    # them returns the same configurations
    extra = {j for j, d in enumerate(sc["dgrams"]) if d.get("unrequested")}
    if extra and sc["mode"] == "m" and sc["consistent"]:
        plain = {(tuple(r[0]), r[3]): r for r in good if not (set(r[0]) & extra)}
        for order, obs, info, burst in good:
            if not (set(order) & extra):
                continue
            ref = plain.get((tuple(i for i in order if i not in extra), burst))
            if ref is not None and normalise(ref[1], sc["protos"]) != normalise(obs, sc["protos"]):
                out.append({"key": "C12:multicast:unrequested-answer-changes-result",
                            "what": "answers for service types that were not requested changed the returned configurations "
                                    "(delivery with them vs the same delivery without them)",
                            "order": run_spec(order, burst), "base": run_spec(ref[0], burst)})
    good = [r for r in good if not (set(r[0]) & extra)]
    if not sc["consistent"]:
        return out
    for burst in (False, True):
        if burst and sc["mode"] == "m" and sc["ids"]:
            continue    # identifier scan fed a whole batch: aborts and re-aborts, compared with the model only
        sel = [r for r in good if r[3] == burst]
        if not sel:
            continue
        groups = {}
        for order, obs, info, _ in sel:
            groups.setdefault(effective(sc, order, info, burst), []).append((order, normalise(obs, sc["protos"])))
        base_order, base_obs, base_info, _ = sel[0]
        base_n = normalise(base_obs, sc["protos"])
        base_e = effective(sc, base_order, base_info, burst)
        for e, members in groups.items():
            o0, n0 = members[0]
            for o, n in members[1:]:
                if n != n0:
                    dup = len(o) != len(set(o)) or len(o0) != len(set(o0))
                    out.append({"key": "C12:%s:%sorder-or-duplication-dependence" % (mode, "burst-" if burst else ""),
                                "what": "the same datagrams were taken in%s, yet different configurations were returned (%s)" %
                                        (" in one batch" if burst else "",
                                         "duplicated delivery" if dup else "other arrival order"),
                                "order": run_spec(o, burst), "base": run_spec(o0, burst)})
            if e == base_e or n0 == base_n:
                continue
            dup = len(o0) != len(set(o0))
            spec, bspec = run_spec(o0, burst), run_spec(base_order, burst)
            if sc["mode"] == "m" and (burst or not sc["ids"]):
                out.append({"key": "C12:multicast:stops-listening-early",
                            "what": "multicast scan without identifier filter did not take in all delivered datagrams; "
                                    "the returned configurations depend on the arrival order",
                            "order": spec, "base": bspec})
            elif sc["mode"] == "m":
                if dup:
                    out.append({"key": "C12:identifier-scan:early-abort-on-duplicate",
                                "what": "identifier scan: a duplicated datagram advances the per-source counter, the scan "
                                        "aborts before the remaining datagrams arrive and returns different configurations",
                                "order": spec, "base": bspec})
                else:
                    out.append({"key": "C12:identifier-scan:early-abort-order",
                                "what": "identifier scan: more datagrams than queries from one source; which services are "
                                        "returned depends on which datagrams arrive before the counter reaches the number of queries",
                                "order": spec, "base": bspec})
            else:
                # the counter decided differently in the two deliveries: reached early by a duplicate / an
                # extra datagram (one datagram per iteration), or reached at all only thanks to a duplicate
                out.append({"key": "C12:unicast-scan:completion-by-datagram-count",
                            "what": "unicast scan: completion is decided by counting datagrams (%s); the returned "
                                    "configurations differ" %
                                    ("a duplicate is counted as a further response" if dup else
                                     "the number of answer datagrams differs from the number of queries: surplus ones are cut, too few give nothing"),
                            "order": spec, "base": bspec})
    return out


def run(ctx):
    import logging
    logging.disable(logging.CRITICAL)
    ctx.build_property()
    if ctx.thorough:
        ctx.coqchk()
    static_checks(ctx)
    rng = ctx.rng
    scale = 4 if ctx.thorough else 1
    nperm, ndup = (10, 8) if ctx.thorough else (6, 5)
    ctx.rule = ("scenario = 1..4 simulated devices (1..5 services each; own DNS encoder, optional name compression, "
                "varying TTLs, link-local/AAAA/NSEC extras, TXT oddities, sleep proxy, garbage, foreign service types) whose "
                "answers are split over datagrams; plus conflicting/malformed variants for the model comparison only. "
                "Every scenario is delivered in the identity order, in permutations (all of them up to %s datagrams, "
                "sampled beyond) and with duplicated datagrams, to the real multicast protocol (with and without identifier "
                "filter) or the real unicast protocol, through pyatv.scan(), in two delivery modes: one datagram per "
                "event-loop iteration (nothing after the protocol closed its transport) and the whole sequence as one "
                "synchronous batch (datagram_received keeps being called after completion). Each delivery is one case, compared exactly "
                "(order included) with the Coq model; non-trivial = at least one configuration returned; distinct by "
                "(scenario, delivery order)." % ("6" if ctx.thorough else "4"))
    plan = []
    for f, c in common.load_corpus(ctx.pid):
        plan.append((c["scenario"], c["orders"], "corpus:" + f))
    for kind, n in (("m", 110), ("mi", 60), ("u", 50), ("ui", 15), ("xm", 50), ("xmi", 20), ("xu", 25)):
        for _ in range(n * scale):
            mode = "u" if "u" in kind else "m"
            gen = gen_inconsistent if kind.startswith("x") else gen_consistent
            sc = gen(rng, mode, "i" in kind)
            extra = [j for j, d in enumerate(sc["dgrams"]) if d.get("unrequested")]
            nd = len(sc["dgrams"]) - len(extra)
            if ctx.thorough:
                ex = nd <= 5 or (nd == 6 and rng.random() < 0.15)
            else:
                ex = nd <= 4 and rng.random() < 0.35
            orders = gen_orders(rng, nd, nperm, ndup, ex, nqueries(sc["protos"]))
            # the same deliveries handed over as one batch: all of them for unicast, every other one for multicast
            runs = [(o, False) for o in orders]
            runs += [(o, True) for j, o in enumerate(orders) if mode == "u" or j % 2 == 0]
            for o in orders[:4] if extra else []:
                w = list(o)
                for j in extra:
                    w.insert(rng.randrange(len(w) + 1), j)
                    if rng.random() < 0.3:
                        w.insert(rng.randrange(len(w) + 1), j)
                runs += [(w, False), (w, True)]
                if (o, True) not in runs:
                    runs.append((o, True))
            plan.append((sc, runs, kind))
    tm, ti = lookup_tables()
    ctx.note("built; %d scenarios planned (%.1fs)" % (len(plan), time.time() - ctx.t0))
    all_cases = []      # (defs, case, replay)
    for idx, (sc, orders, kind) in enumerate(plan):
        enc, res = safe_run_scenario(sc, orders)
        ctx.traces += len(res)
        ctx.count("scenario:" + kind)
        ctx.count("ndgram:%d" % min(len(sc["dgrams"]), 9))
        ctx.count("kind:" + sc.get("kind", "?"))
        for v in group_judge(sc, res):
            ctx.violation(v["key"], v["what"], {"scenario": sc, "order": v["order"], "base": v["base"]})
        # the model comparison takes a bounded sample of very large exhaustive sets
        keep = list(range(len(res)))
        if len(keep) > (40 if ctx.thorough else 18):
            keep = keep[:1] + sorted(rng.sample(keep[1:], (39 if ctx.thorough else 17)))
        for j in keep:
            order, obs, info, burst = res[j]
            all_cases.append((sc, enc, order, obs, info, burst))
        for j, (order, obs, info, burst) in enumerate(res):
            ctx.count("burst" if burst else "one-per-iteration")
            ctx.case((idx, tuple(order), burst), nontrivial=(obs != "EXC" and len(obs) > 0),
                     sample={"mode": sc["mode"], "protocols": sc["protos"], "identifier": sc["ids"], "kind": sc.get("kind"),
                             "datagrams": len(sc["dgrams"]), "order": order, "burst": burst,
                             "returned": "EXC" if obs == "EXC" else [[c["address"], [s[0] for s in c["services"]], c["model"], c["deep_sleep"]] for c in obs]}
                     if j == 1 and idx % 40 == 0 else None)
            ctx.count("dup" if len(order) != len(set(order)) else "perm")
            if obs != "EXC":
                ctx.count("configs:%d" % min(len(obs), 4))
    # model vs implementation inside Coq
    ctx.note("%d implementation runs judged (%.1fs)" % (ctx.traces, time.time() - ctx.t0))
    per = 350
    items = []
    chunks = []
    for i in range(0, len(all_cases), per):
        chunk = all_cases[i:i + per]
        em = Emit()
        tmd = [(x, v) for x, v in tm]
        cases = [em.case(*c) for c in chunk]
        name = "cases_%03d" % (i // per)
        items.append((name, coq_file(em, cases, tmd, ti)))
        chunks.append(chunk)
    results = common.coq_run_many(items, ctx.pid, timeout=900)
    nbad = 0
    for (name, _), chunk in zip(items, chunks):
        rc, out = results[name]
        bad = common.parse_eval_nat_list(out) if rc == 0 else None
        if bad is None:
            ctx.tie_broken("correspondence:" + name, out)
        else:
            for b in bad:
                nbad += 1
                if nbad <= 5:
                    ctx.tie_broken("correspondence:scan", json.dumps({"scenario": chunk[b][0], "order": run_spec(chunk[b][2], chunk[b][5])}))
    ctx.note("%d cases compared with the model in Coq, %d disagreements (%.1fs)" % (len(all_cases), nbad, time.time() - ctx.t0))
    ctx.extra["model_cases"] = len(all_cases)
    ctx.extra["model_disagreements"] = nbad
    ctx.trusted += [
        "hand-written model coq/C12/Model.v of ServiceParser, the multicast and unicast client protocols, BaseScanner "
        "(handle_response/_service_discovered/discover/_get_device_info MODEL key), AppleTV.add_service/merge, "
        "get_unique_id, the scan handlers and pyatv.scan._should_include; tied by the differential run in this file "
        "(exact comparison, order of configurations, services and properties included) evaluated in Coq by vm_compute",
        "input abstraction: a datagram is the record list DnsMessage.unpack yields; the harness builds bytes with its own "
        "RFC 1035/2782/6763 encoder and gives the model the structured records (names joined with '.', TXT values "
        "through a 3-line copy of decode_value); byte-level decoding is covered by C04/C05",
        "driver: pyatv.scan() runs unmodified; mdns.multicast/mdns.unicast/knock.knocker are replaced by stubs that build "
        "the real protocol objects with fake transports and deliver the datagrams from one loop callback, stopping when "
        "the protocol closes its receivers/transport (what a selector transport does), or - burst mode - hand over the "
        "whole sequence synchronously and keep calling datagram_received after completion; exceptions of datagram_received "
        "are logged-and-ignored as asyncio / ReceiveDelegate do; harness/vloop.py virtual time",
        "lookup_model/lookup_internal_name are parameters of the model; the run instantiates them with the values the "
        "real functions return for the strings used",
        "not modelled: credentials/password/enabled/pairing of services, service_info updaters, device_info keys other "
        "than MODEL (os, version, build, mac, output device id, raw model are judged by the oracle across deliveries where "
        "the per-service extractor results do not contradict each other), the zeroconf-backed scanners",
    ]
    ctx.assumptions += [
        "self-consistent devices = hypothesis `consistent` of the theorems (see coq/C12/Spec.v): per source one rdata per "
        "(name, SRV/TXT), one routable A per host, per address: one (deep-sleep, model) pair, services of one protocol agree "
        "on identifier and port and have compatible properties, services of one type have equal properties, "
        "model hints agree",
        "one-per-iteration mode: after the protocol closed its receivers/transport no further datagram is delivered; "
        "burst mode: the rest of the batch is still delivered (identifier scans in burst mode are compared with the model only)",
        "of the device_info extractors only the MODEL key is modelled, including the raop extractor raising on a malformed "
        "'wama' value (skipped per service by _get_device_info)",
    ]


def replay(ctx, path):
    import logging
    logging.disable(logging.CRITICAL)
    d = json.load(open(path))
    r = d.get("replay")
    if not r and "scenario" in d:      # a corpus file
        r = {"scenario": d["scenario"]}
        corpus_runs = d.get("orders")
    else:
        corpus_runs = None
    if not r:
        print(json.dumps(d.get("broken", d), indent=1)[:6000])
        return 1
    sc = r["scenario"]
    runs = corpus_runs or [o for o in (r.get("base"), r.get("order")) if o is not None]
    if not runs:
        runs = [list(range(len(sc["dgrams"])))]
    enc, res = safe_run_scenario(sc, runs)
    for order, obs, info, burst in res:
        print("order=%s mode=%s delivered=%s aborted=%s completed=%s" % (
            order, "burst" if burst else "one-per-iteration", info.get("delivered"), info.get("aborted"), info.get("completed")))
        print("   returned=%s" % ("EXC " + str(info.get("raised")) if obs == "EXC" else json.dumps(normalise(obs, sc["protos"]))))
    errs = group_judge(sc, res)
    for e in errs:
        print("property-error: %s - %s" % (e["key"], e["what"]))
    return 1 if errs else 0
