"""Runs decoders of /repo on hostile inputs, counting interpreter line events inside pyatv and
turning hangs into results (alarm).  stdin: JSON list of {"dec": name, "data": hex}; stdout: JSON list."""
import asyncio
import json
import logging
import signal
import sys

logging.disable(logging.CRITICAL)


class Hang(BaseException):
    pass


def on_alarm(signum, frame):
    raise Hang()


class FakeTransport:
    def __init__(self):
        self.written = []
        self.closed = False

    def write(self, data):
        self.written.append(bytes(data))

    def close(self):
        self.closed = True

    def get_extra_info(self, name, default=None):
        return ("127.0.0.1", 1234) if name in ("peername", "sockname") else default

    def is_closing(self):
        return self.closed


def make_decoders():
    from pyatv.auth import hap_tlv8
    from pyatv.support import variant
    from pyatv.protocols.dmap import parser, tag_definitions

    loop = asyncio.new_event_loop()
    asyncio.set_event_loop(loop)

    def mrp(data):
        from pyatv.protocols.mrp.connection import MrpConnection

        class L:
            def message_received(self, msg, raw):
                pass
        c = MrpConnection("127.0.0.1", 1, loop)
        c.listener = L()
        c._transport = FakeTransport()
        c.data_received(data)

    def companion(data):
        from pyatv.protocols.companion.connection import CompanionConnection

        class L:
            def frame_received(self, ft, payload):
                pass
        c = CompanionConnection(loop, "127.0.0.1", 1, None)
        c.set_listener(L())
        c.transport = FakeTransport()
        c.data_received(data)

    def hap(data):
        from pyatv.auth.hap_session import HAPSession
        s = HAPSession()
        s.enable(b"k" * 32, b"k" * 32)
        s.decrypt(data)

    def datastream(data):
        from pyatv.protocols.airplay.channels import DataStreamChannel

        class L:
            def handle_protobuf(self, m):
                pass

            def handle_connection_lost(self, e):
                pass
        ch = DataStreamChannel(b"k" * 32, b"k" * 32)
        ch.listener = L()
        ch.transport = FakeTransport()
        ch.buffer = data
        ch.handle_received()

    def event(data):
        from pyatv.protocols.airplay.channels import EventChannel
        ch = EventChannel(b"k" * 32, b"k" * 32)
        ch.transport = FakeTransport()
        ch.buffer = data
        ch.handle_received()

    def httpclient(data):
        from pyatv.support.http import HttpConnection
        c = HttpConnection()
        c.transport = FakeTransport()
        c.data_received(data)

    def httpserver(data):
        from pyatv.support.http import BasicHttpServer

        class H:
            def handle_request(self, request):
                return None
        srv = BasicHttpServer(H())
        srv.connection_made(FakeTransport())
        srv.data_received(data)

    def protobufs(data):
        from pyatv.protocols.airplay.channels import DataStreamChannel
        DataStreamChannel.decode_protobufs(data)

    def mdns_datagram(data):
        from pyatv.core import mdns
        p = mdns.MulticastDnsSdClientProtocol(loop, ["_airplay._tcp.local", "_mediaremotetv._tcp.local"], "224.0.0.251", 5353, None)
        p.datagram_received(data, ("10.0.0.1", 5353))

    def features(data):
        from pyatv.protocols.airplay.utils import parse_features
        parse_features(data.decode("latin1"))

    def credentials(data):
        from pyatv.auth.hap_pairing import parse_credentials
        parse_credentials(data.decode("latin1"))

    def keyed_archiver(data):
        # the _tiD blob of a Companion text-input response, read the way CompanionAPI does
        from pyatv.protocols.companion import keyed_archiver as ka
        ka.read_archive_properties(data, ["sessionUUID"], ["documentState", "docSt", "contextBeforeInput"])

    class DgramTransport:
        def __init__(self):
            self.sent = 0

        def sendto(self, data, addr=None):
            self.sent += 1

        def close(self):
            pass

        def get_extra_info(self, name, default=None):
            return default

    def raop_control(data):
        # the UDP control channel of an audio stream (retransmit requests from the receiver)
        from pyatv.protocols.raop.stream_client import ControlClient
        from pyatv.protocols.raop.protocols import StreamContext
        from pyatv.protocols.raop.fifo import PacketFifo
        backlog = PacketFifo(1000)
        for i in range(0, 70000, 997):
            backlog[i % 65536] = b"\x80\x60" + (i % 65536).to_bytes(2, "big") + bytes(8)
        c = ControlClient(StreamContext(), backlog)
        c.connection_made(DgramTransport())
        c.datagram_received(data, ("10.0.0.1", 6001))

    def raop_timing(data):
        from pyatv.protocols.raop.protocols import TimingServer
        t = TimingServer()
        t.connection_made(DgramTransport())
        t.datagram_received(data, ("10.0.0.1", 6002))

    def unicast_dns(data):
        from pyatv.core import mdns
        p = mdns.UnicastDnsSdClientProtocol(["_airplay._tcp.local", "_raop._tcp.local"], "10.0.0.1", 1)
        p.transport = DgramTransport()
        p.datagram_received(data, ("10.0.0.1", 5353))
        p.parser.parse()

    return {
        "keyed_archiver": keyed_archiver, "raop_control": raop_control, "raop_timing": raop_timing, "unicast_dns": unicast_dns,
        "tlv": hap_tlv8.read_tlv,
        "varint": variant.read_variant,
        "dmap": lambda d: parser.parse(d, tag_definitions.lookup_tag),
        "mrp": mrp, "companion": companion, "hap": hap, "datastream": datastream, "event": event,
        "httpclient": httpclient, "httpserver": httpserver, "protobufs": protobufs,
        "mdns": mdns_datagram, "features": features, "credentials": credentials,
    }


def main():
    jobs = json.load(sys.stdin)
    decs = make_decoders()
    signal.signal(signal.SIGALRM, on_alarm)
    out = []
    counter = [0]

    def tracer(frame, ev, arg):
        fn = frame.f_code.co_filename
        if "/pyatv/" not in fn:
            return None

        def local(frame, ev, arg):
            if ev == "line":
                counter[0] += 1
            return local
        counter[0] += 1
        return local

    hangs = {}
    for j in jobs:
        data = bytes.fromhex(j["data"])
        fn = decs[j["dec"]]
        counter[0] = 0
        res = {"err": None, "hang": False}
        if hangs.get(j["dec"], 0) >= 4:
            # this decoder already failed to finish on four inputs of this batch: the violation is
            # established, do not spend the time limit on every further input
            out.append({"err": "skipped-after-hangs", "hang": False, "events": 0})
            continue
        signal.setitimer(signal.ITIMER_REAL, float(j.get("limit", 3.0)))
        try:
            sys.settrace(tracer)
            try:
                fn(data)
            finally:
                sys.settrace(None)
                signal.setitimer(signal.ITIMER_REAL, 0)
        except Hang:
            res["hang"] = True
            hangs[j["dec"]] = hangs.get(j["dec"], 0) + 1
        except RecursionError:
            res["err"] = "RecursionError"
        except BaseException as ex:  # noqa
            res["err"] = type(ex).__name__
        res["events"] = counter[0]
        out.append(res)
    json.dump(out, sys.stdout)


if __name__ == "__main__":
    main()
