"""C11 - reported now-playing state tracks the device's active player.

Theorems in coq/C11 (model of PlayerStateManager / build_playing_instance / Playing._post_process,
refinement to a history-based specification, wake completeness, position clamp).  This file
ties the model to the code: the REAL PlayerStateManager and MrpMetadata are fed real protobuf
messages (serialised and parsed again, as from the wire) through a stub protocol; after every
message metadata.playing(), metadata.app and the number of listener.state_updated() calls are
recorded, judged against an independent history-based reference (the oracle) and compared with
the Coq model inside Coq.
"""
import copy
import hashlib
import itertools
import json
import os
import time
import types

import common

NOW = 700000000                      # the patched wall clock, Cocoa seconds
RATE_ONE = 1 << 23                   # playbackRate 1.0 in units of 2^-23 (float32 exact)
DEFAULT = "MediaRemote-DefaultPlayer"
CL = {0: "", 1: "com.verif.one", 2: "com.verif.two"}
PL = {0: "", 1: DEFAULT, 2: "player-1", 3: "player-2"}
STR = {0: "", 1: "a", 2: "b", 3: "c", 4: "App One", 5: "App Two", 6: "Renamed"}
RSTR = {v: k for k, v in STR.items()}
RCL = {v: k for k, v in CL.items()}

STR_FIELDS = (("title", "title"), ("artist", "trackArtistName"), ("album", "albumName"),
              ("genre", "genre"), ("series", "seriesName"), ("content", "contentIdentifier"))
INT_FIELDS = (("season", "seasonNumber"), ("episode", "episodeNumber"), ("itunes", "iTunesStoreIdentifier"))
META_ORDER = ("title", "artist", "album", "genre", "series", "content", "season", "episode",
              "itunes", "duration", "elapsed", "ts", "rate", "media")
HAS_PLAYER = ("SS", "UCI", "SNPP", "RP")

# ----------------------------------------------------------------------------- implementation

_impl = {}


def _setup():
    """Import pyatv, freeze the wall clock seen by pyatv.protocols.mrp."""
    if _impl:
        return _impl
    os.environ["TZ"] = "UTC"
    time.tzset()
    import datetime as real_dt
    import pyatv.protocols.mrp as mrp
    from pyatv import const
    from pyatv.interface import Playing
    from pyatv.protocols.mrp import player_state
    from pyatv.protocols.mrp import protobuf as pb

    class FrozenDateTime(real_dt.datetime):
        @classmethod
        def now(cls, tz=None):
            return FrozenDateTime._fixed

    shim = types.SimpleNamespace(datetime=FrozenDateTime, timedelta=real_dt.timedelta)
    mrp.datetime = shim
    FrozenDateTime._fixed = mrp._cocoa_to_timestamp(NOW)
    _impl.update(mrp=mrp, pb=pb, ps=player_state, const=const, Playing=Playing)
    _impl["types"] = {
        "SS": pb.SET_STATE_MESSAGE, "UCI": pb.UPDATE_CONTENT_ITEM_MESSAGE,
        "SNPC": pb.SET_NOW_PLAYING_CLIENT_MESSAGE, "SNPP": pb.SET_NOW_PLAYING_PLAYER_MESSAGE,
        "UC": pb.UPDATE_CLIENT_MESSAGE, "RC": pb.REMOVE_CLIENT_MESSAGE,
        "RP": pb.REMOVE_PLAYER_MESSAGE, "SDSC": pb.SET_DEFAULT_SUPPORTED_COMMANDS_MESSAGE,
    }
    return _impl


def _fill_meta(md, m):
    for k, f in STR_FIELDS:
        if k in m:
            setattr(md, f, STR[m[k]])
    for k, f in INT_FIELDS:
        if k in m:
            setattr(md, f, m[k])
    if "duration" in m:
        md.duration = float("nan") if m["duration"] == "nan" else m["duration"] / 2.0
    if "elapsed" in m:
        md.elapsedTime = m["elapsed"] / 2.0
    if "ts" in m:
        md.elapsedTimeTimestamp = float(m["ts"])
    if "rate" in m:
        md.playbackRate = m["rate"] / float(RATE_ONE)
    if "media" in m:
        md.mediaType = m["media"]


def _fill_items(container, items):
    for it in items:
        x = container.add()
        if it["id"]:
            x.identifier = STR[it["id"]]
        if it["m"]:
            _fill_meta(x.metadata, it["m"])
        elif it.get("e"):
            x.metadata.SetInParent()


def _fill_cmds(sc, cmds):
    sc.SetInParent()
    for (n, sh, rp) in cmds:
        ci = sc.supportedCommands.add()
        ci.command = n
        if sh:
            ci.shuffleMode = sh
        if rp:
            ci.repeatMode = rp


def _fill_client(cl, m):
    if m["c"] or m.get("ce"):
        cl.bundleIdentifier = CL[m["c"]]
    if m.get("dn"):
        cl.displayName = STR[m["dn"]]


def wire(m):
    """Message description -> serialised ProtocolMessage (bytes)."""
    im = _setup()
    pb = im["pb"]
    msg = pb.ProtocolMessage()
    msg.type = im["types"][m["k"]]
    inner = msg.inner()
    inner.SetInParent()
    k = m["k"]
    if k in ("SNPC", "UC", "RC"):
        _fill_client(inner.client, m)
    else:
        _fill_client(inner.playerPath.client, m)
        if k in HAS_PLAYER and m["p"]:
            inner.playerPath.player.identifier = PL[m["p"]]
    if k == "SS":
        if m["ps"] is not None:
            inner.playbackState = m["ps"]
        if m["cmds"] is not None:
            _fill_cmds(inner.supportedCommands, m["cmds"])
        if m["q"] is not None:
            inner.playbackQueue.SetInParent()
            if m["q"][1]:
                inner.playbackQueue.location = m["q"][1]
            _fill_items(inner.playbackQueue.contentItems, m["q"][0])
    elif k == "UCI":
        _fill_items(inner.contentItems, m["items"])
    elif k == "SDSC":
        _fill_cmds(inner.supportedCommands, m["cmds"])
    return msg.SerializeToString()


def _drive(coro):
    """Run a coroutine that must not suspend (the stub listener never does)."""
    try:
        coro.send(None)
    except StopIteration as ex:
        return ex.value
    coro.close()
    raise RuntimeError("handler suspended unexpectedly")


class StubProtocol:
    """What PlayerStateManager needs from MrpProtocol: listen_to()."""

    def __init__(self):
        self.handlers = {}
        self.device_info = None

    def listen_to(self, message_type, handler, message_filter=None):
        self.handlers[message_type] = handler


class Listener:
    """Like MrpPushUpdater.state_updated: reads the full report INSIDE the call-back."""

    def __init__(self, impl):
        self.impl = impl
        self.calls = 0
        self.seen = []                 # observations made inside state_updated()

    async def state_updated(self):
        self.calls += 1
        try:
            self.seen.append(self.impl.observe())
        except Exception as ex:  # pylint: disable=broad-except
            self.seen.append({"error": "%s: %s" % (type(ex).__name__, ex)})


class Impl:
    """One real PlayerStateManager + MrpMetadata."""

    def __init__(self):
        im = _setup()
        self.im = im
        self.proto = StubProtocol()
        self.psm = im["ps"].PlayerStateManager(self.proto)
        self.listener = Listener(self)
        self.psm.listener = self.listener
        self.md = im["mrp"].MrpMetadata(self.proto, self.psm, None, None)

    def feed(self, data):
        msg = self.im["pb"].ProtocolMessage()
        msg.ParseFromString(data)
        before = self.listener.calls
        self.listener.seen = []
        _drive(self.proto.handlers[msg.type](msg))
        for o in self.listener.seen:
            if isinstance(o, dict):
                raise RuntimeError("metadata.playing() inside state_updated(): " + o["error"])
        return self.listener.calls - before

    def seen_at_wakeup(self):
        """The last report read inside state_updated() while the last message was handled."""
        return self.listener.seen[-1] if self.listener.seen else None

    def observe(self):
        return flat_playing(self.im, _drive(self.md.playing()), self.md.app)


def flat_playing(im, p, app):
    """The 18 observed values, in the order of Model.flat."""
    const = im["const"]
    out = []
    if app is None:
        out += [None, None]
    else:
        out += [RCL[app.identifier], None if app.name is None else RSTR[app.name]]
    out.append({const.MediaType.Unknown: 0, const.MediaType.Music: 1, const.MediaType.Video: 2}[p.media_type])
    out.append({const.DeviceState.Idle: 0, const.DeviceState.Playing: 1, const.DeviceState.Paused: 2,
                const.DeviceState.Stopped: 3, const.DeviceState.Loading: 4, const.DeviceState.Seeking: 5}[p.device_state])

    def s(x):
        return None if x is None else RSTR[x]

    out += [s(p.title), s(p.artist), s(p.album), s(p.genre), p.total_time, p.position]
    out.append({const.ShuffleState.Off: 0, const.ShuffleState.Albums: 1, const.ShuffleState.Songs: 2}[p.shuffle])
    out.append({const.RepeatState.Off: 0, const.RepeatState.Track: 1, const.RepeatState.All: 2}[p.repeat])
    digest = hashlib.sha256(("%s%s%s%s" % (p.title, p.artist, p.album, p.total_time)).encode("utf-8")).hexdigest()
    out.append(None if p.hash == digest else RSTR[p.hash])
    out += [s(p.series_name), p.season_number, p.episode_number, s(p.content_identifier), p.itunes_store_identifier]
    return out


FIELD_NAMES = ["app.identifier", "app.name", "media_type", "device_state", "title", "artist", "album", "genre",
               "total_time", "position", "shuffle", "repeat", "hash", "series_name", "season_number",
               "episode_number", "content_identifier", "itunes_store_identifier"]
I_TOTAL, I_POS = 8, 9


def run_impl(history, wires=None):
    """-> (obs0, [(obs, wake_calls, last obs inside a wake-up or None)] per message, error or None)."""
    impl = Impl()
    obs0 = impl.observe()
    tr = []
    for i, m in enumerate(history):
        try:
            w = impl.feed(wires[i] if wires else wire(m))
            sw = impl.seen_at_wakeup()
            o = impl.observe()
        except Exception as ex:  # pylint: disable=broad-except
            return obs0, tr, "%s: %s" % (type(ex).__name__, ex)
        tr.append((o, w, sw))
    return obs0, tr, None


# ----------------------------------------------------------------------------- reference (oracle)
# Written from the property text and the MRP notes in docs/documentation/protocols.md, on the
# whole history (no registry, no pointers): which client is active, which of its players, and
# only the messages addressed to that player since it (or its client) was last removed.

def _trunc2(v):
    return (abs(v) // 2) * (1 if v >= 0 else -1)


def ref_view(pl, parent, now):
    items, loc = pl["items"], pl["loc"]
    cur = items[loc] if loc < len(items) else None
    md = cur["m"] if cur else {}
    st = pl["ps"]
    if st is None:
        ds = 0
    elif st == 2:
        ds = 2 if cur else 0
    elif st != 1:
        ds = {0: 2, 3: 3, 4: 4, 5: 5}[st]
    else:
        r = md.get("rate")
        ds = 1 if (r is None or r == 0 or r == RATE_ONE) else 5
    total = None
    d = md.get("duration")
    if d is not None and d != "nan":
        total = _trunc2(d)
    pos = None
    if md.get("ts"):
        e = md.get("elapsed") or 0
        if ds == 1 and (md.get("rate") or 0) != 0:
            pos = _trunc2(e + 2 * (now - md["ts"]))
        else:
            pos = _trunc2(e)
        # what the property demands: within [0, total] (a negative total cannot be honoured
        # together with "never negative"; non-negativity wins)
        if total is not None and total >= 0:
            pos = min(pos, total)
        pos = max(pos, 0)
    sh, rp = 0, 0
    for (n, s, _r) in list(pl["cmds"]) + list(parent):
        if n == 47:
            sh = {1: 0, 2: 1}.get(s, 2)
            break
    for (n, _s, r) in list(pl["cmds"]) + list(parent):
        if n == 46:
            rp = {2: 1, 3: 2}.get(r, 0)
            break
    media = {1: 1, 2: 2}.get(md.get("media"), 0) if cur else 0
    g = md.get
    return [media, ds, g("title"), g("artist"), g("album"), g("genre"), total, pos, sh, rp,
            (cur["id"] or None) if cur else None,
            g("series"), g("season"), g("episode"), g("content"), g("itunes")]


def ref_reported(history, now=NOW):
    ac = None
    for m in history:
        if m["k"] == "SNPC":
            ac = m["c"]
        elif m["k"] == "RC" and m["c"] == ac:
            ac = None
    empty = {"ps": None, "cmds": [], "items": [], "loc": 0}
    if ac is None:
        return [None, None] + ref_view(empty, [], now)
    epoch = []
    for m in history:
        if m["k"] == "RC":
            if m["c"] == ac:
                epoch = []
        elif m["c"] == ac:
            epoch.append(m)
    name = None
    for i, m in enumerate(epoch):
        if (i == 0 or m["k"] == "UC") and m.get("dn"):
            name = m["dn"]
    parent = []
    ap = None
    for m in epoch:
        if m["k"] == "SDSC":
            parent = m["cmds"]
        elif m["k"] == "SNPP":
            ap = m["p"]
        elif m["k"] == "RP" and m["p"] != 0 and m["p"] == ap:
            ap = None
    eff = 1 if ap is None else ap
    pl = copy.deepcopy(empty)
    for m in epoch:
        if m["k"] in HAS_PLAYER and m["p"] == eff:
            if m["k"] == "RP" and m["p"] != 0:
                pl = copy.deepcopy(empty)
            elif m["k"] == "SS":
                if m["ps"] is not None:
                    pl["ps"] = m["ps"]
                if m["cmds"] is not None:
                    pl["cmds"] = m["cmds"]
                if m["q"] is not None:
                    pl["items"] = copy.deepcopy(m["q"][0])
                    pl["loc"] = m["q"][1]
            elif m["k"] == "UCI":
                for u in m["items"]:
                    for e in pl["items"]:
                        if e["id"] == u["id"]:
                            e["m"].update(u["m"])
    return [ac, name] + ref_view(pl, parent, now)


def judge_position(pos, total):
    """Keys of the clamp part of the property violated by a reported (position, total_time)."""
    if pos is None:
        return None
    if pos < 0:
        return "C11:clamp:negative-total" if (total is not None and total < 0) else "C11:clamp:negative"
    if total is not None and total == 0 and pos > 0:
        return "C11:clamp:zero-total"
    if total is not None and total > 0 and pos > total:
        return "C11:clamp:beyond-total"
    return None


def pos_free(o, exp):
    """With a negative total time no position is within [0, total]; any non-negative one is accepted."""
    return (o[I_TOTAL] is not None and o[I_TOTAL] < 0 and o[I_POS] is not None and o[I_POS] >= 0
            and exp[I_POS] is not None)


def judge_history(history, obs0, tr, err):
    """The property judged on the implementation's observations.  -> [(key, what, step)]"""
    out = []
    if err:
        out.append(("C11:report:raises", "handler or metadata.playing() raised: " + err, len(tr)))
    prev = obs0
    exp0 = ref_reported([])
    if obs0 != exp0:
        out.append(("C11:report:initial-not-idle", "initial report %r" % (obs0,), -1))
    for i, (o, w, sw) in enumerate(tr):
        exp = ref_reported(history[:i + 1])
        k = judge_position(o[I_POS], o[I_TOTAL])
        if k:
            out.append((k, "reported position %r with total_time %r" % (o[I_POS], o[I_TOTAL]), i))
        diff = [FIELD_NAMES[j] for j in range(len(exp)) if exp[j] != o[j] and not (j == I_POS and (k or pos_free(o, exp)))]
        if diff:
            what = "; ".join("%s is %r, the active player's latest state gives %r" % (n, o[FIELD_NAMES.index(n)], exp[FIELD_NAMES.index(n)]) for n in diff)
            m = history[i]
            cls = "not-latest-state-of-active-player"
            if m["k"] in ("RC", "RP") and o == prev and exp != ref_reported(history[:i]):
                cls = "removal-not-reflected"
            out.append(("C11:report:" + cls, what, i))
        if o != prev and w == 0:
            m = history[i]
            key = "C11:wake:missed"
            if m["k"] == "RP" and m["p"] == 1:
                key = "C11:wake:default-player-removed"
            out.append((key, "reported state changed from %r to %r without listener.state_updated()" % (prev, o), i))
        if w > 0 and sw != o:
            out.append(("C11:wake:stale-state-at-wakeup",
                        "listener.state_updated() was called while metadata still reported %r; after the message it reports %r "
                        "(a listener reading playing() in the call-back announces the old state)" % (sw, o), i))
        prev = o
    return out


# ----------------------------------------------------------------------------- Coq printers

def cN(n):
    return "%d%%N" % n


def cZ(n):
    return "(%d)" % n if n < 0 else "%d" % n          # files open Z_scope


def coN(x):
    return "None" if x is None else "(Some %d%%N)" % x


def coZ(x):
    return "None" if x is None else "(Some %s)" % cZ(x)


def c_meta(m):
    a = []
    for k in META_ORDER:
        v = m.get(k)
        if k in ("title", "artist", "album", "genre", "series", "content", "media"):
            a.append(coN(v))
        elif k == "duration":
            a.append("None" if v is None else ("(Some DNaN)" if v == "nan" else "(Some (DFin %s))" % cZ(v)))
        else:
            a.append(coZ(v))
    return "(Build_meta %s)" % " ".join(a)


def c_item(it):
    return "(Build_item %s %s)" % (cN(it["id"]), c_meta(it["m"]))


def c_cmds(cmds):
    return "[" + "; ".join("Build_cmd %s %s %s" % (cN(n), cN(s), cN(r)) for (n, s, r) in cmds) + "]"


def c_msg(m):
    k = m["k"]
    c, dn = cN(m["c"]), cN(m.get("dn", 0))
    if k == "SS":
        return "(SetState %s %s %s %s %s %s)" % (
            c, dn, cN(m["p"]), coN(m["ps"]),
            "None" if m["cmds"] is None else "(Some %s)" % c_cmds(m["cmds"]),
            "None" if m["q"] is None else "(Some ([%s], %s))" % ("; ".join(c_item(i) for i in m["q"][0]), cN(m["q"][1])))
    if k == "UCI":
        return "(UpdateContentItem %s %s %s [%s])" % (c, dn, cN(m["p"]), "; ".join(c_item(i) for i in m["items"]))
    if k == "SNPC":
        return "(SetNowPlayingClient %s %s)" % (c, dn)
    if k == "SNPP":
        return "(SetNowPlayingPlayer %s %s %s)" % (c, dn, cN(m["p"]))
    if k == "UC":
        return "(UpdateClient %s %s)" % (c, dn)
    if k == "RC":
        return "(RemoveClient %s)" % c
    if k == "RP":
        return "(RemovePlayer %s %s %s)" % (c, dn, cN(m["p"]))
    if k == "SDSC":
        return "(SetDefaultCommands %s %s %s)" % (c, dn, c_cmds(m["cmds"]))
    raise ValueError(k)


def c_obs(o):
    return "[" + "; ".join(coZ(x) for x in o) + "]"


HEADER = ("From Coq Require Import List ZArith NArith. Import ListNotations.\n"
          "From PV Require Import Common.Cases C11.Model.\nOpen Scope Z_scope.\n")


# ----------------------------------------------------------------------------- generators

def small_alphabet():
    """28 messages: 2 clients x (default player, one named player) x 8 kinds."""
    A = []
    itemA = {"id": 1, "m": {"title": 1, "rate": RATE_ONE, "elapsed": 20, "ts": NOW - 4, "duration": 100}}
    for c in (1, 2):
        for p in (1, 2):
            A.append({"k": "SS", "c": c, "dn": 0, "p": p, "ps": 1, "cmds": None, "q": [[itemA], 0]})
            A.append({"k": "SS", "c": c, "dn": 0, "p": p, "ps": 2, "cmds": None, "q": None})
            A.append({"k": "UCI", "c": c, "dn": 0, "p": p, "items": [{"id": 1, "m": {"title": 2, "rate": 2 * RATE_ONE}}]})
            A.append({"k": "SNPP", "c": c, "dn": 0, "p": p})
            A.append({"k": "RP", "c": c, "dn": 0, "p": p})
        A.append({"k": "SNPC", "c": c, "dn": 3 + c})
        A.append({"k": "UC", "c": c, "dn": 6})
        A.append({"k": "RC", "c": c})
        A.append({"k": "SDSC", "c": c, "dn": 0, "cmds": [[47, 3, 0], [46, 0, 2]]})
    return A


def rnd_meta(rng, rich=True):
    m = {}
    def maybe(k, vals, p=0.35):
        if rng.random() < p:
            m[k] = rng.choice(vals)
    maybe("title", [0, 1, 2, 3], 0.6)
    maybe("rate", [0, 1, RATE_ONE // 2, RATE_ONE, RATE_ONE + 1, 2 * RATE_ONE, -RATE_ONE], 0.5)
    maybe("elapsed", [0, 1, 7, 20, 21, 300, -3, -8], 0.5)
    maybe("ts", [0, NOW, NOW - 10, NOW - 100, NOW + 7, NOW - 1], 0.55)
    maybe("duration", [0, 1, 60, 61, 200, 241, -10, -1, "nan"], 0.5)
    maybe("media", [0, 1, 2], 0.3)
    if rich:
        maybe("artist", [0, 1, 2], 0.2)
        maybe("album", [0, 2, 3], 0.2)
        maybe("genre", [1, 3], 0.15)
        maybe("series", [2, 3], 0.15)
        maybe("content", [0, 1, 3], 0.15)
        maybe("season", [0, 1, 7, -1], 0.15)
        maybe("episode", [0, 3, 12], 0.15)
        maybe("itunes", [0, 5, 1234567890123], 0.15)
    return m


def rnd_items(rng, n=None):
    n = rng.choice([0, 1, 1, 1, 2, 2, 3]) if n is None else n
    out = []
    for _ in range(n):
        it = {"id": rng.choice([0, 1, 1, 2, 3]), "m": rnd_meta(rng)}
        if not it["m"] and rng.random() < 0.5:
            it["e"] = 1
        out.append(it)
    return out


def rnd_cmds(rng):
    out = []
    for _ in range(rng.choice([0, 1, 1, 2, 3])):
        out.append([rng.choice([47, 46, 1, 47, 46]), rng.choice([0, 1, 2, 3]), rng.choice([0, 1, 2, 3])])
    return out


def rnd_msg(rng):
    k = rng.choice(["SS", "SS", "SS", "UCI", "UCI", "SNPC", "SNPC", "SNPP", "SNPP", "UC", "RC", "RP", "RP", "SDSC"])
    c = rng.choice([1, 1, 1, 2, 2, 2, 0])
    m = {"k": k, "c": c}
    if c == 0 and rng.random() < 0.5:
        m["ce"] = 1                               # bundleIdentifier explicitly ""
    if k != "RC":
        m["dn"] = rng.choice([0, 0, 4, 5, 6])
    if k in HAS_PLAYER:
        m["p"] = rng.choice([1, 1, 1, 2, 2, 2, 3, 0])
    if k == "SS":
        m["ps"] = rng.choice([None, 0, 1, 1, 1, 2, 2, 3, 4, 5])
        m["cmds"] = rnd_cmds(rng) if rng.random() < 0.3 else None
        m["q"] = [rnd_items(rng), rng.choice([0, 0, 0, 1, 2])] if rng.random() < 0.65 else None
    elif k == "UCI":
        m["items"] = rnd_items(rng, rng.choice([1, 1, 2]))
    elif k == "SDSC":
        m["cmds"] = rnd_cmds(rng)
    return m


def rnd_history(rng, maxlen):
    n = rng.randint(3, maxlen)
    h = [rnd_msg(rng) for _ in range(n)]
    if rng.random() < 0.6:                        # most histories have an active client early
        h[rng.randint(0, 1)] = {"k": "SNPC", "c": rng.choice([1, 2]), "dn": rng.choice([0, 4, 5])}
    return h


# ----------------------------------------------------------------------------- the run

def shrink(history, key):
    """Greedy: drop messages while the same class of violation remains."""
    def fails(h):
        o0, tr, err = run_impl(h)
        return any(k == key for (k, _w, _s) in judge_history(h, o0, tr, err))
    h = list(history)
    changed = True
    budget = 200
    while changed and budget > 0:
        changed = False
        for i in range(len(h)):
            budget -= 1
            cand = h[:i] + h[i + 1:]
            if cand and fails(cand):
                h = cand
                changed = True
                break
    return h


def history_replay(history, key=None):
    o0, tr, err = run_impl(history)
    return {"kind": "history", "now": NOW, "history": history,
            "strings": {"clients": CL, "players": PL, "strings": STR},
            "impl_initial": o0, "impl_after_each_message": [[o, w] for (o, w, _sw) in tr],
            "impl_seen_inside_wakeup": [sw for (_o, _w, sw) in tr],
            "reference_after_each_message": [ref_reported(history[:i + 1]) for i in range(len(history))],
            "fields": FIELD_NAMES, "error": err}


def judge_playing(pos, total):
    """Playing(position=pos,total_time=total) judged directly.  -> (result, key or None)"""
    im = _setup()
    res = im["Playing"](position=pos, total_time=total).position
    key = None
    if pos is None:
        if res is not None:
            key = "C11:clamp:invents-position"
    elif res is None:
        key = "C11:clamp:drops-position"
    else:
        key = judge_position(res, total)
        if key is None and pos >= 0 and (total is None or pos <= total) and res != pos:
            key = "C11:clamp:distorts-valid-position"
    return res, key


def run(ctx):
    _setup()
    ok = ctx.build_property()
    if ctx.thorough:
        ctx.coqchk()
    depth = 4 if ctx.thorough else 3
    n_random = 30000 if ctx.thorough else 4000
    max_len = 14 if ctx.thorough else 12
    ctx.rule = ("(1) EVERY message sequence of length <= %d over a 28-message alphabet (2 clients x {default player, "
                "named player} x all 8 kinds; set-state with and without queue), each run from scratch on the real "
                "PlayerStateManager; (2) %d random histories of length 3..%d over 3 clients (incl. \"\") x 4 players "
                "(incl. \"\" and the default player) x 8 kinds x rich fields (14 metadata fields, rates around 0/1, "
                "negative/zero/NaN durations, future timestamps, empty and duplicate item identifiers, locations past "
                "the queue); (3) Playing(position,total_time) over the full grid -8..16 x -8..14 plus None. "
                "The stub listener reads the full report INSIDE state_updated(); per message the report after it, the number of wake-ups and the last report read inside a wake-up are recorded. "
                "non-trivial = the reported state is not the idle one; distinct by the canonical message list"
                % (depth, n_random, max_len))
    found = {}                                  # key -> (what, replay-ish)

    def record(key, what, history, step):
        if key not in found:
            found[key] = (what, history[:step + 1] if step >= 0 else [])

    # --- 0. corpus -------------------------------------------------------------------
    corpus_cases = []
    for name, d in common.load_corpus(ctx.pid):
        ctx.count("corpus")
        if d.get("kind") == "playing":
            res, key = judge_playing(d["position"], d["total_time"])
            if key:
                found.setdefault(key, ("Playing(position=%r,total_time=%r).position == %r" % (d["position"], d["total_time"], res),
                                       {"kind": "playing", "position": d["position"], "total_time": d["total_time"], "result": res, "corpus": name}))
        else:
            h = d["history"]
            o0, tr, err = run_impl(h)
            for (key, what, step) in judge_history(h, o0, tr, err):
                record(key, what + " [corpus %s]" % name, h, step)
            if not err:
                corpus_cases.append((h, o0, tr))
            ctx.case(("corpus", name), nontrivial=True)

    # --- 1. exhaustive enumeration over the small alphabet ---------------------------
    A = small_alphabet()
    AW = [wire(m) for m in A]
    idle = ref_reported([])
    table = {}                                   # obs tuple -> index
    def tix(o):
        t = tuple(o)
        if t not in table:
            table[t] = len(table)
        return table[t]
    obs_of = {(): tix(Impl().observe())}
    enum_expected = {}                           # n -> list of (obs index, woke) in product order
    n_seq = 0
    for n in range(1, depth + 1):
        exp = []
        for idxs in itertools.product(range(len(A)), repeat=n):
            impl = Impl()
            err = None
            w = 0
            try:
                for i in idxs:
                    w = impl.feed(AW[i])
                sw = impl.seen_at_wakeup()
                o = impl.observe()
            except Exception as ex:  # pylint: disable=broad-except
                err = "%s: %s" % (type(ex).__name__, ex)
                o = None
            h = [A[i] for i in idxs]
            n_seq += 1
            if err:
                record("C11:report:raises", err, h, n - 1)
                exp.append((0, None))
                continue
            oi = tix(o)
            obs_of[idxs] = oi
            exp.append((oi, tix(sw) if w > 0 else None))
            # oracle on the last message (all prefixes are cases of their own)
            want = ref_reported(h)
            k = judge_position(o[I_POS], o[I_TOTAL])
            if k:
                record(k, "reported position %r with total_time %r" % (o[I_POS], o[I_TOTAL]), h, n - 1)
            if any(want[j] != o[j] and not (j == I_POS and (k or pos_free(o, want))) for j in range(len(want))):
                for (key, what, step) in judge_history(h, *run_impl(h)):
                    record(key, what, h, step)
            prev = obs_of.get(idxs[:-1])
            if prev is not None and prev != oi and w == 0:
                for (key, what, step) in judge_history(h, *run_impl(h)):
                    record(key, what, h, step)
            if w > 0 and sw != o:
                for (key, what, step) in judge_history(h, *run_impl(h)):
                    record(key, what, h, step)
            if w > 1:
                ctx.count("woken-more-than-once")       # not demanded by the property; recorded only
            ctx.case(idxs, nontrivial=(o != idle),
                     sample={"history": h, "reported": dict(zip(FIELD_NAMES, o)), "woken": w} if n == 3 and n_seq % 5000 == 7 else None)
            ctx.count("enum-len%d" % n)
            ctx.count("last:" + A[idxs[-1]]["k"])
        enum_expected[n] = exp
    ctx.exhaustive = True
    ctx.extra["exhaustive_scope"] = "all %d sequences of length <= %d over the 28-message alphabet" % (n_seq, depth)

    # --- 2. random rich histories ------------------------------------------------------
    rnd_cases = list(corpus_cases)
    for _ in range(n_random):
        h = rnd_history(ctx.rng, max_len)
        o0, tr, err = run_impl(h)
        for (key, what, step) in judge_history(h, o0, tr, err):
            record(key, what, h, step)
        if not err:
            rnd_cases.append((h, o0, tr))
        nt = any(o != idle for (o, _w, _sw) in tr)
        ctx.case(json.dumps(h, sort_keys=True), nontrivial=nt,
                 sample={"history": h, "reported_after_each": [o for (o, _w, _sw) in tr], "woken": [w for (_o, w, _sw) in tr]} if len(h) <= 4 else None)
        ctx.count("rnd-len%02d" % len(h))
        for m in h:
            ctx.count("kind:" + m["k"])
        ctx.count("rnd-nontrivial" if nt else "rnd-idle-throughout")
    ctx.traces = n_seq + len(rnd_cases)

    # --- 3. Playing(position, total_time) grid ----------------------------------------
    clamp_cases = []
    for pos in [None] + list(range(-8, 17)):
        for total in [None] + list(range(-8, 15)):
            res, key = judge_playing(pos, total)
            clamp_cases.append((pos, total, res))
            if key:
                found.setdefault(key, ("Playing(position=%r,total_time=%r).position == %r" % (pos, total, res),
                                       {"kind": "playing", "position": pos, "total_time": total, "result": res}))
            ctx.case(("playing", pos, total), nontrivial=(pos is not None and res != pos))
            ctx.count("playing-grid")

    # --- violations (shrunk) ------------------------------------------------------------
    for key, (what, rep) in sorted(found.items()):
        if isinstance(rep, dict):
            ctx.violation(key, what, rep)
        else:
            h = shrink(rep, key) if len(rep) > 1 else rep
            ctx.violation(key, what, history_replay(h, key))

    # --- 4. model vs implementation, evaluated in Coq -------------------------------
    items = []
    inv = sorted(table.items(), key=lambda kv: kv[1])
    tab_txt = "Definition table : list (list (option Z)) := [\n%s\n].\n" % ";\n".join(c_obs(o) for (o, _i) in inv)
    alpha_txt = "Definition A : list msg := [\n%s\n].\n" % ";\n".join(c_msg(m) for m in A)
    for n in range(1, depth + 1):
        exp = enum_expected[n]
        if n <= 2:
            parts = [([], n, exp, "enum%d" % n)]
        else:
            per = len(A) ** (n - 1)
            parts = [([A[i]], n - 1, exp[i * per:(i + 1) * per], "enum%d_%02d" % (n, i)) for i in range(len(A))]
        for (prefix, k, e, name) in parts:
            txt = (HEADER + tab_txt + alpha_txt +
                   "Definition expected : list (nat * option nat) := [\n%s\n].\n" % ";".join("(%d%%nat,%s)" % (i, "None" if w is None else "Some %d%%nat" % w) for (i, w) in e) +
                   "Eval vm_compute in (check_enum %d [%s] A %d%%nat table expected).\n" % (NOW, "; ".join(c_msg(m) for m in prefix), k))
            items.append((name, txt))
    per = 150
    for i in range(0, len(rnd_cases), per):
        chunk = rnd_cases[i:i + per]
        body = ";\n".join("(%d, [%s], %s, [%s])" % (
            NOW, "; ".join(c_msg(m) for m in h), c_obs(o0),
            "; ".join("(%s, %s)" % (c_obs(o), "Some %s" % c_obs(sw) if w > 0 else "None") for (o, w, sw) in tr)) for (h, o0, tr) in chunk)
        txt = (HEADER + "Definition cases : list (Z * list msg * list (option Z) * list wobs) := [\n%s\n].\n" % body +
               "Eval vm_compute in (bad_indices check_case cases).\n")
        items.append(("rnd_%03d" % (i // per), txt))
    txt = (HEADER + "Definition cases : list (option Z * option Z * option Z) := [\n%s\n].\n" %
           ";\n".join("(%s, %s, %s)" % (coZ(p), coZ(t), coZ(r)) for (p, t, r) in clamp_cases) +
           "Eval vm_compute in (bad_indices check_clamp cases).\n")
    items.append(("clamp", txt))
    res = common.coq_run_many(items, ctx.pid, timeout=900, par=14)
    import re
    for name, (rc, out) in sorted(res.items()):
        if name.startswith("enum"):
            m = re.search(r"=\s*Some\s*(\[[^\]]*\])", out, re.S) if rc == 0 else None
            if not m:
                ctx.tie_broken("correspondence:" + name, out)
                continue
            body = m.group(1).strip()[1:-1].strip()
            bad = [int(x.replace("%N", "").strip()) for x in body.split(";")] if body else []
            if bad:
                n = int(name[4])
                first = int(name.split("_")[1]) if "_" in name else None
                for b in bad[:3]:
                    if first is None:
                        idxs = list(itertools.product(range(len(A)), repeat=n))[b]
                    else:
                        idxs = (first,) + list(itertools.product(range(len(A)), repeat=n - 1))[b]
                    h = [A[i] for i in idxs]
                    ctx.tie_broken("correspondence:model-vs-PlayerStateManager", json.dumps(
                        {"history": h, "impl": history_replay(h)["impl_after_each_message"]}))
        else:
            bad = common.parse_eval_nat_list(out) if rc == 0 else None
            if bad is None:
                ctx.tie_broken("correspondence:" + name, out)
            elif bad:
                for b in bad[:3]:
                    if name == "clamp":
                        ctx.tie_broken("correspondence:post_process-vs-Playing", json.dumps(clamp_cases[b]))
                    else:
                        h, o0, tr = rnd_cases[int(name.split("_")[1]) * per + b]
                        ctx.tie_broken("correspondence:model-vs-PlayerStateManager", json.dumps(
                            {"history": h, "impl_initial": o0, "impl": [[o, w, sw] for (o, w, sw) in tr]}))
    ctx.extra["distinct_reported_states_in_enumeration"] = len(table)
    ctx.trusted += [
        "hand-written model coq/C11/Model.v of player_state.py / build_playing_instance / Playing._post_process, tied by the differential run in this file (exhaustive short sequences + random rich histories), compared inside Coq by vm_compute",
        "harness/c11.py: protobuf message builder, stub MrpProtocol (listen_to only), stub listener, frozen datetime.now() inside pyatv.protocols.mrp, history-based Python reference used as the oracle",
        "object identity of the active Client / active PlayerState is represented by dictionary keys in the model",
    ]
    ctx.assumptions += [
        "wall clock frozen: position extrapolation is elapsedTime + (now - elapsedTimeTimestamp) with integer timestamps",
        "elapsedTime and duration are multiples of 0.5 s, or NaN for duration; an infinite duration (int() raises OverflowError inside playing()) is outside the domain",
        "playbackRate is a 32-bit float (as in the protocol definition), given as a multiple of 2^-23; for such values math.isclose(x, 0.0|1.0) is equality",
        "playbackQueue.location >= 0",
        "with a negative total time the position is only required to be non-negative",
        "the listener's state_updated() does not re-enter the manager",
    ]


def replay(ctx, path):
    d = json.load(open(path))
    if "broken" in d and "replay" not in d:
        # a proof obligation / correspondence broke without a failing input of the property:
        # re-run every recorded history against the implementation and judge it again
        rc = 0
        for b in d["broken"]:
            print("no longer checks: %s" % b.get("name"))
            try:
                det = json.loads(b.get("detail", ""))
            except (ValueError, TypeError):
                continue
            if isinstance(det, dict) and "history" in det:
                h = det["history"]
                errs = judge_history(h, *run_impl(h))
                print("   history %s\n   property-errors=%s" % (json.dumps(h), [(k, s2, w) for (k, w, s2) in errs]))
                rc = rc or (1 if errs else 0)
        return rc
    r = d.get("replay", d)
    if r.get("kind") == "playing":
        res, key = judge_playing(r["position"], r["total_time"])
        print("Playing(position=%r,total_time=%r).position == %r property-errors=%s" % (r["position"], r["total_time"], res, [key] if key else []))
        return 1 if key else 0
    h = r["history"]
    o0, tr, err = run_impl(h)
    errs = judge_history(h, o0, tr, err)
    for i, m in enumerate(h):
        print("message %d: %s" % (i, json.dumps(m, sort_keys=True)))
        if i < len(tr):
            print("   reported: %s woken=%d" % (dict(zip(FIELD_NAMES, tr[i][0])), tr[i][1]))
            if tr[i][1] and tr[i][2] != tr[i][0]:
                print("   seen inside state_updated(): %s" % dict(zip(FIELD_NAMES, tr[i][2])))
            print("   expected: %s" % dict(zip(FIELD_NAMES, ref_reported(h[:i + 1]))))
    print("property-errors=%s" % [(k, s, w) for (k, w, s) in errs])
    return 1 if errs else 0
