"""./check dispatcher."""
import argparse
import importlib
import os
import sys
import traceback

import logging

import common

logging.disable(logging.CRITICAL)


def setup():
    """Build the whole Coq development from files on disk (offline)."""
    # regenerate every Gen.v first (each property module may define gen(ctx))
    ok = True
    for f in sorted(os.listdir(os.path.dirname(__file__))):
        if len(f) == 6 and f.startswith("c") and f.endswith(".py") and f[1:3].isdigit():
            mod = importlib.import_module(f[:-3])
            if hasattr(mod, "gen"):
                try:
                    mod.gen(common.Ctx(f[:-3].upper(), "quick", 0))
                except Exception:
                    traceback.print_exc()
                    ok = False
    bad = common.grep_forbidden()
    if bad:
        print("forbidden vernacular:", bad)
        ok = False
    targets = [f[:-2] + ".vo" for f in common.coq_files()]
    good, out = common.coq_make(targets, timeout=3000, jobs=16)
    print(out[-3000:])
    return 0 if (ok and good) else 1


def main():
    ap = argparse.ArgumentParser()
    ap.add_argument("pid", nargs="?")
    ap.add_argument("--tier", default=os.environ.get("VERIF_TIER", "quick"), choices=["quick", "thorough"])
    ap.add_argument("--replay")
    ap.add_argument("--setup", action="store_true")
    a = ap.parse_args()
    if a.setup:
        sys.exit(setup())
    pid = a.pid.upper()
    seed = int(os.environ.get("VERIF_SEED", "0") or 0)
    ctx = common.Ctx(pid, a.tier, seed, a.replay)

    # Watchdog: a check never runs away.  A timer thread (the per-property harnesses use SIGALRM
    # themselves) records the broken tie, writes evidence and ends the process.
    import threading

    def on_watchdog():
        ctx.tie_broken("watchdog", "check exceeded its time limit (%s tier)" % a.tier)
        rc = 1
        try:
            rc = ctx.finish()
        finally:
            os._exit(rc or 1)
    wd = threading.Timer(2400 if a.tier == "quick" else 7200, on_watchdog)
    wd.daemon = True
    wd.start()
    try:
        mod = importlib.import_module(pid.lower())
        if a.replay:
            rc = mod.replay(ctx, a.replay)
            sys.exit(rc)
        mod.run(ctx)
    except Exception:
        tb = traceback.format_exc()
        print(tb)
        ctx.tie_broken("harness-exception", tb)
    # A broken obligation / correspondence WITHOUT any failing input of the property may be a
    # transient of the machine (a worker or coqc killed by its time limit under load, two checks
    # building shared Coq files at the same moment).  A break caused by the code is deterministic,
    # so the whole check is run once more from scratch and only the second outcome is reported.
    if (ctx.broken and os.environ.get("VERIF_RETRY") != "1"
            and not any(common.load_known().get((pid, v["key"]), {}).get("status") != "known" for v in ctx.violations)):
        print("[%s] obligation/correspondence did not check and no failing input was found: running the check once more "
              "to rule out a transient (first attempt: %s)" % (pid, "; ".join(str(b.get("name")) for b in ctx.broken[:4])), flush=True)
        wd.cancel()
        os.environ["VERIF_RETRY"] = "1"
        sys.stdout.flush()
        os.execv(sys.executable, [sys.executable, "-u"] + sys.argv)
    sys.exit(ctx.finish())


if __name__ == "__main__":
    main()
