"""C03 - a response reaches exactly the request that it answers.

Theorems: coq/C03 (four dispatcher models, all histories).  This file ties the models to
the code: it drives the REAL MrpProtocol (+MrpConnection), CompanionProtocol
(+CompanionConnection), HttpConnection and RtspSession with fake transports under the
virtual-time loop, judges the property text directly on what every awaiting coroutine and
every listener observed (the oracle), and has Coq compare each run with the model.

A script is a list of operations performed by the "device and scheduler":
  ["req", w, opts]     start request w (a task calling the real API)
  ["msg", [m, ...]]    the device sends the messages m... in ONE read (data_received)
  ["timeout"]          virtual time advances until the next pending timer fires
  ["race", m]          message m arrives in the same loop iteration in which the next timeout
                       fires, immediately before it (the suspended request has not resumed yet)
  ["cancel", w]        the task of request w is cancelled
  ["send", e, opts]    Companion: the client pushes event e with send_opack (fire-and-forget, nothing awaited)
  ["listeners", spec]  MRP: the listener set of the run (first operation)
request opts: "fault": "write"/"processor" makes the send side raise for that request; "reuse": j re-sends
the message object of request j (MRP).  Message m: m["xfor"] = w / m["efor"] = e gives a Companion frame the
"_x" of request w / of pushed event e without making it their answer.
After the script every request still pending is left to time out.
A message m is a dict; m["for"] = w means "this is the device's answer to request w".
"""
import asyncio
import itertools
import json
import re

import logging

import common
import vloop

logging.disable(logging.CRITICAL)

TRANSPORTS = ("mrp", "companion", "http", "rtsp")


# ----------------------------------------------------------------------------- fakes
class FakeSocket:
    def getsockname(self):
        return ("10.0.0.1", 1111)

    def getpeername(self):
        return ("10.0.0.2", 2222)

    def setsockopt(self, *a):
        pass


class SendFault(OSError):
    """the injected failure of the send side (closed transport, encryption error, ...)"""


class FakeTransport:
    def __init__(self, on_write, env=None):
        self.on_write = on_write
        self.env = env
        self.closed = False

    def write(self, data):
        self.on_write(bytes(data))
        if self.env is not None and self.env.fault == "write":
            self.env.fault = None
            raise SendFault("verif: write failed")

    def get_extra_info(self, name, default=None):
        return FakeSocket() if name == "socket" else default

    def close(self):
        self.closed = True

    def can_write_eof(self):
        return False

    def is_closing(self):
        return self.closed


async def settle():
    """Let every runnable callback/task run until nothing is ready any more."""
    loop = asyncio.get_event_loop()
    for _ in range(500):
        await asyncio.sleep(0)
        if not loop._ready:
            return
    raise RuntimeError("does not settle")


def next_deadline(loop):
    ws = [h._when for h in loop._scheduled if not h._cancelled]
    return min(ws) if ws else None


class Env:
    """One run: the real objects of one transport plus the log of everything observed."""

    def __init__(self):
        self.log = []          # ("op", i, op) | ("ret", w, value) | ("exc", w, name, text) | ("listen", who, type, tag) | ("http_ret", w)
        self.tasks = {}
        self.wire = {}         # w -> identifier seen on the wire for request w
        self.cur = None        # request whose first step is running (for attributing writes)
        self.fault = None      # "write" / "processor": the send side fails for the request being started
        self.script = []
        self.keep = []

    # to be provided: async setup(), call(w, opts) -> coroutine, encode(m) -> bytes, feed(bytes), on_write(data)

    async def waiter(self, w, opts):
        self.cur = w
        self.fault = opts.get("fault")
        try:
            r = await self.call(w, opts)
            self.log.append(("ret", w, self.value(r)))
        except asyncio.CancelledError:
            self.log.append(("exc", w, "CancelledError", "", ""))
        except BaseException as ex:  # noqa
            c = ex.__context__
            self.log.append(("exc", w, type(ex).__name__, str(ex), type(c).__name__ if c is not None else ""))


def tag_of(text):
    m = re.search(r"T(\d+)", text or "")
    return int(m.group(1)) if m else None


# ----------------------------------------------------------------------------- MRP
# listeners of a run: [index of the message type, "sync" | "async", filter]; registered in this order
DEFAULT_LISTENERS = [[0, "sync", None], [0, "async", None], [0, "sync", None], [1, "sync", None]]
FILTERS = {
    "all": lambda message: True,
    "none": lambda message: False,
    "odd": lambda message: (tag_of(message.uniqueIdentifier) or 0) % 2 == 1,
}


def accepts(filt, tag):
    return True if filt in (None, "all") else (False if filt == "none" else tag % 2 == 1)


def listeners_of(case, ty):
    return [l for l in (case.obs["listeners"] or []) if l["type"] == ty]


def judge_dispatch(case, m, key, why):
    """message m must have been dispatched: every listener of its type whose filter accepts it saw it exactly
    once (a rejecting one never), nobody saw it under another type"""
    errs = []
    ty = case.obs["types"][m["m"].get("type", 0)]
    for l in listeners_of(case, ty):
        want = 1 if accepts(l["filt"], m["tag"]) else 0
        n = sum(1 for (x, y, g) in case.listens if x == l["who"] and g == m["tag"])
        if n != want:
            errs.append((key, "%s T%d: listener #%d (%s, filter %s) of type %d saw it %d times instead of %d" % (
                why, m["tag"], l["who"], l["kind"], l["filt"], ty, n, want)))
    if any(g == m["tag"] and y != ty for (x, y, g) in case.listens):
        errs.append((key, "T%d dispatched under a wrong type" % m["tag"]))
    return errs


class MrpEnv(Env):
    name = "mrp"

    async def setup(self):
        from pyatv.protocols.mrp import protobuf
        from pyatv.protocols.mrp.connection import MrpConnection
        from pyatv.protocols.mrp.protocol import MrpProtocol
        from pyatv.settings import InfoSettings
        from pyatv.support.variant import read_variant

        env = self
        self.pb = protobuf
        # three message types: 0 has three listeners, 1 has one, 2 has none
        self.types = [int(protobuf.GENERIC_MESSAGE), int(protobuf.SEND_COMMAND_RESULT_MESSAGE),
                      int(protobuf.CRYPTO_PAIRING_MESSAGE)]
        self.sent = []

        def on_write(data):
            length, raw = read_variant(data)
            m = protobuf.ProtocolMessage()
            m.ParseFromString(raw[:length])
            env.sent.append(m)
            if env.cur is not None:
                env.wire[env.cur] = m.identifier
                env.cur = None

        class Conn(MrpConnection):
            async def connect(self):
                self.connection_made(FakeTransport(on_write, env))

        class Srp:
            pairing_id = b"verif"

        class Service:
            credentials = None

        self.conn = Conn("10.0.0.2", 2222, asyncio.get_event_loop())
        self.proto = MrpProtocol(self.conn, Srp(), Service(), InfoSettings())
        try:
            start = asyncio.ensure_future(self.proto.start(skip_initial_messages=True))
            await settle()
            di = self.sent[-1]
            reply = protobuf.ProtocolMessage()
            reply.type = protobuf.DEVICE_INFO_MESSAGE
            reply.identifier = di.identifier
            self.feed(self.frame(reply))
            await settle()
            await start
        except Exception:  # noqa
            # the real start-up exchange failed (its own answer did not reach it); go on with a protocol
            # object that is forced into the connected state so that the scripts still show what fails
            from pyatv.protocols.mrp.protocol import ProtocolState
            self.conn = Conn("10.0.0.2", 2222, asyncio.get_event_loop())
            self.conn.connection_made(FakeTransport(on_write, env))
            self.proto = MrpProtocol(self.conn, Srp(), Service(), InfoSettings())
            self.proto._state = ProtocolState.READY
        self.cur = None
        self.wire.clear()

        def mk(who, ty):
            def f(message):
                env.log.append(("listen", who, ty, tag_of(message.uniqueIdentifier)))
            return f

        def mka(who, ty):
            async def f(message):
                env.log.append(("listen", who, ty, tag_of(message.uniqueIdentifier)))
            return f

        spec = DEFAULT_LISTENERS
        for op in self.script:
            if op[0] == "listeners":
                spec = op[1]
        self.listeners = []
        for who, (ti, kind, filt) in enumerate(spec):
            ty = self.types[ti]
            func = (mka if kind == "async" else mk)(who, ty)
            if filt is None:
                self.proto.listen_to(ty, func)
            else:
                self.proto.listen_to(ty, func, message_filter=FILTERS[filt])
            self.listeners.append({"who": who, "type": ty, "kind": kind, "filt": filt})

    def frame(self, msg):
        from pyatv.support.variant import write_variant
        s = msg.SerializeToString()
        return write_variant(len(s)) + s

    def call(self, w, opts):
        src = getattr(self, "msgs", {}).get(opts.get("reuse"))
        if src is not None and opts.get("copy"):
            m = self.pb.ProtocolMessage()      # a message built from an earlier one
            m.CopyFrom(src)
        elif src is not None:
            m = src                            # the caller re-sends the very same object (retry loop)
        else:
            m = self.pb.ProtocolMessage()
            m.type = self.types[opts.get("type", 0)]
        if not hasattr(self, "msgs"):
            self.msgs = {}
        self.msgs[w] = m
        return self.proto.send_and_receive(m, generate_identifier=not opts.get("typed", False),
                                           timeout=opts.get("timeout", 100))

    def value(self, r):
        return tag_of(r.uniqueIdentifier)

    def encode(self, m):
        msg = self.pb.ProtocolMessage()
        msg.type = self.types[m.get("type", 0)]
        msg.uniqueIdentifier = "T%d" % m["tag"]
        if m.get("for") is not None:
            ident = self.wire.get(m["for"], "")
            if ident:
                msg.identifier = ident
        elif m.get("ident") is not None:
            msg.identifier = "UNKNOWN-%d" % m["ident"]
        return self.frame(msg)

    def feed(self, data):
        self.conn.data_received(data)


# ----------------------------------------------------------------------------- Companion
def comp_x(m, wire):
    """the "_x" a Companion frame carries: the transaction id of request m["for"] (it is the answer), of
    request m["xfor"] (the device's own counter merely COINCIDES with it - events and requests from the device
    carry an _x too), a literal m["xid"], or none"""
    for k in ("for", "xfor"):
        if m.get(k) is not None:
            v = wire.get(m[k], wire.get(str(m[k])))
            return v
    if m.get("efor") is not None:
        # the id that the fire-and-forget event m["efor"] of the client carried (the device answers events it
        # does not handle with a Response frame, "No request handler")
        return wire.get("e%d" % m["efor"])
    return m.get("xid")


class CompanionEnv(Env):
    name = "companion"

    async def setup(self):
        from pyatv.protocols.companion.connection import CompanionConnection, FrameType
        from pyatv.protocols.companion.protocol import CompanionProtocol
        from pyatv.support import opack

        env = self
        self.opack = opack
        self.FrameType = FrameType

        def on_write(data):
            body, _ = opack.unpack(data[4:])
            if env.cur is not None:
                env.wire[env.cur] = body.get("_x")
                env.cur = None

        class Service:
            credentials = None

        self.conn = CompanionConnection(asyncio.get_event_loop(), "10.0.0.2", 2222)
        self.conn.connection_made(FakeTransport(on_write, env))
        # the transaction counter starts at a random value; ["xid0", k] in the script makes that value k
        import pyatv.protocols.companion.protocol as cp
        start = [op[1] for op in self.script if op[0] == "xid0"]
        real_randint = cp.randint
        if start:
            cp.randint = lambda a, b: start[0]
        try:
            self.proto = CompanionProtocol(self.conn, None, Service())
        finally:
            cp.randint = real_randint

        class L:
            def event_received(self, event_name, data):
                env.log.append(("listen", "l", 0, data.get("tag") if isinstance(data, dict) else None))

        self.listener = L()
        self.proto.listener = self.listener

    def call(self, w, opts):
        if "auth" in opts:
            return self.proto.exchange_auth(self.FrameType(opts["auth"]), {"_pd": b"x"},
                                            timeout=opts.get("timeout", 100))
        if not hasattr(self, "datas"):
            self.datas = {}
        src = self.datas.get(opts.get("reuse"))
        if src is not None and opts.get("copy"):
            data = dict(src)                   # a payload copied from an earlier one (carries its "_x")
        elif src is not None:
            data = src                         # the caller passes the very same dict again
        else:
            data = {"_i": "cmd", "_t": 2, "_c": {}}
        self.datas[w] = data
        return self.proto.exchange_opack(self.FrameType.E_OPACK, data, timeout=opts.get("timeout", 100))

    def value(self, r):
        return r.get("tag")

    def send(self, e, opts):
        """fire-and-forget: an event sent with send_opack (no answer is awaited)"""
        data = {"_i": "evt%d" % e, "_t": 1, "_c": {}}
        if opts.get("with_x"):
            data["_x"] = 7          # the caller supplies the id itself: none is allocated
        self.cur = "e%d" % e
        self.fault = opts.get("fault")
        try:
            self.proto.send_opack(self.FrameType.E_OPACK, data)
        except SendFault:
            pass
        self.cur = None
        self.fault = None

    def encode(self, m):
        kind = m["kind"]
        ft = m.get("ft", 8)
        if kind == "notdict":
            body = [1, 2]
        else:
            body = {"tag": m["tag"]}
            x = comp_x(m, self.wire)
            if x is not None:
                body["_x"] = x
            if kind == "resp":
                body["_t"] = 3
            elif kind == "event":
                body["_t"] = 1
                body["_i"] = "evt"
                if not m.get("no_c"):
                    body["_c"] = {"tag": m["tag"]}
            elif kind == "other":
                if m.get("t") is not None:
                    body["_t"] = m["t"]
            elif kind == "auth":
                pass
            if m.get("em"):
                body["_em"] = "E-T%d" % m["tag"]
        data = self.opack.pack(body)
        return bytes([ft]) + len(data).to_bytes(3, "big") + data

    def feed(self, data):
        self.conn.data_received(data)


# ----------------------------------------------------------------------------- HTTP / RTSP
class HttpEnv(Env):
    name = "http"

    async def setup(self):
        from pyatv.support.http import HttpConnection

        env = self

        def on_write(data):
            m = re.search(rb"\r\nCSeq: (\d+)\r\n", data)
            if env.cur is not None:
                env.wire[env.cur] = int(m.group(1)) if m else None
                env.cur = None

        def processor(data):
            if env.fault == "processor":
                env.fault = None
                raise SendFault("verif: send processor failed")
            return data

        self.conn = HttpConnection(send_processor=processor)
        self.conn.connection_made(FakeTransport(on_write, env))

    def call(self, w, opts):
        return self.conn.send_and_receive("GET", "/r%d" % w, headers=self.headers_for(w, opts),
                                          allow_error=opts.get("allow", False), timeout=opts.get("timeout", 100))

    def headers_for(self, w, opts):
        """the headers dict of the request; "reuse": j = the caller passes the dict object of request j again"""
        if not hasattr(self, "hdrs"):
            self.hdrs = {}
        src = self.hdrs.get(opts.get("reuse"))
        if src is not None and opts.get("copy"):
            h = dict(src)
        elif src is not None:
            h = src
        else:
            h = {"X-Verif": "r%d" % w}
        self.hdrs[w] = h
        return h

    def value(self, r):
        cseq = r.headers.get("CSeq")
        return [int(cseq) if cseq is not None else None, r.code, tag_of(r.body if isinstance(r.body, str) else "")]

    def cseq_for(self, m):
        return None

    def encode(self, m):
        proto = "RTSP/1.0" if self.name == "rtsp" else "HTTP/1.1"
        body = "T%d" % m["tag"]
        head = "%s %d T%d\r\n" % (proto, m.get("code", 200), m["tag"])
        c = self.cseq_for(m)
        if c is not None:
            head += "CSeq: %d\r\n" % c
        head += "Content-Length: %d\r\n\r\n" % len(body)
        return (head + body).encode()

    def feed(self, data):
        self.conn.data_received(data)


class RtspEnv(HttpEnv):
    name = "rtsp"

    async def setup(self):
        from pyatv.support.rtsp import RtspSession

        await super().setup()
        env = self
        self.session = RtspSession(self.conn)
        real = self.conn.send_and_receive

        async def traced(*a, **kw):
            # runs inside the task of the request; marks the end of the HTTP-level phase
            me = env.by_task.get(asyncio.current_task())
            r = await real(*a, **kw)
            env.log.append(("http_ret", me))
            return r

        self.by_task = {}
        self.conn.send_and_receive = traced

    async def waiter(self, w, opts):
        self.by_task[asyncio.current_task()] = w
        await super().waiter(w, opts)

    def call(self, w, opts):
        return self.session.exchange("OPTIONS", headers=self.headers_for(w, opts),
                                     allow_error=opts.get("allow", False))

    def cseq_for(self, m):
        if m.get("for") is not None:
            return self.wire.get(m["for"])
        return m.get("cseq")


ENVS = {"mrp": MrpEnv, "companion": CompanionEnv, "http": HttpEnv, "rtsp": RtspEnv}


# ----------------------------------------------------------------------------- driver
async def drive_multi(transport, scripts, order):
    """Run scripts[k] on its own, independent protocol/connection objects (all alive in this process and on
    this loop at the same time); order = the sequence of object numbers whose next operation is performed.
    Every object has its own log; an operation performed on another object shows up as an "idle" marker
    (or as "timeout" when virtual time may pass), so that anything an object does while ANOTHER object is
    being talked to is visible as such."""
    envs = []
    for sc in scripts:
        env = ENVS[transport]()
        env.script = sc
        await env.setup()
        del env.log[:]
        envs.append(env)
    loop = asyncio.get_event_loop()
    stuck = False

    def pending(k=None):
        return [t for j, e in enumerate(envs) if k is None or j == k for t in e.tasks.values() if not t.done()]

    async def fire():
        """advance virtual time to the next timer; False when there is none"""
        if next_deadline(loop) is None:
            return False
        await asyncio.wait(pending(), return_when=asyncio.FIRST_COMPLETED)
        await settle()
        return True

    ops = [[list(o) for o in sc if o[0] not in ("listeners", "xid0")] for sc in scripts]
    pos = [0] * len(scripts)
    order = list(order)
    seq = [0]
    draining = False

    def mark(k, op):
        for j, e in enumerate(envs):
            if j == k:
                e.log.append(("op", seq[0], op))
            else:
                e.log.append(("op", seq[0], ["timeout"] if op[0] in ("timeout", "race") else ["idle"]))
        seq[0] += 1

    while True:
        while order and pos[order[0]] >= len(ops[order[0]]):
            order.pop(0)
        if order:
            k = order.pop(0)
            op = ops[k][pos[k]]
            pos[k] += 1
        elif any(pos[j] < len(ops[j]) for j in range(len(ops))):
            k = min(j for j in range(len(ops)) if pos[j] < len(ops[j]))
            op = ops[k][pos[k]]
            pos[k] += 1
        elif pending():
            k, op, draining = 0, ["timeout"], True
        else:
            break
        # a little virtual time passes between operations, so that deadlines are distinct; a timer that
        # happens to fire meanwhile is an (unscripted) timeout operation of its own
        n0 = [len(e.log) for e in envs]
        await asyncio.sleep(0.001)
        await settle()
        if any(len(e.log) > n for e, n in zip(envs, n0)):
            for e, n in zip(envs, n0):
                e.log.insert(n, ("op", seq[0], ["timeout"]))
            seq[0] += 1
        env = envs[k]
        kind = op[0]
        if kind == "timeout" and not (pending() if draining else pending(k)):
            continue
        mark(k, op)
        if kind == "req":
            w = op[1]
            env.tasks[w] = asyncio.ensure_future(env.waiter(w, op[2] if len(op) > 2 else {}))
            await settle()
        elif kind == "msg":
            env.feed(b"".join(env.encode(m) for m in op[1]))
            await settle()
        elif kind == "cancel":
            t = env.tasks.get(op[1])
            if t is not None and not t.done():
                t.cancel()
            await settle()
        elif kind == "send":
            env.send(op[1], op[2] if len(op) > 2 else {})
            await settle()
        elif kind == "timeout":
            # time passes until a request of THIS object ends (timers of other objects may fire on the way)
            n_before = len(pending() if draining else pending(k))
            while True:
                if not await fire():
                    stuck = True
                    break
                if len(pending() if draining else pending(k)) < n_before:
                    break
            if stuck:
                break
        elif kind == "race":
            d = next_deadline(loop)
            if d is not None and pending():
                data = env.encode(op[1])
                loop.call_at(d - 4e-10, env.feed, data)
                await fire()
            else:
                env.feed(env.encode(op[1]))
                await settle()
        else:
            raise ValueError(op)
    return [{"log": [list(x) for x in env.log], "wire": {str(k): v for k, v in env.wire.items()},
             "hung": sorted(w for w, t in env.tasks.items() if not t.done()), "stuck": stuck,
             "listeners": getattr(env, "listeners", None), "types": getattr(env, "types", None)}
            for env in envs]


async def drive(transport, script):
    return (await drive_multi(transport, [script], []))[0]


def run_multi(transport, scripts, order):
    return vloop.run(drive_multi, transport, scripts, order)


def retag(script, off):
    """the same script with every message tag shifted: the objects of a joint run use disjoint tags, so a
    message of one object that turns up at another one is recognised"""
    def fix(m):
        m = dict(m)
        m["tag"] += off
        return m
    out = []
    for op in script:
        if op[0] == "msg":
            out.append(["msg", [fix(m) for m in op[1]]])
        elif op[0] == "race":
            out.append(["race", fix(op[1])])
        else:
            out.append(json.loads(json.dumps(op)))
    return out


def merge_order(kind, scripts, rng=None):
    n = [len([o for o in sc if o[0] not in ("listeners", "xid0")]) for sc in scripts]
    if kind == "seq":                      # object 0 completely, then object 1, ...
        return [k for k in range(len(n)) for _ in range(n[k])]
    if kind == "rr":                       # strictly alternating
        return [k for i in range(max(n)) for k in range(len(n)) if i < n[k]]
    order = [k for k in range(len(n)) for _ in range(n[k])]
    rng.shuffle(order)
    return order


def run_script(transport, script):
    return vloop.run(drive, transport, script)


# ----------------------------------------------------------------------------- analysis of one run
class Case:
    """Script + observed log, digested for the oracle and for the model comparison."""

    def __init__(self, transport, script, obs):
        self.t = transport
        self.script = script
        self.obs = obs
        self.req_at = {}
        self.req_opts = {}
        self.done_at = {}
        self.outcome = {}       # w -> ("ret", value) | ("exc", name, text)
        self.how = {}           # w -> "wake" | "timeout" | "cancel"
        self.msgs = []          # dicts: at, tag, m
        self.listens = []       # (who, type, tag)
        self.events = []        # model-level events in order: ("req", w) ("msg", m) ("wake", w) ("timeout", w) ("cancel", w)
        self.completion_order = []
        cur = None
        log = obs["log"]
        self.settle_points = []   # lengths of the event list at which the loop had settled
        for j, e in enumerate(log):
            if e[0] == "op":
                self.settle_points.append(len(self.events))
                cur = e[2]
                at = e[1]
                if cur[0] == "req":
                    self.req_at[cur[1]] = at
                    self.req_opts[cur[1]] = cur[2] if len(cur) > 2 else {}
                    self.events.append(("req", cur[1]))
                elif cur[0] == "msg":
                    for m in cur[1]:
                        self.msgs.append({"at": at, "tag": m["tag"], "m": m})
                        self.events.append(("msg", m))
                elif cur[0] == "race":
                    self.msgs.append({"at": at, "tag": cur[1]["tag"], "m": cur[1], "race": True})
                    self.events.append(("msg", cur[1]))
                elif cur[0] == "cancel":
                    self.events.append(("cancel", cur[1]))
                elif cur[0] == "send" and not (cur[2] if len(cur) > 2 else {}).get("with_x"):
                    self.events.append(("send", cur[1]))
                self.cur_at = at
            elif e[0] == "listen":
                self.listens.append((e[1], e[2], e[3]))
            elif e[0] == "http_ret":
                self.events.append(("wake", e[1]))
            elif e[0] in ("ret", "exc"):
                w = e[1]
                self.done_at[w] = self.cur_at
                self.outcome[w] = tuple(e[0:1] + e[2:4])
                self.completion_order.append(w)
                merged = j > 0 and log[j - 1][0] == "http_ret" and log[j - 1][1] == w
                if e[0] == "exc" and e[2] == "SendFault":
                    self.how[w] = "sendfault"          # the request was never sent
                    for k in range(len(self.events) - 1, -1, -1):
                        if self.events[k] == ("req", w):
                            self.events[k] = ("reqfail", w)
                            break
                elif (e[0] == "exc" and e[2] == "CancelledError") or \
                        (cur[0] == "cancel" and cur[1] == w and e[0] == "exc" and e[4] == "CancelledError"):
                    self.how[w] = "cancel"     # (a KeyError raised while handling the cancellation included)
                elif cur[0] == "timeout" or (cur[0] == "race" and e[0] == "exc" and "TimeoutError" in (e[2], e[4])):
                    self.how[w] = "timeout"
                    self.events.append(("timeout", w))
                else:
                    self.how[w] = "wake"
                    if not merged:
                        self.events.append(("wake", w))

    # -- which request does the device message answer (None: nobody), judged from the script
    def key_of_req(self, w):
        """explicit (identifier-less) key under which request w waits, or None"""
        o = self.req_opts[w]
        if self.t == "mrp" and o.get("typed"):
            return ("t", o.get("type", 0))
        if self.t == "companion" and "auth" in o:
            return ("a", {3: 4, 5: 6}.get(o["auth"], o["auth"]))
        return None

    def key_of_msg(self, m):
        if self.t == "mrp" and m.get("for") is None and m.get("ident") is None:
            return ("t", m.get("type", 0))
        if self.t == "companion" and m.get("kind") == "auth":
            return ("a", m.get("ft"))
        return None

    def answers(self, me):
        m = me["m"]
        if m.get("for") is not None:
            return m["for"]
        if self.t == "companion" and m.get("kind") == "resp" and m.get("xid") is not None \
                and m.get("ft", 8) in (7, 8, 9):
            # a Response that literally carries the transaction id of an OPACK request is its answer
            for w in self.req_at:
                if "auth" not in self.req_opts[w] and self.obs["wire"].get(str(w)) == m["xid"]:
                    return w
            return None
        k = self.key_of_msg(m)
        if k is None:
            return None
        # identifier-less: the request waiting under that key when the message arrives
        cands = [w for w in self.req_at if self.key_of_req(w) == k and self.req_at[w] < me["at"]
                 and self.done_at.get(w, 10 ** 9) >= me["at"]]
        return max(cands, key=lambda w: self.req_at[w]) if cands else None

    def delivered_tag(self, w):
        """tag of the device message that request w was handed (as value or as error), or None"""
        o = self.outcome.get(w)
        if o is None:
            return None
        if o[0] == "ret":
            v = o[1]
            return v[2] if isinstance(v, list) else v
        if o[1] in ("HttpError", "ProtocolError"):
            return tag_of(o[2])
        return None


def dup_keys(case):
    """script contains two requests waiting under the same explicit key at the same time (MRP typed /
    Companion auth) - outside the protocol's contract, the oracle does not judge those runs"""
    live = {}
    for ev in case.script:
        if ev[0] == "req":
            o = ev[2] if len(ev) > 2 else {}
            k = None
            if case.t == "mrp" and o.get("typed"):
                k = ("t", o.get("type", 0))
            if case.t == "companion" and "auth" in o:
                k = ("a", {3: 4, 5: 6}.get(o["auth"], o["auth"]))
            if k is not None:
                if k in live:
                    return True
                live[k] = ev[1]
    # a key is considered busy for the whole script once used (conservative)
    return False


def oracle(case):
    """Judge the property text on the observed behaviour.  Returns list of (key, what)."""
    t = case.t
    errs = []
    if case.obs["stuck"] or case.obs["hung"]:
        errs.append(("C03:%s:request-never-finishes" % t,
                     "requests %s neither returned nor raised although nothing can arrive any more" % case.obs["hung"]))
    if dup_keys(case):
        return errs
    bytag = {}
    for m in case.msgs:
        bytag[m["tag"]] = m
    got = {}
    for w in sorted(case.outcome):
        tag = case.delivered_tag(w)
        o = case.outcome[w]
        if o[0] == "ret" and tag is None:
            errs.append(("C03:%s:empty-response" % t, "request %d returned a value that is not a device message" % w))
            continue
        if tag is None:
            continue
        got.setdefault(tag, []).append(w)
        m = bytag.get(tag)
        if m is None:
            errs.append(("C03:%s:wrong-response" % t, "request %d got unknown message %r" % (w, tag)))
            continue
        a = case.answers(m)
        if a != w or m["at"] <= case.req_at[w]:
            # classify the two recorded defects
            key = "C03:%s:wrong-response" % t
            if t == "http" and a is not None and a in case.done_at and case.done_at[a] < m["at"] \
                    and case.how.get(a) in ("timeout", "cancel"):
                key = "C03:http:late-response-to-next-request"
            elif t == "http" and a is not None and _shifted_by_late(case, a):
                key = "C03:http:late-response-to-next-request"
            elif t == "rtsp" and o[0] == "exc" and o[1] == "HttpError":
                key = "C03:rtsp:error-status-before-cseq-match"
            errs.append((key, "request %d was handed message T%d which answers %s" % (
                w, tag, "request %d" % a if a is not None else "no request")))
    for tag, ws in got.items():
        if len(ws) > 1:
            errs.append(("C03:%s:response-delivered-twice" % t, "message T%d handed to requests %s" % (tag, ws)))
    # unsolicited messages reach every subscribed listener exactly once
    if t in ("mrp", "companion"):
        for m in case.msgs:
            if not unsolicited(case, m):
                continue
            if t == "mrp":
                errs += judge_dispatch(case, m, "C03:mrp:unsolicited-not-once", "unsolicited")
            else:
                n = sum(1 for (x, y, g) in case.listens if g == m["tag"])
                if n != 1:
                    errs.append(("C03:companion:unsolicited-not-once",
                                 "event T%d reached the listener %d times" % (m["tag"], n)))
    # MRP: a message under a key whose requests have all ENDED (timed out, returned or were cancelled strictly
    # before it arrived) answers no outstanding request any more: it must reach the subscribed listeners
    # exactly once.  Swallowed after a cancellation = regression of pyatv fix 581a057 (own key).
    if t == "mrp":
        for m in case.msgs:
            mm = m["m"]
            if mm.get("for") is not None:
                key = case.key_of_req(mm["for"]) or ("w", mm["for"])
            else:
                key = case.key_of_msg(mm)
            if key is None:
                continue
            group = [w for w in case.req_at if case.req_at[w] < m["at"]
                     and (case.key_of_req(w) or ("w", w)) == key]
            if not group:
                continue
            if any(case.done_at.get(w, 10 ** 9) >= m["at"] for w in group):
                continue            # somebody is (or may just have been) waiting under that key
            if any(not (case.outcome[w][0] == "ret" or case.outcome[w][1] in ("TimeoutError", "CancelledError"))
                   for w in group):
                continue
            cancelled = any(case.how.get(w) == "cancel" for w in group)
            ended = sorted((w, case.how.get(w)) for w in group)
            errs += judge_dispatch(case, m, "C03:mrp:cancelled-request-entry-leaks" if cancelled
                                   else "C03:mrp:late-answer-not-dispatched",
                                   "arrived after the request(s) under its identifier had ended %s:" % ended)
    # a request whose answer never arrived before its timer fired gets a timeout error
    for w in case.req_at:
        if case.how.get(w) == "timeout":
            arrived = [m for m in case.msgs if case.answers(m) == w
                       and case.req_at[w] < m["at"] <= case.done_at[w]]
            if t == "http":
                arrived = [m for m in arrived if not _http_consumed_elsewhere(case, m)]
            o = case.outcome[w]
            if not arrived and not (o[0] == "exc" and o[1] == "TimeoutError"):
                errs.append(("C03:%s:no-timeout-error" % t,
                             "request %d: nothing arrived in time but it ended with %r" % (w, o)))
    return errs


def unsolicited(case, me):
    """the message answers no request made so far: it must reach the listeners exactly once"""
    m = me["m"]
    if m.get("for") is not None:
        return False
    k = case.key_of_msg(m)
    if k is not None and any(case.key_of_req(w) == k and case.req_at[w] < me["at"] for w in case.req_at):
        return False
    if case.t == "mrp":
        return True
    if case.t == "companion":
        return m["kind"] == "event" and not m.get("no_c") and m.get("ft", 8) in (7, 8, 9)
    return False


def _shifted_by_late(case, a):
    """plain HTTP: some request before the misdelivery was abandoned and its answer arrived afterwards"""
    for w, how in case.how.items():
        if how in ("timeout", "cancel"):
            for m in case.msgs:
                if case.answers(m) == w and m["at"] > case.done_at[w]:
                    return True
    return False


def _http_consumed_elsewhere(case, m):
    return False


# ----------------------------------------------------------------------------- Coq terms
def cw(w):
    return common.cnat(w)


def c_hresp(cseq, code, tag):
    return "(MkResp %s %s %s)" % (common.copt(cseq, common.cnat), common.cN(code), common.cN(tag))


def mrp_key(case, w):
    o = case.req_opts[w]
    if o.get("typed"):
        return "(KType %s)" % common.cN(case.obs["types"][o.get("type", 0)])
    return "(KId %s)" % common.cN(w)


def model_events(case):
    t = case.t
    out = []
    for ev in case.events:
        k = ev[0]
        if k == "send":
            out.append("CSend")
        elif k == "reqfail":
            out.append("%sReqFail %s" % ({"mrp": "M", "companion": "C", "http": "H", "rtsp": "R"}[t], cw(ev[1])))
        elif k == "req":
            w = ev[1]
            o = case.req_opts[w]
            if t == "mrp":
                out.append("MReq %s %s" % (cw(w), mrp_key(case, w)))
            elif t == "companion":
                out.append("CReqAuth %s %s" % (cw(w), common.cN(o["auth"])) if "auth" in o else "CReq %s" % cw(w))
            elif t == "http":
                out.append("HReq %s %s" % (cw(w), common.cbool(o.get("allow", False))))
            else:
                out.append("RReq %s %s" % (cw(w), common.cbool(o.get("allow", False))))
        elif k == "msg":
            m = ev[1]
            if t == "mrp":
                ty = case.obs["types"][m.get("type", 0)]
                if m.get("for") is not None:
                    ident = None if case.req_opts[m["for"]].get("typed") else m["for"]
                    if m["for"] not in case.req_at or str(m["for"]) not in case.obs["wire"]:
                        ident = None
                elif m.get("ident") is not None:
                    ident = 1000 + m["ident"]
                else:
                    ident = None
                out.append("MMsg (MkMsg %s %s %s)" % (common.copt(ident, common.cN), common.cN(ty), common.cN(m["tag"])))
            elif t == "companion":
                ft = m.get("ft", 8)
                kind = m["kind"]
                if kind == "notdict":
                    body = "BNotDict"
                else:
                    tt = {"resp": 3, "event": 1}.get(kind, m.get("t") if kind == "other" else None)
                    x = comp_x(m, case.obs["wire"])
                    has_ic = kind == "event" and not m.get("no_c")
                    body = "(BDict %s %s %s %s %s)" % (common.copt(tt, common.cN), common.copt(x, common.cN),
                                                       common.cbool(has_ic), common.cN(m["tag"]),
                                                       common.cbool(bool(m.get("em"))))
                out.append("CFrame (MkFrame %s %s)" % (common.cN(ft), body))
            else:
                if t == "rtsp":
                    cseq = case.obs["wire"].get(str(m["for"])) if m.get("for") is not None else m.get("cseq")
                else:
                    cseq = None
                out.append("%sResp %s" % ("H" if t == "http" else "R", c_hresp(cseq, m.get("code", 200), m["tag"])))
        else:
            pre = {"mrp": "M", "companion": "C", "http": "H", "rtsp": "R"}[t]
            out.append("%s%s %s" % (pre, {"wake": "Wake", "timeout": "Timeout", "cancel": "Cancel"}[k], cw(ev[1])))
    return out


def model_outcomes(case):
    """observed outcomes in completion order, as model outputs; None if an outcome has no model counterpart"""
    t = case.t
    res = []
    for w in case.completion_order:
        o = case.outcome[w]
        if o[0] == "ret":
            v = o[1]
            if t == "mrp":
                res.append("MDeliver %s %s" % (cw(w), common.copt(v, common.cN)))
            elif t == "companion":
                if v is None:
                    return None
                res.append("CDeliver %s %s" % (cw(w), common.cN(v)))
            else:
                if v[2] is None:
                    return None
                res.append("HDeliver %s %s" % (cw(w), c_hresp(v[0], v[1], v[2])))
        else:
            name, text = o[1], o[2]
            pre = {"mrp": "M", "companion": "C", "http": "H", "rtsp": "H"}[t]
            if name == "SendFault":
                res.append("%sSendErr %s" % (pre, cw(w)))
            elif name == "TimeoutError":
                res.append("%sTimeoutErr %s" % (pre, cw(w)))
            elif name == "CancelledError":
                res.append("%sCancelled %s" % (pre, cw(w)))
            elif name == "KeyError" and t == "mrp":
                res.append("MKeyErr %s" % cw(w))
            elif name == "ProtocolError" and t == "companion" and tag_of(text) is not None:
                res.append("CProtoErr %s %s" % (cw(w), common.cN(tag_of(text))))
            elif name == "HttpError" and t in ("http", "rtsp") and tag_of(text) is not None:
                code = int(re.search(r"failed with code (\d+)", text).group(1))
                res.append("HHttpErr %s %s" % (cw(w), c_hresp(_cseq_of_tag(case, tag_of(text)), code, tag_of(text))))
            elif name == "AuthenticationError" and t in ("http", "rtsp"):
                res.append("HAuthErr %s %s" % (cw(w), c_hresp(None, 0, 0)))
            else:
                return None
    return res


def _cseq_of_tag(case, tag):
    if case.t != "rtsp":
        return None
    for m in case.msgs:
        if m["tag"] == tag:
            mm = m["m"]
            return case.obs["wire"].get(str(mm["for"])) if mm.get("for") is not None else mm.get("cseq")
    return None


def mrp_reference_listeners(case):
    prim = {}
    for l in case.obs["listeners"] or []:
        if l["filt"] in (None, "all") and l["type"] not in prim:
            prim[l["type"]] = l["who"]
    return prim


def dispatch_cases(case):
    """for every message that reached some listener: (listeners of its type with the verdict of their filter,
    listeners called, in call order) - compared with dispatch_calls in Coq"""
    out = []
    if case.t != "mrp":
        return out
    for m in case.msgs:
        ty = case.obs["types"][m["m"].get("type", 0)]
        called = [x for (x, y, g) in case.listens if g == m["tag"] and y == ty]
        if not called:
            continue
        ls = ["(%s, %s)" % (common.cbool(accepts(l["filt"], m["tag"])), cw(l["who"])) for l in listeners_of(case, ty)]
        out.append("([%s], [%s])" % ("; ".join(ls), "; ".join(cw(x) for x in called)))
    return out


def model_heard(case):
    if case.t == "mrp":
        # per type the first listener without a rejecting filter is the reference for "dispatch was called";
        # what every single listener saw is judged by the oracle and by disp_check
        prim = mrp_reference_listeners(case)
        return ["MListen %s %s" % (common.cN(y), common.cN(g)) for (x, y, g) in case.listens
                if prim.get(y) == x and g is not None]
    if case.t == "companion":
        return ["CListen %s" % common.cN(g) for (x, y, g) in case.listens if g is not None]
    return []


def coq_case(case):
    ev = "[" + "; ".join(model_events(case)) + "]"
    pts = common.clist(sorted(set(case.settle_points + [len(case.events)])), common.cnat)
    oc = model_outcomes(case)
    if oc is None:
        return None
    ocs = "[" + "; ".join(oc) + "]"
    hs = "[" + "; ".join(model_heard(case)) + "]"
    if case.t == "mrp":
        types = sorted(mrp_reference_listeners(case))
        return "(%s, %s, %s, %s, %s)" % (ev, common.clist(types, common.cN), ocs, hs, pts)
    if case.t == "companion":
        first = None          # the value of the transaction counter before the first operation that uses one
        for e in case.events:
            if e[0] in ("req", "reqfail"):
                first = case.obs["wire"].get(str(e[1]))
                break
            if e[0] == "send":
                first = case.obs["wire"].get("e%d" % e[1])
                break
        return "(%s, %s, %s, %s, %s)" % (common.cN(first or 0), ev, ocs, hs, pts)
    return "(%s, %s, %s)" % (ev, ocs, pts)


COQ_TYPES = {
    "mrp": ("list mev * list N * list mout * list mout * list nat", "mrp_check"),
    "companion": ("N * list cev * list cout * list cout * list nat", "comp_check"),
    "http": ("list hev * list hout * list nat", "http_check"),
    "rtsp": ("list rtev * list hout * list nat", "rtsp_check"),
}


# ----------------------------------------------------------------------------- script generation
def interleavings(n, fifo=False):
    """all orders of Req_0..Req_{n-1} (in that order) and Resp_0..Resp_{n-1} with Resp_i after Req_i;
    fifo: responses in request order as well"""
    res = []

    def go(seq, nreq, answered):
        if nreq == n and len(answered) == n:
            res.append(list(seq))
            return
        if nreq < n:
            go(seq + [("q", nreq)], nreq + 1, answered)
        for i in range(nreq):
            if i not in answered:
                if fifo and any(j not in answered for j in range(i)):
                    continue
                go(seq + [("a", i)], nreq, answered | {i})

    go([], 0, frozenset())
    return res


def unsol_msg(t, rng, tag, variant=0, xfor=None, ukind=None):
    if t == "mrp":
        v = variant % 3
        if v == 0:
            return {"tag": tag, "ident": tag % 7, "type": 0}
        if v == 1:
            return {"tag": tag, "type": 1}
        return {"tag": tag, "type": 2, "ident": 3}
    if t == "companion":
        m = {"tag": tag, "kind": "event", "ft": (7, 8, 9)[variant % 3]}
        if xfor is not None:
            m["xfor"] = xfor            # its "_x" equals the transaction id of request xfor
            if ukind == "other":
                m = {"tag": tag, "kind": "other", "ft": m["ft"], "t": 2, "xfor": xfor}   # a request from the device
        elif ukind == "xid":
            m["xid"] = 5                # an "_x" that belongs to nobody
        return m
    if t == "rtsp":
        return {"tag": tag, "cseq": None if variant % 2 else 900 + tag, "code": 200}
    return {"tag": tag, "code": 200}


def build(t, base, timeout_w=None, timeout_pos=None, unsol_pos=None, variant=0, rng=None, xfor=None, ukind=None,
          reuse=None, fault=None, send_pos=None, eresp_pos=None, eresp_em=True, umsg=None, auth=None, xid0=None):
    """base: list of ("q", i) / ("a", i).  Returns a script."""
    script = []
    if xid0 is not None:
        script.append(["xid0", xid0])
    auth = auth or {}
    tag = 1
    k = 0
    for pos, (kind, i) in enumerate(base + [("end", 0)]):
        if unsol_pos == pos and umsg is not None:
            script.append(["msg", [dict(umsg)]])
        elif unsol_pos == pos:
            if not (t == "http" and _http_busy(script)):
                script.append(["msg", [unsol_msg(t, rng, 90, variant, xfor, ukind)]])
        if timeout_pos == pos:
            script.append(["timeout"])
        if send_pos == pos:
            script.append(["send", 0, {}])            # the client pushes an event, no answer awaited
        if eresp_pos == pos:
            m = {"tag": 95, "kind": "resp", "ft": 8, "efor": 0}     # ... the device answers it all the same
            if eresp_em:
                m["em"] = True
            script.append(["msg", [m]])
        if kind == "a" and fault is not None and fault[0] == i:
            continue                  # a request that was never sent is never answered
        if kind == "q":
            opts = {}
            if fault is not None and fault[0] == i:
                opts["fault"] = fault[1]
            if i in auth:
                opts["auth"] = auth[i]
            if t != "rtsp":
                opts["timeout"] = 3 if i == timeout_w else 50 + i
            if t == "mrp" and variant % 4 == 3 and i == 0:
                opts["typed"] = True
                opts["type"] = 1 if variant % 8 == 7 else 2
            if reuse is not None and i > 0 and not opts.get("typed") and not (variant % 4 == 3) \
                    and not opts.get("fault"):
                opts["reuse"] = 0 if reuse == "first" else i - 1      # the caller sends the same message again
                if reuse == "copy":
                    opts["copy"] = True
            script.append(["req", i, opts])
        elif kind == "a":
            m = {"tag": 10 + i, "for": i}
            if t == "companion":
                m["kind"] = "resp"
                if i in auth:
                    m["kind"] = "auth"
                    m["ft"] = {3: 4, 5: 6}.get(auth[i], auth[i])
            if t == "mrp":
                m["type"] = (1 if variant % 8 == 7 else 2) if (variant % 4 == 3 and i == 0) else (i % 2)
            script.append(["msg", [m]])
    return script


def _http_busy(script):
    """plain HTTP has no identifiers: a spurious response is only distinguishable when no request is pending"""
    pend = 0
    for op in script:
        if op[0] == "req" and (op[2] if len(op) > 2 else {}).get("fault"):
            continue
        if op[0] == "req":
            pend += 1
        elif op[0] == "msg":
            pend = max(0, pend - len(op[1]))
        elif op[0] == "timeout":
            pend = max(0, pend - 1)
    return pend > 0


def exhaustive_scripts(t, nmax):
    """<= nmax concurrent requests x response orders x one unsolicited message at every position
    x one timeout at every position after the request it hits (its answer then arrives late)"""
    out = []
    for n in range(1, nmax + 1):
        for base in interleavings(n, fifo=(t == "http")):
            L = len(base)
            out.append(build(t, base))
            for up in range(L + 1):
                out.append(build(t, base, unsol_pos=up, variant=up))
            for w in range(n):
                qpos = base.index(("q", w))
                apos = base.index(("a", w))
                for tp in range(qpos + 1, apos + 1):
                    if t == "rtsp":
                        # the earliest deadline fires, whichever request that is
                        out.append(build(t, base, timeout_w=None, timeout_pos=tp))
                        break
                    out.append(build(t, base, timeout_w=w, timeout_pos=tp))
                    for up in (tp, apos + 1):
                        out.append(build(t, base, timeout_w=w, timeout_pos=tp, unsol_pos=up, variant=w + up))
            if t == "rtsp":
                for tp in range(1, L + 1):
                    out.append(build(t, base, timeout_pos=tp))
            # the send side fails for request w (transport.write raises; for HTTP/RTSP also the send processor):
            # the other requests of every interleaving still get exactly their own answers
            for w in range(n):
                for kind in (("write", "processor") if t in ("http", "rtsp") else ("write",)):
                    out.append(build(t, base, fault=(w, kind)))
                    for w2 in range(n):
                        if w2 != w:
                            qpos, apos = base.index(("q", w2)), base.index(("a", w2))
                            if t == "rtsp":
                                continue
                            out.append(build(t, base, fault=(w, kind), timeout_w=w2, timeout_pos=apos))
            if t == "companion":
                # fire-and-forget send_opack of an event at every position, the device answering that event with
                # a Response frame (error "No request handler", or a plain one) at every later position
                for sp in range(L + 1):
                    out.append(build(t, base, send_pos=sp))
                    for ep in range(sp, L + 1):
                        out.append(build(t, base, send_pos=sp, eresp_pos=ep, eresp_em=bool((sp + ep) % 2)))
                # an event / a request from the device / an event with a foreign id, whose "_x" equals the
                # transaction id of request x (or of nobody), at every position
                for up in range(L + 1):
                    for x in range(n):
                        out.append(build(t, base, unsol_pos=up, variant=up, xfor=x))
                        out.append(build(t, base, unsol_pos=up, variant=up, xfor=x, ukind="other"))
                    out.append(build(t, base, unsol_pos=up, variant=up, ukind="xid"))
                for w in range(n):
                    qpos, apos = base.index(("q", w)), base.index(("a", w))
                    for tp in range(qpos + 1, apos + 1):
                        for up in (tp, apos + 1):
                            out.append(build(t, base, timeout_w=w, timeout_pos=tp, unsol_pos=up, variant=up, xfor=w))
            if n > 1 and t != "rtsp":
                # the caller re-sends the same message object / passes the same payload or headers dict again (or
                # a copy of the earlier one): while the earlier request is still outstanding, after it was
                # answered, after it timed out
                for reuse in ("first", "prev", "copy"):
                    out.append(build(t, base, reuse=reuse))
                    for w in range(n):
                        qpos, apos = base.index(("q", w)), base.index(("a", w))
                        for tp in range(qpos + 1, apos + 1):
                            out.append(build(t, base, timeout_w=w, timeout_pos=tp, reuse=reuse))
            if n > 1 and t == "rtsp":
                for reuse in ("first", "prev", "copy"):
                    out.append(build(t, base, reuse=reuse))
                    for tp in range(1, L + 1):
                        out.append(build(t, base, timeout_pos=tp, reuse=reuse))
    # de-duplicate
    seen = set()
    res = []
    for s in out:
        k = json.dumps(s, sort_keys=True)
        if k not in seen:
            seen.add(k)
            res.append(s)
    return res


def companion_xid_family():
    """the single map of CompanionProtocol holds transaction ids AND auth frame types: the counter starts at
    0..8 (so the ids run through 4 = PS_Next and 6 = PV_Next), a pair-setup / pair-verify exchange is outstanding
    together with OPACK requests, and a Response carrying id 4 / 6 or an unsolicited PS_Next / PV_Next frame
    arrives at every position"""
    t = "companion"
    out = []
    stray = [{"tag": 96, "kind": "resp", "ft": 8, "xid": 4}, {"tag": 96, "kind": "resp", "ft": 8, "xid": 6},
             {"tag": 97, "kind": "auth", "ft": 4}, {"tag": 97, "kind": "auth", "ft": 6}]
    for n in (1, 2):
        for base in interleavings(n):
            L = len(base)
            for x0 in range(9):
                for au in ({}, {0: 3}, {n - 1: 5}):
                    out.append(build(t, base, auth=au, xid0=x0))
                    for um in stray:
                        for up in range(L + 1):
                            out.append(build(t, base, auth=au, xid0=x0, unsol_pos=up, umsg=um))
    seen = set()
    res = []
    for sc in out:
        k = json.dumps(sc, sort_keys=True)
        if k not in seen:
            seen.add(k)
            res.append(sc)
    return res


LISTENER_ALPHABET = [(k, f) for k in ("sync", "async") for f in (None, "all", "none", "odd")]


def listener_sets():
    """0..3 listeners on the first message type in every order over sync/async x no filter / accepting /
    rejecting / tag-dependent filter; the second type gets 0..2 of them"""
    out = []
    j = 0
    for n in range(0, 4):
        for combo in itertools.product(LISTENER_ALPHABET, repeat=n):
            spec = [[0, k, f] for (k, f) in combo]
            second = list(itertools.product(LISTENER_ALPHABET, repeat=j % 3))
            for (k, f) in (second[j % len(second)] if second else ()):
                spec.append([1, k, f])
            j += 1
            out.append(spec)
    return out


def dispatch_probe(spec):
    """unsolicited messages (odd and even tags, both listened types), the late answer of a timed-out request
    and of a cancelled one - under the given listener set"""
    return [["listeners", spec],
            ["msg", [{"tag": 90, "ident": 1, "type": 0}]],
            ["msg", [{"tag": 91, "type": 0}, {"tag": 92, "type": 1}]],
            ["req", 0, {"timeout": 3}], ["req", 1, {"timeout": 50}], ["req", 2, {"timeout": 51}],
            ["timeout"], ["cancel", 1],
            ["msg", [{"tag": 11, "for": 0, "type": 0}]], ["msg", [{"tag": 12, "for": 1, "type": 1}]],
            ["msg", [{"tag": 13, "for": 2, "type": 0}]], ["msg", [{"tag": 93, "ident": 2, "type": 1}]]]


def random_script(t, rng, nmax):
    """structured random history: up to nmax requests, answers in any order (FIFO for plain HTTP), batches,
    duplicates, late answers, error statuses, races, cancellations, junk"""
    n = rng.randint(1, nmax)
    script = []
    issued = []
    unanswered = []        # in request order
    tag = [100]
    tos = rng.sample(range(2, 2 + 2 * n), n)

    def newtag():
        tag[0] += 1
        return tag[0]

    def answer_for(w):
        m = {"tag": newtag(), "for": w}
        if t == "companion":
            m["kind"] = "resp"
            if rng.random() < 0.15:
                m["em"] = True
            m["ft"] = rng.choice((7, 8, 8, 9))
        if t == "mrp":
            m["type"] = rng.randint(0, 1)
        if t in ("http", "rtsp"):
            m["code"] = rng.choice((200, 200, 200, 204, 401, 403, 404, 500))
        return m

    if t == "mrp" and rng.random() < 0.7:
        script.append(["listeners", rng.choice(LSETS)])
    if t == "companion" and rng.random() < 0.5:
        script.append(["xid0", rng.randint(0, 8)])
    pending_events = []
    steps = rng.randint(n, 3 * n + 4)
    nreq = 0
    for _ in range(steps):
        r = rng.random()
        if nreq < n and (r < 0.35 or not issued):
            opts = {}
            if t != "rtsp":
                opts["timeout"] = tos[nreq] if rng.random() < 0.6 else 60 + nreq
            if t in ("http", "rtsp") and rng.random() < 0.3:
                opts["allow"] = True
            if t == "mrp" and rng.random() < 0.25:
                opts["typed"] = True
                opts["type"] = rng.choice((1, 2))
            elif issued and rng.random() < 0.35:
                plain = [j for j in issued if not script_opts(script, j).get("typed")
                         and "auth" not in script_opts(script, j)]
                if plain:
                    opts["reuse"] = rng.choice(plain)
                    if rng.random() < 0.4:
                        opts["copy"] = True
            if t == "companion" and rng.random() < 0.2:
                opts = {"auth": rng.choice((3, 4, 5, 6)), "timeout": opts.get("timeout", 60)}
            if rng.random() < 0.08:
                opts["fault"] = rng.choice(("write", "processor")) if t in ("http", "rtsp") else "write"
                opts.pop("reuse", None)
                opts.pop("copy", None)
                script.append(["req", nreq, opts])      # never sent: not answered, not re-used
                nreq += 1
                continue
            script.append(["req", nreq, opts])
            issued.append(nreq)
            unanswered.append(nreq)
            nreq += 1
        elif r < 0.75 and unanswered:
            k = rng.randint(1, min(3, len(unanswered)))
            batch = []
            for _j in range(k):
                if not unanswered:
                    break
                w = unanswered[0] if t == "http" else rng.choice(unanswered)
                unanswered.remove(w)
                m = answer_for(w)
                if t == "companion" and "auth" in script_opts(script, w):
                    m = {"tag": m["tag"], "for": w, "kind": "auth",
                         "ft": {3: 4, 5: 6}.get(script_opts(script, w)["auth"], script_opts(script, w)["auth"])}
                if t == "mrp" and script_opts(script, w).get("typed"):
                    m["type"] = script_opts(script, w)["type"]
                batch.append(m)
                if t != "http" and rng.random() < 0.1:
                    d = dict(m)
                    d["tag"] = newtag()
                    batch.append(d)       # the device repeats itself
            if len(batch) == 1 and rng.random() < 0.2 and t != "http":
                script.append(["race", batch[0]])
            else:
                script.append(["msg", batch])
        elif t == "companion" and r < 0.80:
            e = sum(1 for op in script if op[0] == "send")
            o = {}
            if rng.random() < 0.15:
                o["with_x"] = True
            elif rng.random() < 0.1:
                o["fault"] = "write"
            script.append(["send", e, o])
            if not o and rng.random() < 0.7:
                pending_events.append(e)
        elif t == "companion" and r < 0.82 and pending_events:
            e = pending_events.pop(rng.randrange(len(pending_events)))
            m = {"tag": newtag(), "kind": "resp", "ft": 8, "efor": e}
            if rng.random() < 0.6:
                m["em"] = True
            script.append(["msg", [m]])
        elif r < 0.83:
            script.append(["timeout"])
        elif r < 0.88 and issued:
            script.append(["cancel", rng.choice(issued)])
        else:
            if t == "http" and _http_busy(script):
                continue
            v = rng.randint(0, 9)
            m = unsol_msg(t, rng, newtag(), v)
            if t == "companion" and issued and rng.random() < 0.4:
                m = unsol_msg(t, rng, m["tag"], v, xfor=rng.choice(issued), ukind=rng.choice((None, None, "other")))
            elif t == "companion" and rng.random() < 0.5:
                m = rng.choice([
                    {"tag": m["tag"], "kind": "notdict", "ft": 8},
                    {"tag": m["tag"], "kind": "event", "ft": 8, "no_c": True},
                    {"tag": m["tag"], "kind": "other", "ft": 8, "t": 2},
                    {"tag": m["tag"], "kind": "other", "ft": 8},
                    {"tag": m["tag"], "kind": "resp", "ft": 8, "xid": rng.randint(0, 12)},
                    {"tag": m["tag"], "kind": "resp", "ft": 8},
                    {"tag": m["tag"], "kind": "event", "ft": 1},
                    {"tag": m["tag"], "kind": "auth", "ft": rng.choice((3, 4, 5, 6))},
                    {"tag": m["tag"], "kind": "event", "ft": 18},
                ])
            script.append(["msg", [m]])
    return script


LSETS = listener_sets()


def script_opts(script, w):
    for op in script:
        if op[0] == "req" and op[1] == w:
            return op[2] if len(op) > 2 else {}
    return {}


# ----------------------------------------------------------------------------- run
WITNESS = {
    "http-late-response": ("http", [["req", 0, {"timeout": 3}], ["timeout"], ["req", 1, {"timeout": 50}],
                                    ["msg", [{"tag": 10, "for": 0}]]]),
    "rtsp-reordered-error": ("rtsp", [["req", 0, {}], ["req", 1, {}],
                                      ["msg", [{"tag": 11, "for": 1, "code": 500}]],
                                      ["msg", [{"tag": 10, "for": 0, "code": 200}]]]),
}


def evaluate(ctx, t, script, cases, origin):
    obs = run_script(t, script)
    case = Case(t, script, obs)
    errs = oracle(case)
    for key, what in errs:
        ctx.violation(key, what, {"transport": t, "script": script,
                                  "observed": {str(w): list(o) for w, o in case.outcome.items()},
                                  "listener_calls": case.listens})
    nontrivial = any(o[0] == "ret" or o[1] not in ("TimeoutError", "CancelledError") for o in case.outcome.values())
    ctx.case((t, json.dumps(script, sort_keys=True)), nontrivial=nontrivial,
             sample={"transport": t, "script": script,
                     "outcomes": {str(w): list(o) for w, o in case.outcome.items()}} if origin == "sample" else None)
    ctx.count("%s:%s" % (t, origin))
    ctx.count("%s:requests=%d" % (t, len(case.req_at)))
    for w, how in case.how.items():
        ctx.count("%s:end=%s" % (t, how))
    cases.setdefault(t, []).append((case, errs))
    return case, errs


def evaluate_joint(ctx, t, scripts, order, cases, origin):
    """several independent objects of the transport alive at once; each is judged against its own script"""
    obs = run_multi(t, scripts, order)
    for k, sc in enumerate(scripts):
        case = Case(t, sc, obs[k])
        case.joint = {"scripts": scripts, "order": order, "object": k}
        errs = oracle(case)
        for key, what in errs:
            ctx.violation(key, "object %d of %d alive in the process: %s" % (k, len(scripts), what),
                          {"transport": t, "script": sc, "joint": {"scripts": scripts, "order": order, "object": k},
                           "observed": {str(w): list(o) for w, o in case.outcome.items()},
                           "listener_calls": case.listens})
        ctx.case((t, "joint", k, json.dumps([scripts, order], sort_keys=True)),
                 nontrivial=any(o[0] == "ret" for o in case.outcome.values()))
        cases.setdefault(t, []).append((case, errs))
    ctx.count("%s:%s" % (t, origin))


def run(ctx):
    ctx.build_property()
    ctx.note("coq build done; running the implementation")
    if ctx.thorough:
        ctx.coqchk()
    nmax = 4 if ctx.thorough else 3
    rnd_n = 400 if not ctx.thorough else 6000
    ctx.rule = ("per transport (MRP, Companion, plain HTTP, RTSP): EXHAUSTIVE over 1..%d concurrent requests x every order "
                "of their answers (request order for plain HTTP) x one unsolicited message at every position x one timeout "
                "at every position between a request and its (then late) answer; plus %d seeded random histories per "
                "transport with up to 5 requests, several messages per read, repeated answers, error statuses, "
                "message/timeout races, cancellations, unknown identifiers and malformed frames; plus the corpus. "
                "non-trivial = at least one request ended with something other than a timeout/cancellation; "
                "distinct by (transport, script)" % (nmax, rnd_n))
    cases = {}
    # corpus first
    for fname, d in common.load_corpus(ctx.pid):
        if "joint" in d:
            evaluate_joint(ctx, d["transport"], d["joint"]["scripts"], d["joint"]["order"], cases, "corpus")
        else:
            evaluate(ctx, d["transport"], d["script"], cases, "corpus")
    for t in TRANSPORTS:
        first = True
        for j, s in enumerate(exhaustive_scripts(t, nmax)):
            if t == "mrp" and j % 2:
                s = [["listeners", LSETS[(j // 2) % len(LSETS)]]] + s
            evaluate(ctx, t, s, cases, "sample" if first else "exhaustive")
            first = False
        if t == "mrp":
            for spec in LSETS:
                evaluate(ctx, t, dispatch_probe(spec), cases, "listener-sets")
        if t == "companion":
            for s in companion_xid_family():
                evaluate(ctx, t, s, cases, "small-xids-and-auth")
        # two independent protocol/connection objects alive in the process: the same (or the next) script on
        # both, one after the other and strictly alternating; the second object uses its own message tags
        fam = exhaustive_scripts(t, 2)
        if t == "companion":
            fam = fam[::2]
        for j, s in enumerate(fam):
            for other in (s, fam[(j + 1) % len(fam)]):
                pair = [s, retag(other, 1000)]
                for kind in ("rr", "seq"):
                    evaluate_joint(ctx, t, pair, merge_order(kind, pair), cases, "two-objects-" + kind)
        for i in range(rnd_n // 8):
            pair = [random_script(t, ctx.rng, 4), retag(random_script(t, ctx.rng, 4), 1000)]
            evaluate_joint(ctx, t, pair, merge_order("random", pair, ctx.rng), cases, "two-objects-random")
        for i in range(rnd_n):
            s = random_script(t, ctx.rng, 5)
            evaluate(ctx, t, s, cases, "sample" if i == 0 else "random")
    ctx.note("implementation runs done: %d; comparing with the model in Coq" % ctx.evaluations)
    ctx.exhaustive = False
    ctx.extra["exhaustive_part"] = "the enumerated family described in 'rule' is complete for <= %d requests" % nmax
    # model vs implementation inside Coq
    items = []
    index = {}
    per = 400
    for t in TRANSPORTS:
        lst = cases.get(t, [])
        ty, fn = COQ_TYPES[t]
        terms = []
        for (case, errs) in lst:
            term = coq_case(case)
            if term is None:
                ctx.tie_broken("correspondence:%s:unmodelled-outcome" % t, json.dumps(
                    {"transport": t, "script": case.script, "observed": {str(w): list(o) for w, o in case.outcome.items()}}))
                continue
            terms.append((case, term))
        ctx.traces += len(terms)
        for i in range(0, len(terms), per):
            chunk = terms[i:i + per]
            name = "%s_%03d" % (t, i // per)
            index[name] = chunk
            txt = ("From Coq Require Import List NArith. Import ListNotations.\n"
                   "From PV Require Import Common.Cases C03.Model.\n"
                   "Definition cases : list (%s) := [\n%s\n].\n"
                   "Eval vm_compute in (bad_indices %s cases).\n" % (ty, ";\n".join(c[1] for c in chunk), fn))
            items.append((name, txt))
    # what each listener saw vs dispatch_calls
    dc = []
    for (case, errs) in cases.get("mrp", []):
        for term in dispatch_cases(case):
            dc.append((case, term))
    ctx.count("mrp:dispatch-calls-compared", len(dc))
    dper = 2000
    for i in range(0, len(dc), dper):
        chunk = dc[i:i + dper]
        name = "dispatch_%03d" % (i // dper)
        index[name] = chunk
        items.append((name, "From Coq Require Import List NArith. Import ListNotations.\n"
                            "From PV Require Import Common.Cases C03.Model.\n"
                            "Definition cases : list (list (bool * nat) * list nat) := [\n%s\n].\n"
                            "Eval vm_compute in (bad_indices disp_check cases).\n" % ";\n".join(c[1] for c in chunk)))
    res = common.coq_run_many(items, ctx.pid)
    for name, (rc, out) in sorted(res.items()):
        bad = common.parse_eval_nat_list(out) if rc == 0 else None
        if bad is None:
            ctx.tie_broken("correspondence:" + name, out)
            continue
        for b in bad[:3]:
            case, term = index[name][b]
            ctx.tie_broken("correspondence:%s" % case.t, json.dumps(
                {"transport": case.t, "script": case.script, "joint": getattr(case, "joint", None),
                 "model_events": model_events(case),
                 "observed": {str(w): list(o) for w, o in case.outcome.items()}, "listener_calls": case.listens}))
            # 2.4: judge the disagreeing input by the extended oracle (a verified model delivers, the code does not)
            for key, what in lost_responses(case):
                rp = {"transport": case.t, "script": case.script,
                      "observed": {str(w): list(o) for w, o in case.outcome.items()}}
                if getattr(case, "joint", None):
                    rp["joint"] = case.joint
                ctx.violation(key, what, rp)
    ctx.trusted += [
        "hand-written models coq/C03/Model.v of MrpProtocol.send_and_receive/_receive/message_received, "
        "CompanionProtocol.exchange_*/frame_received + SharedData, HttpConnection.data_received/send_and_receive, "
        "RtspSession.exchange; tied by the differential run in this file, compared inside Coq by vm_compute",
        "harness/vloop.py virtual-time loop; fake transports/sockets and the script driver in harness/c03.py; "
        "Wake/Timeout events of the model history are reconstructed from the observed completion order",
        "protobuf / OPACK / HTTP encoders used to build the device's messages are pyatv's own (C04 checks them)",
    ]
    ctx.assumptions += [
        "MRP identifiers generated by uuid4 are distinct; at most one request per 'type_<n>' key (and per Companion auth "
        "frame type) is outstanding at a time - the theorems that need this state it as a hypothesis",
        "plain HTTP has no identifier: 'the request a response answers' is defined by order (k-th response of the "
        "device answers the k-th request written to the connection)",
        "connection loss (connection_lost/close) and malformed HTTP are outside this property (C09/C05)",
        "partial: fairness of the asyncio scheduler and real timer resolution are not modelled; the model allows "
        "every order of Wake/Timeout events, the run observes the orders the event loop actually produces",
    ]


def lost_responses(case):
    """answer arrived (settled, not raced) while its request was pending, yet the request ended without it"""
    out = []
    if dup_keys(case):
        return out
    for w in case.req_at:
        o = case.outcome.get(w)
        if o is None or case.delivered_tag(w) is not None or case.how.get(w) == "cancel":
            continue
        for m in case.msgs:
            if case.answers(m) == w and case.req_at[w] < m["at"] < case.done_at[w] and not m.get("race"):
                out.append(("C03:%s:response-not-delivered" % case.t,
                            "request %d ended with %r although its answer T%d had arrived" % (w, o, m["tag"])))
                break
    return out


def replay(ctx, path):
    d = json.load(open(path))
    r = d.get("replay") or d
    if "script" not in r:
        print("nothing to replay against the implementation (tie-broken record): %s" % json.dumps(d.get("broken", d))[:2000])
        return 1
    if "joint" in r:
        j = r["joint"]
        allobs = run_multi(r["transport"], j["scripts"], j["order"])
        errs = []
        for k, sc in enumerate(j["scripts"]):
            case = Case(r["transport"], sc, allobs[k])
            e = oracle(case)
            if str(d.get("key", "")).endswith("response-not-delivered"):
                e += lost_responses(case)
            print("object %d: script=%s" % (k, json.dumps(sc)))
            print("   outcomes=%s listener_calls=%s" % ({w: o for w, o in sorted(case.outcome.items())}, case.listens))
            errs += [(key, "object %d: %s" % (k, what)) for key, what in e]
        print("order=%s" % j["order"])
        print("property-errors=%s" % errs)
        return 1 if errs else 0
    obs = run_script(r["transport"], r["script"])
    case = Case(r["transport"], r["script"], obs)
    errs = oracle(case)
    if str(d.get("key", "")).endswith("response-not-delivered"):
        # recorded when the run disagreed with the verified model: the answer arrived but was not handed over
        errs += lost_responses(case)
    print("transport=%s script=%s" % (r["transport"], json.dumps(r["script"])))
    print("outcomes=%s listener_calls=%s" % ({w: o for w, o in sorted(case.outcome.items())}, case.listens))
    print("property-errors=%s" % errs)
    return 1 if errs else 0
