"""C16 - RAOP audio sender: theorems in coq/C16, correspondence against the real
StreamClient._stream_data/_send_packet, AirPlayV1.send_audio_packet, FileSource, PacketFifo and
ControlClient (retransmit), driven with fake transports under virtual time."""
import array
import asyncio
import io
import json
import logging
import os
import struct
import threading

import common
import vloop

logging.getLogger("pyatv").setLevel(logging.CRITICAL)

FPP = 352
AUDIO_KEY = bytes(range(32))       # fixed shared secret for the AirPlay v2 audio cipher
SEQMOD = 1 << 16
ADDR = ("10.0.0.1", 6001)
EXN = {"ValueError": "ValueError", "error": "StructError", "IndexError": "IndexError",
       "ZeroDivisionError": "ZeroDivisionError"}


# --------------------------------------------------------------------------- inputs

def pattern(pa, pb, n):
    """byte i = (i*pa + pb) mod 251 (periodic with period 251)"""
    period = bytes(((i * pa + pb) % 251) for i in range(251))
    return (period * (n // 251 + 1))[:n]


def swap16(b):
    assert len(b) % 2 == 0
    out = bytearray(len(b))
    out[0::2] = b[1::2]
    out[1::2] = b[0::2]
    return bytes(out)


def default_case(**kw):
    c = {
        "channels": 2, "ssize": 2, "nframes": 880, "pa": 7, "pb": 3,
        "seq0": 65534, "start_ts": 1000000, "latency": 704, "sample_rate": 44100,
        "ssrc": 0x12345678,
        "delays": {},          # readframes call index -> seconds the source takes to answer
        "close_at": None,      # audio transport reports is_closing() once this many datagrams were sent
        "stop_after_lap": None,  # stop() is called during this lap (0-based)
        "requests": [],        # [at_read_call or None (= after the stream ended), hex datagram]
        "prev": [],            # earlier streams on the SAME StreamContext (one RAOP connection): list of overrides
                               # ({"nframes", "pa", "pb"[, "stop_after_lap", "close_at"]}), each run like the library
                               # does (new StreamClient + protocol object on the shared context, properties applied,
                               # send_audio's reset(); afterwards the playback manager's teardown reset())
        "reuse_client": False, # (in "prev" entries) True: the NEXT stream goes through the same StreamClient and protocol
                               # object (send_audio called again on the client; its finally cleared the backlog)
        "teardown_reset": True,  # False: the context is NOT reset after this stream (send_audio called again on the
                               # connection without the playback manager's teardown): the next send_audio's own
                               # reset() has to do
        "proto": "v1",         # protocol object: "v1" AirPlayV1, "v2" AirPlayV2 without audio cipher, "v2cipher"
                               # AirPlayV2 with _cipher = Chacha20Cipher8byteNonce(key, key) as setup_audio_stream does
        "order": "library",    # "library": StreamClient constructed around a default context, receiver properties
                               # applied afterwards by the real code; "preset": format set before construction
        "source": None,        # None: FileSource over the in-memory samples.  Otherwise a BUFFERED source opened by the
                               # real BufferedIOBaseSource.open() on a WAV byte stream whose producer stalls:
                               # {"kind": "file" | "pipe" (not seekable) | "reader" (asyncio.StreamReader),
                               #  "stalls": [[pcm byte offset, virtual seconds], ...],
                               #  "max_read": n ("reader" only: the producer feeds at most n bytes at a time, so the
                               #  StreamReader answers short reads; 1 = byte by byte.  File objects always answer
                               #  full reads, as io.BufferedIOBase promises for non-interactive streams)}
        "compact": False,      # True: too many datagrams for a case literal - compared with the model through the
                               # header summary of coq/C16/Long.v (payloads are checked in Python only)
        "boundary": False,     # True: probe of a limit outside the property's domain (model tie only, no oracle)
        "via_file": False,     # True: the source is produced by the normal path - a WAV file on disk opened with
                               # open_source() for the format get_audio_properties() derives from the receiver's
                               # zeroconf properties {"ch": channels, "ss": 8*ssize} (oracle only, no model)
    }
    c.update(kw)
    return c


def retransmit_req(first, count, typ=0xD5, seqno=1):
    return struct.pack(">BBHHH", 0x80, typ, seqno, first, count).hex()


# --------------------------------------------------------------------------- buffered sources that stall

class TLoop(vloop.VLoop):
    """Virtual-time loop that tolerates executor threads (miniaudio decoding, file reads): while a worker thread
    is busy, virtual time stands still and the loop waits (real time) for it; a thread that is known to wait for
    the loop itself (a stalled reader, a StreamReader waiting for data) does not hold time back."""

    def __init__(self):
        super().__init__()
        self._jobs = 0
        self._blocked = 0
        self._idle = 0
        # own worker pool, shut down without asyncio's shutdown_default_executor (whose abandoned coroutine can
        # dead-lock the interpreter when it is finalised in another thread)
        import concurrent.futures
        self._pool = concurrent.futures.ThreadPoolExecutor(max_workers=6, thread_name_prefix="c16")
        self.set_default_executor(self._pool)

    def run_in_executor(self, executor, func, *args):
        fut = super().run_in_executor(executor, func, *args)
        self._jobs += 1

        def done(_):
            self._jobs -= 1
        fut.add_done_callback(done)
        return fut

    def _run_once(self):
        if self._ready:
            self._idle = 0
        elif self._jobs - self._blocked > 0 and self._idle < 2500:
            self._idle += 1
            self._process_events(self._selector.select(0.002))
            if not self._ready:
                return
        super()._run_once()


_RELEASE = []      # callables that let go of every worker thread still waiting for a test producer


def tloop_run(coro_factory, *a):
    loop = TLoop()
    # never hang: a run that makes no progress for this long (real time) is stopped and reported as a harness failure
    watchdog = threading.Timer(120, lambda: loop.call_soon_threadsafe(loop.stop))
    watchdog.daemon = True
    watchdog.start()
    try:
        asyncio.set_event_loop(loop)
        return loop.run_until_complete(coro_factory(*a))
    finally:
        watchdog.cancel()
        try:
            while _RELEASE:
                try:
                    _RELEASE.pop()()
                except Exception:
                    pass
            pending = [t for t in asyncio.all_tasks(loop) if not t.done()]
            for t in pending:
                t.cancel()
            if pending:
                loop.run_until_complete(asyncio.wait_for(asyncio.gather(*pending, return_exceptions=True), 30))
            loop._pool.shutdown(wait=False, cancel_futures=True)
            for t in list(loop._pool._threads):
                t.join(5)
        except Exception:
            pass
        asyncio.set_event_loop(None)
        loop.close()


class StallReader(io.BytesIO):
    """File object (read in a worker thread) that blocks for some virtual time when reading passes an offset."""

    armed = False
    can_seek = True

    def setup(self, loop, stalls, can_seek, max_read=None):
        self.loop = loop
        self.stalls = sorted(stalls)
        self.can_seek = can_seek
        self.max_read = max_read
        self.stalled = []
        self.waiting = []

    def release(self):
        """End of the run: never leave a worker thread waiting."""
        self.armed = False
        for ev in list(self.waiting):
            ev.set()

    def seekable(self):
        return self.can_seek

    def read(self, size=-1):
        if self.armed and self.stalls and size and self.tell() + max(size, 0) > self.stalls[0][0] \
                and threading.current_thread() is not threading.main_thread():
            off, secs = self.stalls.pop(0)
            ev = threading.Event()
            loop = self.loop

            def fire():
                loop._blocked -= 1
                ev.set()

            def arm():
                loop._blocked += 1
                loop.call_later(secs, fire)
            self.stalled.append([off, self.tell()])
            self.waiting.append(ev)
            loop.call_soon_threadsafe(arm)
            ev.wait(60)
        if self.armed and self.max_read and (size is None or size < 0 or size > self.max_read):
            size = self.max_read          # a short read, as pipes and sockets give
        return super().read(size)


class FeedReader(asyncio.StreamReader):
    """StreamReader whose consumer (a worker thread blocking on run_coroutine_threadsafe) is known to wait."""

    async def read(self, n=-1):
        loop = asyncio.get_event_loop()
        loop._blocked += 1
        try:
            return await super().read(n)
        finally:
            loop._blocked -= 1


async def feed(reader, data, stalls, log, step=None):
    """Producer of a StreamReader: bursts of data with pauses (virtual time) at the given offsets."""
    pos = 0
    step = step or 4096
    for off, secs in sorted(stalls) + [[len(data), 0]]:
        off = min(max(off, pos), len(data))
        while pos < off:
            reader.feed_data(data[pos:min(off, pos + step)])
            pos = min(off, pos + step)
            await asyncio.sleep(0)
        if secs:
            log.append([off, pos])
            await asyncio.sleep(secs)
    reader.feed_eof()


def wav_bytes(pcm, ch, ss, sr):
    import wave
    out = io.BytesIO()
    w = wave.open(out, "wb")
    w.setnchannels(ch)
    w.setsampwidth(ss)
    w.setframerate(sr)
    w.writeframes(pcm)
    w.close()
    return out.getvalue()


# --------------------------------------------------------------------------- driver

class AudioTransport:
    def __init__(self, close_at):
        self.sent = []
        self.close_at = close_at

    def sendto(self, data, addr=None):
        self.sent.append(bytes(data))

    def is_closing(self):
        return self.close_at is not None and len(self.sent) >= self.close_at

    def close(self):
        pass


class ControlTransport:
    def __init__(self):
        self.sent = []

    def sendto(self, data, addr=None):
        self.sent.append((bytes(data), addr))

    def close(self):
        pass


class FakeRtsp:
    def __init__(self, session_id):
        self.session_id = session_id


def open_via_file(case):
    """The normal path: zeroconf properties -> get_audio_properties -> open_source(file)."""
    import shutil
    import tempfile
    import wave
    from pyatv.protocols.raop.audio_source import open_source
    from pyatv.protocols.raop.parsers import get_audio_properties
    sr, ch, ss = get_audio_properties({"sr": str(case["sample_rate"]), "ch": str(case["channels"]),
                                       "ss": str(8 * case["ssize"])})
    assert (ch, ss) == (case["channels"], case["ssize"])
    os.makedirs(common.BUILD, exist_ok=True)
    d = tempfile.mkdtemp(dir=common.BUILD)
    try:
        path = os.path.join(d, "source.wav")
        w = wave.open(path, "wb")
        w.setnchannels(ch)
        w.setsampwidth(ss)
        w.setframerate(sr)
        w.writeframes(pattern(case["pa"], case["pb"], case["nframes"] * ch * ss))
        w.close()
        loop = asyncio.new_event_loop()
        try:
            return loop.run_until_complete(open_source(path, sr, ch, ss))
        finally:
            loop.close()
    finally:
        shutil.rmtree(d, ignore_errors=True)


async def drive(case, prepared=None, shared_ctx=None, shared_client=None):
    """Run the real sender on one stream; returns the raw observation dict (with the context under "ctx")."""
    import miniaudio
    from pyatv.protocols.raop import stream_client as sc
    from pyatv.protocols.raop.audio_source import AudioSource, FileSource
    from pyatv.protocols.raop import protocols as rp
    from pyatv.protocols.raop import timing as rtiming
    from pyatv.protocols.raop.protocols import StreamContext
    from pyatv.protocols.raop.protocols.airplayv1 import AirPlayV1
    from pyatv.protocols.raop.protocols.airplayv2 import AirPlayV2
    from pyatv.support.chacha20 import Chacha20Cipher8byteNonce

    cipher_calls = []

    class RecCipher(Chacha20Cipher8byteNonce):
        """The real cipher; records what it was asked to encrypt and what it answered."""

        def encrypt(self, data, nonce=None, aad=None):
            used = self.out_nonce if nonce is None else nonce
            out = super().encrypt(data, nonce=nonce, aad=aad)
            cipher_calls.append((bytes(used), bytes(aad or b""), bytes(data), bytes(out)))
            return out

    def make_proto(ctx_, rtsp_):
        if case.get("proto", "v1") == "v1":
            return AirPlayV1(ctx_, rtsp_)
        pr = AirPlayV2(ctx_, rtsp_)
        if case["proto"] == "v2cipher":
            pr._cipher = RecCipher(AUDIO_KEY, AUDIO_KEY)     # as AirPlayV2.setup_audio_stream does
        return pr

    loop = asyncio.get_event_loop()
    ch, ss = case["channels"], case["ssize"]
    fs = ch * ss
    src_bytes = pattern(case["pa"], case["pb"], case["nframes"] * fs)
    fmt, code = {1: (miniaudio.SampleFormat.UNSIGNED8, "B"), 2: (miniaudio.SampleFormat.SIGNED16, "h"),
                 4: (miniaudio.SampleFormat.SIGNED32, "i")}[ss]
    arr = array.array(code)
    assert arr.itemsize == ss
    arr.frombytes(src_bytes)
    feeder = None
    stall_log = None
    if case.get("source"):
        from pyatv.protocols.raop.audio_source import BufferedIOBaseSource
        spec = case["source"]
        data = wav_bytes(src_bytes, ch, ss, case["sample_rate"])
        stalls = [[44 + o, t] for o, t in spec["stalls"]]
        if spec["kind"] == "reader":
            rd = FeedReader()
            _RELEASE.append(lambda: rd.at_eof() or rd.feed_eof())
            stall_log = []
            feeder = asyncio.ensure_future(feed(rd, data, stalls, stall_log, spec.get("max_read")))
        else:
            rd = StallReader(data)
            _RELEASE.append(rd.release)
            rd.setup(loop, stalls, spec["kind"] == "file")
            stall_log = rd.stalled
        fsrc = await BufferedIOBaseSource.open(rd, case["sample_rate"], ch, ss)
        rd.armed = True
    elif prepared is None:
        decoded = miniaudio.DecodedSoundFile("verif", ch, case["sample_rate"], fmt, arr)
        fsrc = FileSource(decoded)
    else:
        fsrc = prepared
        src_bytes = bytes(fsrc.samples)
    assert isinstance(fsrc, AudioSource) and fsrc.sample_size == ss and fsrc.channels == ch

    rtsp = FakeRtsp(case["ssrc"])
    props = {"sr": str(case["sample_rate"]), "ch": str(ch), "ss": str(8 * ss)}
    # reset() draws the start sequence number from randrange() and the start timestamp from the wall clock: both
    # sources are substituted (the values come from the case), everything reset() does with them is the real code
    sr = case["sample_rate"]
    saved_rand = (rp.randrange, rtiming.ntp_now)
    rp.randrange = lambda n: case["seq0"] % n
    rtiming.ntp_now = lambda: (((case["start_ts"] << 16) // sr) + 1) << 16
    try:
        ctx = shared_ctx if shared_ctx is not None else StreamContext()
        before = [ctx.rtpseq, ctx.head_ts, ctx.padding_sent]
        if case.get("order", "library") == "library":
            # The library's own order (RaopPlaybackManager.setup, RaopStream.stream_file, StreamClient.send_audio):
            # the protocol object and a new StreamClient are constructed around the connection's StreamContext (fresh
            # with the default format for the first stream, re-used for later ones), only then are the receiver's
            # properties applied through the real code path (initialize() -> _update_output_properties), and
            # send_audio() resets the context before streaming.
            if shared_client is not None:
                client = shared_client              # send_audio again on the same client (backlog was cleared)
                rtsp = client.rtsp
            else:
                proto = make_proto(ctx, rtsp)
                client = sc.StreamClient(rtsp, ctx, proto, None)
            client._update_output_properties(props)
        else:
            # second variant: format already on the context when the client is constructed
            ctx.sample_rate = sr
            ctx.channels = ch
            ctx.bytes_per_channel = ss
            proto = make_proto(ctx, rtsp)
            client = sc.StreamClient(rtsp, ctx, proto, None)
        ctx.reset()                                   # StreamClient.send_audio
    finally:
        rp.randrange, rtiming.ntp_now = saved_rand
    assert (ctx.sample_rate, ctx.channels, ctx.bytes_per_channel) == (sr, ch, ss)
    # the latency is 22050 + sample rate; shorter ones are test parameters that keep the cases small.  Nothing else
    # of the context is touched: sequence number, timestamps and padding_sent are what reset() left.
    if case["latency"] != 22050 + sr:
        ctx.latency = case["latency"]
    at_start = {"seq0": ctx.rtpseq, "start_ts": ctx.start_ts, "latency": ctx.latency,
                "head0": ctx.head_ts, "pad0": ctx.padding_sent, "before": before}
    audio = AudioTransport(case["close_at"])
    control_t = ControlTransport()
    control = sc.ControlClient(ctx, client._packet_backlog)
    control.connection_made(control_t)

    behind = []
    reqlog = []
    delays = {int(k): v for k, v in case["delays"].items()}
    reqs_at = {}
    for at, data in case["requests"]:
        reqs_at.setdefault(at, []).append(data)

    def do_requests(at):
        for data in reqs_at.get(at, []):
            n0 = len(control_t.sent)
            raised = None
            try:
                control.datagram_received(bytes.fromhex(data), ADDR)
            except Exception as ex:  # what asyncio's datagram machinery would log
                raised = type(ex).__name__
            reqlog.append({"after": len(audio.sent), "data": data, "raised": raised,
                           "replies": [d for d, a in control_t.sent[n0:]],
                           "addr_ok": all(a == ADDR for d, a in control_t.sent[n0:])})

    class Source(AudioSource):
        calls = 0

        async def readframes(self, nframes):
            i = Source.calls
            Source.calls += 1
            d = delays.get(i, 0)
            if d:
                await asyncio.sleep(d)
            do_requests(i)
            return await fsrc.readframes(nframes)

        async def get_metadata(self):
            return None

        sample_rate = property(lambda self: fsrc.sample_rate)
        channels = property(lambda self: fsrc.channels)
        sample_size = property(lambda self: fsrc.sample_size)
        duration = property(lambda self: 0)

    real_statistics = sc.Statistics

    class RecStatistics(real_statistics):
        @property
        def frames_behind(self):
            v = real_statistics.frames_behind.fget(self)
            if case["stop_after_lap"] is not None and len(behind) == case["stop_after_lap"]:
                client.stop()
            behind.append(v)
            return v

    saved = (sc.monotonic, sc.monotonic_ns, sc.Statistics)
    sc.monotonic = loop.time
    sc.monotonic_ns = lambda: int(round(loop.time() * 10**9))
    sc.Statistics = RecStatistics
    outcome = "Returned"
    try:
        try:
            await client._stream_data(Source(), audio)
        except Exception as ex:
            outcome = "Raised:" + type(ex).__name__
    finally:
        sc.monotonic, sc.monotonic_ns, sc.Statistics = saved
        if case.get("source"):
            # whatever happened: let every worker thread that still waits for the producer go
            if feeder is not None:
                feeder.cancel()
                if not rd.at_eof():
                    rd.feed_eof()
            else:
                rd.release()
            try:
                await asyncio.wait_for(fsrc.close(), 30)
            except Exception:
                pass
    do_requests(None)
    bl = client._packet_backlog
    keys = list(bl)
    ob = {
        "outcome": outcome,
        "sent": audio.sent,
        "behind": behind,
        "final": [ctx.rtpseq, ctx.head_ts, ctx.padding_sent, Source.calls],
        "keys": keys,
        "values": [bl[k] for k in keys],
        "reqs": reqlog,
        "src": src_bytes,
        "fs": fs,
        "limit": sc.PACKET_BACKLOG_SIZE,
        "calls": cipher_calls,
        "stalled": stall_log,
        "ctx": ctx,
        "client": client,
    }
    ob.update(at_start)
    # end of the stream as the library does it: send_audio clears the backlog, RaopPlaybackManager.teardown()
    # resets the connection's context
    bl.clear()
    if case.get("teardown_reset", True):
        rp.randrange, rtiming.ntp_now = (lambda n: 0), (lambda: 1 << 40)
        try:
            ctx.reset()
        finally:
            rp.randrange, rtiming.ntp_now = saved_rand
    return ob


def streams_of(case):
    """The streams of a history, oldest first, as single-stream cases (the last one is the case itself)."""
    subs = []
    for p in case.get("prev", []):
        sub = dict(case, prev=[], requests=[], delays={}, close_at=None, stop_after_lap=None, via_file=False)
        sub.update(p)
        subs.append(sub)
    subs.append(dict(case, prev=[]))
    return subs


def run_case(case):
    """Run all streams of the case on one StreamContext; returns [(single-stream case, observation)]."""
    out = []
    shared = None
    client = None
    for sub in streams_of(case):
        prepared = open_via_file(sub) if sub.get("via_file") else None
        ob = (tloop_run if sub.get("source") else vloop.run)(drive, sub, prepared, shared, client)
        shared = ob.pop("ctx")
        client = ob.pop("client") if sub.get("reuse_client") else (ob.pop("client") and None)
        out.append((sub, ob))
    return out


# --------------------------------------------------------------------------- oracle

def frames_lost(stream, audio):
    """Number of audio bytes missing when the non-zero bytes sent are a proper subsequence of the audio's."""
    got = bytes(b for b in stream if b)
    want = bytes(b for b in audio if b)
    if len(got) >= len(want):
        return 0
    j = 0
    for b in got:
        j = want.find(bytes([b]), j) + 1
        if j == 0:
            return 0
    return len(want) - len(got)


def describe_damage(payloads, audio, ps, nd):
    """The data packets do not carry the audio as full packets in order: say how (stable key per kind)."""
    pos = 0
    partial = []
    silent = []
    other = None
    for i, p in enumerate(payloads):
        if pos >= len(audio):
            break
        want = audio[pos:pos + ps]
        if p == want + bytes(ps - len(want)):
            pos += len(want)
            continue
        if p == bytes(len(p)):
            silent.append(i)          # a packet of silence although audio remains
            continue
        ln = 0
        while ln < len(p) and ln < len(want) and p[ln] == want[ln]:
            ln += 1
        while ln > 0 and p[ln:] != bytes(len(p) - ln):
            ln -= 1
        # audio bytes that are zero make the cut ambiguous: take the cut after which the next packet continues
        nxt = payloads[i + 1][:64] if i + 1 < len(payloads) else None
        cand = ln
        while nxt is not None and cand > 0 and audio[pos + cand:pos + cand + len(nxt)] != nxt and p[cand - 1] == 0:
            cand -= 1
        if nxt is not None and audio[pos + cand:pos + cand + len(nxt)] == nxt:
            ln = cand
        if 0 < ln < ps and pos + ln < len(audio):
            partial.append((i, ln))   # audio cut short and zero padded although more audio follows
            pos += ln
            continue
        other = i
        break
    if other is None and pos >= len(audio) and partial and not silent:
        i, ln = partial[0]
        return ("C16:buffered-source:short-read-midstream",
                "all frames are sent in order but %d packets in the middle of the audio carry fewer than 352 frames and "
                "are zero padded (first: datagram %d with %d audio bytes + %d zero bytes); %d data packets instead of %d"
                % (len(partial), i, ln, ps - ln, sum(1 for _ in payloads) - 0, nd))
    if other is None and silent:
        return ("C16:payload:not-conserved",
                "silence in the middle of the audio: datagram %d (of %d such) is all zeros although %d source bytes were "
                "still to come%s" % (silent[0], len(silent), len(audio) - min(pos, len(audio)),
                                     "; %d further packets are cut short and zero padded" % len(partial) if partial else ""))
    return ("C16:payload:not-conserved",
            "the %d data packets do not carry the source's frames exactly once and in order (zero padded)%s" % (
                nd, "; first bad datagram %d" % other if other is not None else ""))


def oracle(case, ob):
    """The property judged directly on the datagrams the real code handed to the transports.
    Returns a list of (key, text)."""
    errs = []
    if case.get("boundary"):
        return errs
    fs = ob["fs"]
    ps = FPP * fs
    src = ob["src"]
    sent = ob["sent"]
    complete_expected = case["close_at"] is None and case["stop_after_lap"] is None
    if ob["outcome"].startswith("Raised:"):
        exn = ob["outcome"][7:]
        rem = len(src) % ps
        if exn == "ValueError" and rem % 2 == 1:
            errs.append(("C16:samples:odd-length-chunk",
                         "streaming a %d-frame source with %d channel(s) x %d byte(s) aborts with ValueError "
                         "(bytes length not a multiple of item size) after %d of %d data packets: the last, odd-length "
                         "chunk is never sent%s" % (case["nframes"], case["channels"], case["ssize"], len(sent),
                                                    -(-len(src) // ps),
                                                    " [source = WAV file opened with open_source() for receiver "
                                                    "properties ch=%d ss=%d]" % (case["channels"], 8 * case["ssize"])
                                                    if case.get("via_file") else "")))
        else:
            errs.append(("C16:stream:raised-" + exn, "streaming raised " + exn))
    # what the receiver gets out of each datagram: for AirPlay v2 with the audio cipher the receiver decrypts
    # header[4:12]-authenticated ChaCha20-Poly1305 with the 8 nonce bytes at the end (independent implementation)
    cipher = case.get("proto") == "v2cipher"
    wire_len = 12 + ps + (24 if cipher else 0)
    payloads = []
    if cipher:
        from cryptography.hazmat.primitives.ciphers.aead import ChaCha20Poly1305
        aead = ChaCha20Poly1305(AUDIO_KEY)
    # every datagram: header constants, consecutive sequence numbers, timestamps, marker
    for i, d in enumerate(sent):
        if len(d) != wire_len:
            errs.append(("C16:packet:size", "datagram %d has %d bytes instead of %d" % (i, len(d), wire_len)))
            break
        if cipher:
            try:
                payloads.append(aead.decrypt(b"\x00" * 4 + d[-8:], d[12:-8], d[4:12]))
            except Exception:
                errs.append(("C16:packet:undecryptable", "datagram %d cannot be decrypted by the receiver (nonce %s)" % (
                    i, d[-8:].hex())))
                break
        else:
            payloads.append(d[12:])
        b0, b1, seq, ts, ssrc = struct.unpack(">BBHII", d[:12])
        if b0 != 0x80 or ssrc != case["ssrc"]:
            errs.append(("C16:packet:header", "datagram %d: first byte %#x ssrc %#x" % (i, b0, ssrc)))
        if seq != (ob["seq0"] + i) % SEQMOD:
            errs.append(("C16:seq:not-consecutive", "datagram %d carries sequence %d, expected %d" % (
                i, seq, (ob["seq0"] + i) % SEQMOD)))
        want = 0xE0 if i == 0 else 0x60
        if b1 != want:
            errs.append(("C16:marker:first-only", "datagram %d has type byte %#x, expected %#x" % (i, b1, want)))
        if i > 0:
            pts = struct.unpack(">I", sent[i - 1][4:8])[0]
            if (ts - pts) % (1 << 32) != FPP:
                errs.append(("C16:timestamp:step", "timestamp step %d -> %d between datagrams %d and %d" % (
                    pts, ts, i - 1, i)))
    # payload: the source's frames exactly once and in order, zero padded, then silence
    if not any(k in ("C16:packet:size", "C16:packet:undecryptable") for k, _ in errs):
        stream = b"".join(payloads)
        npad = -(-case["latency"] // FPP)
        if len(src) % 2 == 0:
            full = swap16(src) + bytes((-len(src)) % ps) + bytes(ps * npad)
        else:
            full = swap16(src[:len(src) - len(src) % ps])
        if complete_expected and not ob["outcome"].startswith("Raised:"):
            if stream != full:
                nd = -(-len(src) // ps)
                if stream[:nd * ps] != full[:nd * ps]:
                    key, text = describe_damage(payloads, swap16(src) if len(src) % 2 == 0 else b"", ps, nd)
                    kind = (case.get("source") or {}).get("kind")
                    if key == "C16:payload:not-conserved" and kind == "reader" and len(src) % 2 == 0:
                        lost = frames_lost(swap16(stream), src)     # compare before the 16-bit swap
                        if lost:
                            key = "C16:streamreader-source:frames-lost"
                            text = ("asyncio.StreamReader source delivering at most %s bytes at a time, stalls %s: the "
                                    "datagrams carry the audio with %d bytes missing (incomplete frames at the end of short "
                                    "reads are dropped by the decoder); " % (
                                        case["source"].get("max_read", 4096), case["source"]["stalls"], lost)) + text
                    errs.append((key, text))
                else:
                    errs.append(("C16:payload:silence",
                                 "after the audio %d silence packets were sent, expected %d (latency %d frames)" % (
                                     len(sent) - nd, npad, case["latency"])))
        else:
            if stream != full[:len(stream)]:
                errs.append(("C16:payload:not-conserved", "datagrams sent before the stream ended early are not a "
                                                          "prefix of the source's frames"))
    # the context the sync packets are built from: one sequence number and 352 frames per datagram, and the
    # silence accounted for covers the latency
    if complete_expected and not ob["outcome"].startswith("Raised:") and not errs:
        fseq, fhead, fpad, _ = ob["final"]
        n = len(sent)
        npad = -(-case["latency"] // FPP)
        if fseq != (ob["seq0"] + n) % SEQMOD or fhead != ob["start_ts"] + FPP * n or fpad != FPP * npad:
            errs.append(("C16:context:bookkeeping",
                         "after %d datagrams (%d of silence) the context holds rtpseq=%d head_ts-start=%d padding_sent=%d, "
                         "expected %d, %d, %d" % (n, npad, fseq, fhead - ob["start_ts"], fpad,
                                                  (ob["seq0"] + n) % SEQMOD, FPP * n, FPP * npad)))
    # retransmission
    for r in ob["reqs"]:
        data = bytes.fromhex(r["data"])
        if len(data) != 8 or (data[1] & 0x7F) != 0x55:
            continue
        first, count = struct.unpack(">HH", data[4:8])
        recent = sent[max(0, r["after"] - 1000):r["after"]]
        byseq = {}
        for d in recent:
            byseq[struct.unpack(">H", d[2:4])[0]] = d
        want = []
        for i in range(count):
            s = (first + i) % SEQMOD
            if s in byseq:
                want.append(b"\x80\xd6" + struct.pack(">H", s) + byseq[s])
        if r["raised"] or r["replies"] != want or not r["addr_ok"]:
            got = [struct.unpack(">H", x[2:4])[0] for x in r["replies"] if len(x) >= 4]
            wseq = [struct.unpack(">H", x[2:4])[0] for x in want]
            wraps = first + count > SEQMOD
            if got == wseq and not r["raised"] and r["addr_ok"]:
                bad = [g for g, x, w in zip(got, r["replies"], want) if x != w]
                errs.append(("C16:retransmit:not-byte-identical",
                             "retransmit request (first=%d,count=%d) after %d datagrams: the replies for sequence numbers "
                             "%s differ from the datagrams originally sent (%s)" % (
                                 first, count, r["after"], bad[:8],
                                 "; ".join("seq %d: sent %d bytes, retransmitted %d" % (g, len(w) - 4, len(x) - 4)
                                           for g, x, w in list(zip(got, r["replies"], want))[:1] if x != w))))
                continue
            key = "C16:retransmit:wrap" if (wraps and got == wseq[:len(got)] and len(got) < len(wseq)) \
                else "C16:retransmit:not-exact"
            errs.append((key, "retransmit request (first=%d,count=%d) after %d datagrams: got sequence numbers %s%s, "
                              "expected %s byte-identical to what was sent" % (
                                  first, count, r["after"], got[:12], " raised " + r["raised"] if r["raised"] else "",
                                  wseq[:12])))
    # what is kept for retransmission must be what was sent (the packet send_audio_packet returns is stored)
    nk = len(ob["keys"])
    if ob["values"] != sent[len(sent) - nk:] and len(sent) >= nk:
        j = next(i for i, (a, b) in enumerate(zip(ob["values"], sent[len(sent) - nk:])) if a != b)
        errs.append(("C16:retransmit:not-byte-identical",
                     "backlog entry for sequence %d (%d bytes) differs from the datagram sent with that number (%d bytes)"
                     % (ob["keys"][j], len(ob["values"][j]), len(sent[len(sent) - nk + j]))))
    seen = set()
    out = []
    for k, t in errs:
        if k not in seen:
            seen.add(k)
            out.append((k, t))
    return out


# --------------------------------------------------------------------------- canonical form for Coq

def lap_terms(case, ob):
    laps = []
    stop = case["stop_after_lap"]
    for i, b in enumerate(ob["behind"]):
        laps.append((False, b))
    # the lap in which the main send returned 0 / the loop test failed, plus slack
    laps.append((stop is not None and stop < len(ob["behind"]), 0))
    laps.append((False, 0))
    return laps


def describe(case, ob):
    """Canonicalise the observation; returns (coq_term, ok) - ok False when a datagram's payload
    is not of the form swap16(source slice) + zeros (then the term cannot match the model)."""
    fs = ob["fs"]
    ps = FPP * fs
    src = ob["src"]
    ok = True
    dg = []
    pos = 0
    cipher = case.get("proto") == "v2cipher"
    calls = ob["calls"]
    for i, d in enumerate(ob["sent"]):
        hdr = d[:12]
        ln = min(ps, max(0, len(src) - pos))
        if ln % 2:
            ok = False
            ln = 0
        if cipher:
            # the bytes on the wire are header ++ E(nonce, aad, plaintext) ++ nonce[-8:] for the i-th call of the
            # real cipher; plaintext and aad go to Coq, the ciphertext is checked here
            tail = d[-8:]
            good = i < len(calls) and d == hdr + calls[i][3] + calls[i][0][-8:] and len(calls[i][0]) == 12 \
                and calls[i][0][:4] == bytes(4)
            if good:
                nonce, aad, pt, _ = calls[i]
                ctr = int.from_bytes(nonce[4:], "little")
                pad = len(pt) - ln
                if pad < 0 or pt != swap16(src[pos:pos + ln]) + bytes(pad):
                    good = False
            if not good:
                ok = False
                ctr, aad, ln, pad = 0, b"", 0, 0
            enc = "(Some (%s, %s))" % (common.cN(ctr), common.cbytes(aad))
        else:
            pay = d[12:]
            tail = b""
            pad = len(pay) - ln
            if pad < 0 or pay != swap16(src[pos:pos + ln]) + bytes(pad):
                ok = False
                ln, pad = 0, 0
            enc = "None"
        dg.append("{| o_hdr := %s; o_len := %s; o_pad := %s; o_enc := %s; o_tail := %s |}" % (
            common.cbytes(hdr), common.cN(ln), common.cN(pad), enc, common.cbytes(tail)))
        pos += ln
    # backlog values must be the most recent datagrams, byte-identical
    nk = len(ob["keys"])
    blfrom = len(ob["sent"]) - nk
    if blfrom < 0 or ob["values"] != ob["sent"][blfrom:]:
        ok = False
        blfrom = 0
    reqs = []
    for r in ob["reqs"]:
        reps = []
        for x in r["replies"]:
            idx = None
            for j in range(r["after"] - 1, -1, -1):
                if ob["sent"][j] == x[4:]:
                    idx = j
                    break
            if idx is None or not r["addr_ok"]:
                ok = False
                idx = 0
            reps.append("(%s, %s)" % (common.cbytes(x[:4]), common.cN(idx)))
        raised = EXN.get(r["raised"], "ZeroDivisionError") if r["raised"] else None
        reqs.append("{| q_after := %s; q_data := %s; q_raised := %s; q_replies := %s |}" % (
            common.cN(r["after"]), common.cbytes(bytes.fromhex(r["data"])), common.copt(raised),
            common.clist(reps)))
    oc = ob["outcome"]
    if oc.startswith("Raised:"):
        oc = "(ORaised %s)" % EXN.get(oc[7:], "ZeroDivisionError")
    else:
        oc = "OReturned"
    laps = ["{| l_stop := %s; l_behind := %s |}" % (common.cbool(s), common.cZ(b)) for s, b in lap_terms(case, ob)]
    f = ob["final"]
    term = ("{| k_proto := %s; k_fs := %s; k_latency := %s; k_start := %s; k_ssrc := %s; k_lim := %s; k_close := %s;\n"
            "   k_prev := (%s, %s, %s); k_seq0 := %s; k_srclen := %s; k_pa := %s; k_pb := %s;\n   k_sched := %s;\n   k_outcome := %s;\n"
            "   k_dgrams := %s;\n   k_final := (%s, %s, %s, %s); k_keys := %s; k_blfrom := %s;\n   k_reqs := %s |}" % (
                {"v1": "V1", "v2": "V2plain", "v2cipher": "V2cipher"}[case.get("proto", "v1")],
                common.cN(fs), common.cN(ob["latency"]), common.cN(ob["start_ts"]), common.cN(case["ssrc"]),
                common.cN(ob["limit"]), common.copt(case["close_at"], common.cN),
                common.cN(ob["before"][0]), common.cN(ob["before"][1]), common.cN(ob["before"][2]),
                common.cN(ob["seq0"]), common.cN(len(src)), common.cN(case["pa"]), common.cN(case["pb"]),
                common.clist(laps), oc, common.clist(dg),
                common.cN(f[0]), common.cN(f[1]), common.cN(f[2]), common.cN(f[3]),
                common.clist(ob["keys"], common.cN), common.cN(blfrom), common.clist(reqs)))
    return term, ok


def summarize(headers):
    """Mirror of Long.v [summarize]: compact summary of a list of 12-byte headers."""
    sm = {"count": 0, "first": b"", "last": b"", "markers": [], "odd": [], "seqbreaks": [], "tsbreaks": [],
          "ssrcbreaks": []}
    prev = None
    for i, h in enumerate(headers):
        b0, b1, seq, ts, ssrc = struct.unpack(">BBHII", h)
        if b1 == 0xE0:
            sm["markers"].append(i)
        if not (b0 == 0x80 and b1 in (0xE0, 0x60)):
            sm["odd"].append(i)
        if prev is not None:
            if seq != (prev[0] + 1) % SEQMOD:
                sm["seqbreaks"].append(i)
            if ts != (prev[1] + FPP) % (1 << 32):
                sm["tsbreaks"].append(i)
            if ssrc != prev[2]:
                sm["ssrcbreaks"].append(i)
        else:
            sm["first"] = h
        sm["last"] = h
        prev = (seq, ts, ssrc)
        sm["count"] += 1
    return sm


def describe_long(case, ob):
    """Compact canonical form (Long.v [olong]); the payloads are compared with the source here."""
    fs = ob["fs"]
    ps = FPP * fs
    src = ob["src"]
    sent = ob["sent"]
    ok = case.get("proto", "v1") != "v2cipher" and all(len(d) == 12 + ps for d in sent)
    if ok:
        nd = -(-len(src) // ps)
        body = b"".join(d[12:] for d in sent[:nd])
        ok = len(src) % 2 == 0 and body == swap16(src) + bytes((-len(src)) % ps) \
            and all(d[12:] == bytes(ps) for d in sent[nd:])
    nk = len(ob["keys"])
    ok = ok and ob["values"] == sent[len(sent) - nk:] and ob["outcome"] == "Returned"
    sm = summarize([d[:12] for d in sent]) if all(len(d) >= 12 for d in sent) else summarize([])
    cap = lambda l: common.clist(l[:64], common.cN)
    n = len(sent)
    picks = sorted({i for i in (0, 1, 2, n // 2, SEQMOD - ob["seq0"] - 1, SEQMOD - ob["seq0"], SEQMOD - 1, SEQMOD,
                                SEQMOD + 1, n - 2, n - 1) if 0 <= i < n})
    f = ob["final"]
    term = ("{| g_fs := %s; g_latency := %s; g_ssrc := %s; g_seq0 := %s; g_srclen := %s;\n"
            "   g_sum := {| h_count := %s; h_first := %s; h_last := %s; h_markers := %s; h_odd := %s;\n"
            "               h_seqbreaks := %s; h_tsbreaks := %s; h_ssrcbreaks := %s |};\n"
            "   g_samples := %s;\n   g_final := (%s, %s, %s) |}" % (
                common.cN(fs), common.cN(ob["latency"]), common.cN(case["ssrc"]), common.cN(ob["seq0"]),
                common.cN(len(src)),
                common.cN(sm["count"]), common.cbytes(sm["first"]), common.cbytes(sm["last"]), cap(sm["markers"]),
                cap(sm["odd"]), cap(sm["seqbreaks"]), cap(sm["tsbreaks"]), cap(sm["ssrcbreaks"]),
                common.clist(["(%s, %s)" % (common.cN(i), common.cbytes(sent[i][:12])) for i in picks]),
                common.cN(f[0]), common.cN(max(0, f[1] - ob["start_ts"])), common.cN(f[2])))
    return term, ok


# --------------------------------------------------------------------------- generators

FORMATS = [(1, 1), (1, 2), (1, 4), (2, 1), (2, 2), (2, 4)]


def window_requests(seq0, n, at=None):
    """Every (first,count) window over a backlog of n packets starting at seq0 (and a bit around)."""
    out = []
    for f in range(-2, n + 2):
        for cnt in range(0, n + 4):
            out.append([at, retransmit_req((seq0 + f) % SEQMOD, cnt)])
    return out


def gen_cases(ctx):
    rng = ctx.rng
    cases = []
    lat_small = [1, 351, 352, 353, 704, 1000]

    def rnd_seq0():
        r = rng.random()
        if r < 0.6:
            return (SEQMOD - 4 + rng.randrange(8)) % SEQMOD
        if r < 0.8:
            return (SEQMOD - rng.randrange(1, 12)) % SEQMOD
        return rng.randrange(SEQMOD)

    # H. the normal path: receiver properties -> get_audio_properties -> open_source(WAV file) -> _stream_data
    for (ch, ss, nfr) in [(2, 2, 880), (1, 1, 353), (1, 1, 704), (1, 2, 353), (2, 1, 353), (1, 4, 353)]:
        cases.append(("via-file", default_case(channels=ch, ssize=ss, nframes=nfr, latency=704, via_file=True,
                                               seq0=SEQMOD - 1)))
    # A. every remainder modulo the packet size, formats and start sequence numbers rotating
    rems = list(range(FPP))
    if not ctx.thorough:
        # quick: all remainders once; thorough: three times with different quotients/formats
        reps = 1
    else:
        reps = 6
    for rep in range(reps):
        for r in rems:
            ch, ss = FORMATS[(r + rep + rng.randrange(6)) % 6]
            q = rng.randrange(0, 4)
            cases.append(("rem", default_case(
                channels=ch, ssize=ss, nframes=q * FPP + r, pa=rng.randrange(1, 250), pb=rng.randrange(251),
                seq0=rnd_seq0(), start_ts=rng.randrange(1 << 33), latency=rng.choice(lat_small),
                ssrc=rng.randrange(1 << 32), sample_rate=rng.choice([8000, 22050, 44100, 48000]))))
    # B. boundary lengths x all formats x sequence numbers within +-3 of the wrap
    for (ch, ss) in FORMATS:
        for nfr in [0, 1, 2, 351, 352, 353, 703, 704, 705, 880, 1056, 1057]:
            seq0 = (SEQMOD - 3 + rng.randrange(7)) % SEQMOD
            cases.append(("boundary", default_case(channels=ch, ssize=ss, nframes=nfr, seq0=seq0,
                                                   latency=rng.choice(lat_small), pa=rng.randrange(1, 250),
                                                   pb=rng.randrange(251))))
    for (ch, ss) in FORMATS:
        for nfr in [0, 1, 353, 880]:
            if (ch * ss) % 2 and nfr % 2:
                nfr += 1
            cases.append(("preset-order", default_case(channels=ch, ssize=ss, nframes=nfr, order="preset",
                                                       seq0=(SEQMOD - 2 + rng.randrange(4)) % SEQMOD,
                                                       latency=rng.choice(lat_small), pa=rng.randrange(1, 250),
                                                       pb=rng.randrange(251))))
    for d in range(-3, 4):
        cases.append(("wrap", default_case(seq0=(SEQMOD + d) % SEQMOD, nframes=880 + d, latency=704)))
    # C. schedules: the source answers late, so the sender compensates with extra packets
    nC = 150 if not ctx.thorough else 3000
    for i in range(nC):
        ch, ss = rng.choice(FORMATS)
        sr = rng.choice([8000, 44100])
        nfr = rng.randrange(0, 6 * FPP)
        if ch * ss % 2 and nfr % 2:
            nfr += 1
        delays = {}
        for _ in range(rng.randrange(1, 4)):
            delays[str(rng.randrange(0, 10))] = rng.choice([0.004, 0.01, 0.02, 0.05, 0.1, 0.5])
        cases.append(("late", default_case(channels=ch, ssize=ss, nframes=nfr, sample_rate=sr, delays=delays,
                                           seq0=rnd_seq0(), latency=rng.choice(lat_small + [2000, 3000]),
                                           pa=rng.randrange(1, 250), pb=rng.randrange(251))))
    # D. early end: transport closing, stop()
    nD = 60 if not ctx.thorough else 800
    for i in range(nD):
        ch, ss = rng.choice([(1, 2), (2, 2), (2, 4), (2, 1)])
        kw = dict(channels=ch, ssize=ss, nframes=rng.randrange(0, 5 * FPP), seq0=rnd_seq0(),
                  latency=rng.choice(lat_small + [2000]), pa=rng.randrange(1, 250), pb=rng.randrange(251))
        if rng.random() < 0.5:
            kw["close_at"] = rng.randrange(0, 8)
        else:
            kw["stop_after_lap"] = rng.randrange(0, 7)
        if rng.random() < 0.4:
            kw["delays"] = {str(rng.randrange(0, 4)): rng.choice([0.02, 0.1])}
        cases.append(("early", default_case(**kw)))
    # E. retransmission: every window over small backlogs, at the end and in mid-stream
    nE = 16 if not ctx.thorough else 120
    for i in range(nE):
        nfr = rng.randrange(1, 4 * FPP)
        lat = rng.choice([1, 352, 704])
        n = -(-nfr // FPP) + -(-lat // FPP)
        seq0 = (SEQMOD - rng.randrange(0, n + 2)) % SEQMOD
        reqs = window_requests(seq0, n)
        mid = rng.randrange(1, n)
        for f in range(-1, mid + 1):
            for cnt in (1, 2, mid, mid + 2):
                reqs.append([mid, retransmit_req((seq0 + f) % SEQMOD, cnt)])
        # not a retransmit request / malformed
        reqs.append([None, struct.pack(">BBHHH", 0x80, 0xD4, 1, seq0, 2).hex()])
        reqs.append([None, struct.pack(">BBHH", 0x80, 0xD5, 1, seq0).hex()])
        reqs.append([None, retransmit_req(seq0, 2, typ=0x55)])
        reqs.append([None, (struct.pack(">BBHHH", 0x80, 0xD5, 1, seq0, 2) + b"\x00").hex()])
        reqs.append([None, "80"])
        pa, pb = rng.randrange(1, 250), rng.randrange(251)
        for proto in ("v1", "v2", "v2cipher"):
            cases.append(("retransmit", default_case(nframes=nfr, latency=lat, seq0=seq0, requests=reqs, proto=proto,
                                                     channels=1, ssize=2, pa=pa, pb=pb)))
    # F. the real latency (22050 + sample rate)
    for sr, nfr in ([(44100, 880)] if not ctx.thorough else [(44100, 880), (8000, 100), (48000, 353), (44100, 0)]):
        seq0 = SEQMOD - 100
        reqs = [[None, retransmit_req(seq0 - 5, 400)], [None, retransmit_req(SEQMOD - 2, 4)],
                [50, retransmit_req(SEQMOD - 60, 200)], [None, retransmit_req(0, 65535)]]
        for proto in ("v2cipher", "v1") if sr == 44100 and nfr == 880 else (rng.choice(["v2", "v2cipher"]),):
            cases.append(("real-latency", default_case(sample_rate=sr, latency=22050 + sr, nframes=nfr, seq0=seq0,
                                                       requests=reqs, proto=proto)))
    # I. boundary probe (outside the domain: latency is 22050 + sample rate in pyatv): the RTP time reaches 2^32
    #    and the header encoder raises struct.error - ties the model's StructError branch (theorem C16_timestamp_limit)
    for k in (1, 2):
        cases.append(("ts-limit", default_case(latency=(1 << 32) - FPP * k - 10, nframes=1500, boundary=True,
                                               seq0=rng.randrange(SEQMOD))))
    # J. several streams on ONE StreamContext (stream_file called repeatedly on one connection): every (len1, len2) in
    #    the size classes, protocols and formats rotating; the per-stream oracle applies to every stream
    sizes = [0, 2, 352, 354, 880, 1058]
    k = rng.randrange(6)
    for n1 in sizes:
        for n2 in sizes:
            k += 1
            ch, ss = FORMATS[k % 6]
            proto = ("v1", "v2", "v2cipher")[(k // 2) % 3]
            kw = dict(channels=ch, ssize=ss, nframes=n2, proto=proto, seq0=rnd_seq0(), start_ts=rng.randrange(1 << 33),
                      latency=rng.choice(lat_small), pa=rng.randrange(1, 250), pb=rng.randrange(251),
                      prev=[{"nframes": n1, "pa": rng.randrange(1, 250), "pb": rng.randrange(251),
                             "seq0": rnd_seq0(), "start_ts": rng.randrange(1 << 33),
                             "teardown_reset": k % 2 == 0}])
            if k % 5 == 0:
                n = -(-n2 // FPP) + -(-kw["latency"] // FPP)
                kw["requests"] = window_requests(kw["seq0"], min(n, 4))
            if k % 7 == 0:
                kw["delays"] = {str(rng.randrange(0, 3)): rng.choice([0.02, 0.1])}
            cases.append(("two-streams", default_case(**kw)))
    nJ = 12 if not ctx.thorough else 120
    for i in range(nJ):
        ch, ss = rng.choice([(1, 2), (2, 2), (2, 4), (2, 1)])
        prev = []
        for _ in range(rng.randrange(1, 4)):
            p = {"nframes": rng.randrange(0, 4 * FPP), "pa": rng.randrange(1, 250), "pb": rng.randrange(251),
                 "seq0": rnd_seq0(), "start_ts": rng.randrange(1 << 33), "teardown_reset": rng.random() < 0.5}
            r = rng.random()
            if r < 0.3:
                p["stop_after_lap"] = rng.randrange(0, 6)       # the earlier stream was stopped by the user
            elif r < 0.5:
                p["close_at"] = rng.randrange(0, 6)             # ... or its transport went away
            prev.append(p)
        sr = rng.choice([8000, 44100])
        cases.append(("more-streams", default_case(
            channels=ch, ssize=ss, nframes=rng.randrange(0, 4 * FPP), proto=rng.choice(["v1", "v2", "v2cipher"]),
            seq0=rnd_seq0(), start_ts=rng.randrange(1 << 33), sample_rate=sr,
            latency=rng.choice(lat_small + [22050 + sr]), pa=rng.randrange(1, 250), pb=rng.randrange(251), prev=prev)))
    # K. more than 2^16 packets: the sequence number passes its start value again.  Cheapest format (1 x 8 bit, even
    #    number of frames); on time (every packet is the main packet of its lap) and with a late source (catch-up: one
    #    main + three compensation packets per lap).  Compared with the model through the header summary (Long.v).
    longs = [(rng.randrange(SEQMOD), {}, "v1")]
    if ctx.thorough:
        longs += [(0, {}, "v2"), (SEQMOD - 1, {}, "v1"), (SEQMOD - 3, {"0": 900.0}, "v1"), (rng.randrange(SEQMOD), {"5": 900.0}, "v2"),
                  (rng.randrange(SEQMOD), {"70000": 0.5}, "v1")]
    for seq0, delays, proto in longs:
        k = rng.randrange(1, 6)
        reqs = [[None, retransmit_req((seq0 + SEQMOD + k - 3) % SEQMOD, 10)], [None, retransmit_req(seq0, 3)],
                [SEQMOD + 1, retransmit_req((seq0 + SEQMOD - 9) % SEQMOD, 20)]]
        cases.append(("wrap-long", default_case(channels=1, ssize=1, nframes=(SEQMOD + k) * FPP - 2 * rng.randrange(0, 176),
                                                latency=rng.choice([352, 704]), seq0=seq0, delays=delays, proto=proto,
                                                compact=True, requests=reqs, pa=rng.randrange(1, 250),
                                                pb=rng.randrange(251), start_ts=rng.randrange(1 << 33))))
    # L. BUFFERED sources whose producer stalls (real BufferedIOBaseSource.open on a WAV stream: seekable file object,
    #    non-seekable pipe, asyncio.StreamReader; miniaudio decoding and reads in worker threads): stall right at a
    #    packet boundary, in the middle of a packet, twice, not at all - long enough for the internal buffer to run
    #    empty while the buffering task is still running.  Same oracle as for every other case.
    bformats = [(1, 1), (1, 2), (2, 2), (1, 1), (2, 1), (1, 4), (1, 1), (2, 4)]
    nL = 0
    for kind in ("file", "pipe", "reader"):
        plans = [("boundary", 1), ("middle", 1), ("twice", 2), ("none", 0), ("before-eof", 1), ("at-eof", 1),
                 ("final-packet", 1), ("slow", 0)]
        if kind == "reader":
            plans += [("bursts-1", 0), ("bursts-7", 1), ("bursts-1000", 1)]
        if ctx.thorough:
            plans = plans * 4
        for what, nst in plans:
            ch, ss = bformats[nL % len(bformats)]
            nL += 1
            fs = ch * ss
            ps = FPP * fs
            npk = rng.randrange(90, 200) if not what.startswith("bursts-1") or what == "bursts-1000" else rng.randrange(4, 9)
            nfr = npk * FPP + 2 * rng.randrange(1, 176)
            total = nfr * fs
            spec = {"kind": kind, "stalls": []}
            at = 0
            for j in range(nst):
                at = rng.randrange(at + 2, max(at + 3, at + 2 + (npk - 3) // max(nst, 1)))
                off = at * ps + (ps // 2 if what == "middle" or (what == "twice" and j) else 0)
                if what == "before-eof":
                    off = total - rng.choice([1, 2, fs, 3 * fs])
                elif what == "at-eof":
                    off = total
                elif what == "final-packet":
                    off = total - total % ps
                spec["stalls"].append([off, rng.choice([1.0, 1.5, 3.0])])
            if what == "slow":
                # a slow producer: a short pause every few kilobytes, all the way through
                spec["stalls"] = [[o, 0.05] for o in range(3000, total, rng.choice([3000, 5000, 8000]))]
            if what.startswith("bursts-"):
                spec["max_read"] = int(what.split("-")[1])
            cases.append(("stalling-source", default_case(
                channels=ch, ssize=ss, nframes=nfr, latency=rng.choice([352, 704]), seq0=rnd_seq0(),
                start_ts=rng.randrange(1 << 33), pa=rng.randrange(1, 250), pb=rng.randrange(251),
                proto=rng.choice(["v1", "v2", "v2cipher"]), source=spec)))
    # M. send_audio twice on ONE StreamClient (its finally clears the backlog): the second stream exceeds the backlog
    #    size and its sequence numbers overlap those of the first; every one of the most recent 1000 packets must be
    #    retransmittable (one request over the whole backlog, some partial ones, one in mid-stream)
    for rep in range(1 if not ctx.thorough else 4):
        m = rng.randrange(300, 900)                 # data packets of the first stream
        extra = rng.randrange(20, 120)
        a0 = rng.randrange(SEQMOD)
        back = rng.randrange(200, 900)
        s0 = (a0 - back) % SEQMOD
        n2 = 1000 + extra + 1                       # + one silence packet
        last = (s0 + n2 - 1) % SEQMOD
        reqs = [[None, retransmit_req((last - 999) % SEQMOD, 1000)],
                [None, retransmit_req((s0 + back - 5) % SEQMOD, 200)],
                [None, retransmit_req((last - 1005) % SEQMOD, 20)],
                [1000 + extra // 2, retransmit_req((s0 + extra // 2) % SEQMOD, 1000)]]
        cases.append(("reused-client", default_case(
            channels=1, ssize=1, nframes=(1000 + extra) * FPP - 2 * rng.randrange(0, 176), latency=352, seq0=s0,
            proto=rng.choice(["v1", "v2"]), pa=rng.randrange(1, 250), pb=rng.randrange(251), requests=reqs,
            prev=[{"nframes": m * FPP, "seq0": a0, "pa": rng.randrange(1, 250), "pb": rng.randrange(251),
                   "reuse_client": True, "teardown_reset": rep % 2 == 0}])))
    # G. more than 1000 packets: the backlog evicts, requests for evicted and retained packets
    for extra in ([7] if not ctx.thorough else [0, 1, 7, 300, 1500]):
        nfr = (1000 + extra) * FPP - 5
        seq0 = SEQMOD - 500
        reqs = [[None, retransmit_req(seq0, 20)],                       # evicted (when extra + padding > 20)
                [None, retransmit_req((seq0 + extra) % SEQMOD, 12)],
                [None, retransmit_req(SEQMOD - 3, 6)],                  # spans the wrap
                [None, retransmit_req((seq0 + 990) % SEQMOD, 30)],
                [None, retransmit_req(seq0, 1100)],
                [600, retransmit_req(SEQMOD - 10, 300)]]
        for proto in (("v1", "v2cipher") if extra == 7 else ("v2",)):
            cases.append(("long", default_case(channels=1, ssize=2, nframes=nfr, latency=704, seq0=seq0, proto=proto,
                                               requests=reqs, delays={"3": 0.05, "700": 0.2})))
    for kind, c in cases:
        if kind in ("rem", "boundary", "wrap", "late", "early", "preset-order", "ts-limit"):
            c["proto"] = rng.choice(["v1", "v1", "v2", "v2cipher"])
    return cases


def small_cases(ctx):
    """Direct cases for _to_audio_samples and PacketFifo."""
    from pyatv.protocols.raop.audio_source import _to_audio_samples
    from pyatv.protocols.raop.fifo import PacketFifo
    rng = ctx.rng
    terms = []
    viols = []
    for n in range(0, 10):
        for _ in range(3):
            data = bytes(rng.randrange(256) for _ in range(n))
            try:
                r = "(Ok %s)" % common.cbytes(_to_audio_samples(data))
            except Exception as ex:
                r = "(Raise %s)" % EXN.get(type(ex).__name__, "ZeroDivisionError")
            terms.append("SmSwap %s %s" % (common.cbytes(data), r))
    for lim in range(1, 6):  # the limit is a positive constant in pyatv; limit 0 is outside the domain
        for _ in range(12 if not ctx.thorough else 60):
            ops = [rng.randrange(0, 8) for _ in range(rng.randrange(0, 9))]
            if rng.random() < 0.5:
                ops = list(dict.fromkeys(ops))
            f = PacketFifo(lim)
            raised = None
            for k in ops:
                try:
                    f[k] = bytes([k])
                except Exception as ex:
                    raised = EXN.get(type(ex).__name__, "ZeroDivisionError")
                    break
            ok = all(f[k] == bytes([k]) and k in f for k in f)
            if not ok:
                raised = "ZeroDivisionError"
            terms.append("SmFifo %s %s %s %s" % (common.cN(lim), common.clist(ops, common.cN),
                                                  common.clist(list(f), common.cN), common.copt(raised)))
        # fifo(lim) filled, cleared (what send_audio does after a stream), refilled past lim with keys that overlap the
        # earlier ones: the most recent lim keys must be there
        for _ in range(10 if not ctx.thorough else 50):
            n1 = rng.randrange(0, 2 * lim + 3)
            a0 = rng.randrange(0, 12)
            ops1 = [a0 + i for i in range(n1)]
            n2 = rng.randrange(lim, 3 * lim + 4)
            b0 = max(0, a0 + rng.randrange(-lim - 1, n1 + 2))
            ops2 = [b0 + i for i in range(n2)]
            f = PacketFifo(lim)
            raised = None
            try:
                for k in ops1:
                    f[k] = bytes([k])
                f.clear()
                for k in ops2:
                    f[k] = bytes([k])
            except Exception as ex:
                raised = EXN.get(type(ex).__name__, "ZeroDivisionError")
            keys = list(f)
            if not all(f[k] == bytes([k]) for k in keys):
                raised = "ZeroDivisionError"
            if raised is None and keys != ops2[-lim:]:
                viols.append(("C16:backlog:most-recent-lost",
                              "PacketFifo(%d): after inserting %s, clear() and inserting %s the backlog holds %s instead of "
                              "the most recent %d keys %s" % (lim, ops1, ops2, keys, lim, ops2[-lim:]),
                              {"fifo": {"limit": lim, "first": ops1, "second": ops2}}))
            terms.append("SmFifoClear %s %s %s %s %s" % (common.cN(lim), common.clist(ops1, common.cN),
                                                        common.clist(ops2, common.cN), common.clist(keys, common.cN),
                                                        common.copt(raised)))
    return terms, viols


def domain_facts(ctx):
    """Facts about the input domain that are re-checked on every run."""
    import sys
    import miniaudio
    facts = {"byteorder": sys.byteorder}
    try:
        miniaudio._array_proto_from_format(miniaudio.SampleFormat.SIGNED24)
        facts["signed24_rejected_by_miniaudio"] = False
    except miniaudio.MiniaudioError:
        facts["signed24_rejected_by_miniaudio"] = True
    return facts


# --------------------------------------------------------------------------- run

HEADER = ("From Coq Require Import List NArith ZArith. Import ListNotations.\n"
          "From PV Require Import Common.Cases C16.Model.\nOpen Scope N_scope.\n")


def case_key(case):
    return json.dumps(case, sort_keys=True)


def run(ctx):
    ctx.build_property()
    if ctx.thorough:
        ctx.coqchk()
    ctx.rule = ("real StreamClient._stream_data/_send_packet + AirPlayV1/AirPlayV2 (without and with the real ChaCha20 audio cipher) send_audio_packet + FileSource + PacketFifo + "
                "ControlClient under virtual time with fake transports; cases: every remainder of the source length "
                "modulo the packet size (0..351 frames), boundary lengths x (channels,sample size) in {1,2}x{1,2,4}, "
                "start sequence numbers around the 2^16 wrap, late-source schedules (compensation packets), closing "
                "transport / stop(), every (first,count) retransmit window over small backlogs (end and mid-stream), "
                "real latency, >1000 packets (backlog eviction), two and more consecutive streams on one StreamContext (every (len1,len2) in the size classes, earlier streams also stopped/closed early); non-trivial = at least one datagram sent; distinct by "
                "full case description")
    facts = domain_facts(ctx)
    ctx.extra["domain_facts"] = facts
    if facts["byteorder"] != "little":
        ctx.tie_broken("domain:byteorder", "model assumes a little-endian host (array.byteswap is applied)")
    if not facts["signed24_rejected_by_miniaudio"]:
        ctx.tie_broken("domain:signed24", "miniaudio now accepts SIGNED24 directly: 3-byte samples are no longer "
                                          "excluded from the domain and must be added to FORMATS")
    cases = []
    for name, d in common.load_corpus(ctx.pid):
        cases.append(("corpus:" + name, default_case(**d["case"])))
    cases += gen_cases(ctx)
    terms = []
    weights = []
    meta = []
    long_terms = []
    long_meta = []
    for kind, case in cases:
        history = run_case(case)
        ctx.traces += 1
        ctx.count(kind.split(":")[0])
        ctx.count("fmt:%dx%d" % (case["channels"], case["ssize"]))
        ctx.count("proto:" + case.get("proto", "v1"))
        ctx.count("streams-on-context:%d" % len(history))
        if case.get("source"):
            ctx.count("source:%s:%s" % (case["source"]["kind"],
                                        "bursts" if case["source"].get("max_read") else
                                        "%d-stalls" % min(len(case["source"]["stalls"]), 3)))
        for idx, (sub, ob) in enumerate(history):
            ctx.count("outcome:" + ob["outcome"])
            ctx.count("compensated" if any(b >= FPP for b in ob["behind"]) else "on-time")
            errs = oracle(sub, ob)
            for key, text in errs:
                if len(history) > 1:
                    text = "stream %d of %d on one StreamContext (%s frames): %s" % (
                        idx + 1, len(history), "+".join(str(x["nframes"]) for x, _ in history), text)
                ctx.violation(key, text, {"case": case, "stream": idx})
            if sub.get("compact"):
                term, ok = describe_long(sub, ob)
                if not ok and not errs:
                    ctx.tie_broken("correspondence:canonical-form", json.dumps({"case": case, "stream": idx}))
                long_terms.append(term)
                long_meta.append({"case": case, "stream": idx})
            elif sub.get("source") and errs:
                pass        # judged failing by the oracle; the FileSource script is not a model of this run
            elif not sub.get("via_file"):
                term, ok = describe(sub, ob)
                if not ok and not errs:
                    ctx.tie_broken("correspondence:canonical-form", json.dumps({"case": case, "stream": idx}))
                terms.append(term)
                weights.append(len(ob["src"]) + sum(len(d) for d in ob["sent"])
                               + sum(len(x) for r in ob["reqs"] for x in r["replies"]))
                meta.append({"case": case, "stream": idx})
            ctx.case((case_key(case), idx), nontrivial=len(ob["sent"]) > 0,
                     sample={"case": {k: v for k, v in case.items() if k != "requests"}, "stream": idx,
                             "requests": len(sub["requests"]), "outcome": ob["outcome"], "datagrams": len(ob["sent"]),
                             "frames_behind": ob["behind"][:8], "final": ob["final"],
                             "context_at_start": [ob["seq0"], ob["start_ts"], ob["head0"], ob["pad0"], ob["latency"]],
                             "replies": sum(len(r["replies"]) for r in ob["reqs"])})
            ctx.count("requests", len(ob["reqs"]))
    # model vs implementation inside Coq; shard by weight
    items = []
    shard, w, first = [], 0, 0
    index = {}
    budget = 600000

    def flush():
        nonlocal shard, w, first
        if shard:
            name = "cases_%03d" % len(items)
            index[name] = first
            items.append((name, HEADER + "Definition cases : list ocase := [\n%s\n].\n"
                                          "Eval vm_compute in (bad_indices check_case cases).\n" % ";\n".join(shard)))
        first += len(shard)
        shard, w = [], 0

    for t, wt in zip(terms, weights):
        if shard and (w + wt > budget or len(shard) >= 60):
            flush()
        shard.append(t)
        w += wt
    flush()
    for i, t in enumerate(long_terms):
        items.append(("long_%02d" % i, "From Coq Require Import List NArith ZArith. Import ListNotations.\n"
                      "From PV Require Import Common.Cases C16.Model C16.Long.\nOpen Scope N_scope.\n"
                      "Definition cases : list olong := [\n%s\n].\n"
                      "Eval vm_compute in (bad_indices check_long cases).\n" % t))
    sm, sm_viols = small_cases(ctx)
    for key, text, rep in sm_viols:
        ctx.violation(key, text, rep)
    for t in sm:
        ctx.case(t, nontrivial=True)
    ctx.count("small", len(sm))
    items.append(("small", HEADER + "Definition cases : list small := [\n%s\n].\n"
                                    "Eval vm_compute in (bad_indices check_small cases).\n" % ";\n".join(sm)))
    res = common.coq_run_many(items, ctx.pid, timeout=900)
    for name, (rc, out) in sorted(res.items()):
        bad = common.parse_eval_nat_list(out) if rc == 0 else None
        if bad is None:
            ctx.tie_broken("correspondence:" + name, out)
        elif bad and name.startswith("long_"):
            ctx.tie_broken("correspondence:long-stream", json.dumps(long_meta[int(name[5:])]))
        elif bad and name == "small":
            for b in bad[:5]:
                ctx.tie_broken("correspondence:small", sm[b])
        elif bad:
            for b in bad[:5]:
                ctx.tie_broken("correspondence:stream", json.dumps(meta[index[name] + b]))
    ctx.trusted += [
        "hand-written model coq/C16/Model.v of stream_client.py (_stream_data, _send_packet, _send_number_of_packets, "
        "ControlClient.datagram_received/_retransmit_lost_packets), fifo.py, AudioPacketHeader/RetransmitReqeust layouts, "
        "AirPlayV1.send_audio_packet, FileSource.readframes/_to_audio_samples; tied by the differential run in "
        "harness/c16.py evaluated in Coq by vm_compute",
        "harness/c16.py: fake transports, virtual clock substituted for time.monotonic/monotonic_ns in stream_client, "
        "recording subclass of Statistics, canonicalisation of payloads as (offset,length,padding) checked byte for byte "
        "in Python, the Python oracle",
        "harness/vloop.py virtual-time loop",
    ]
    ctx.assumptions += [
        "little-endian host (sys.byteorder, re-checked each run)",
        "the model's source is FileSource (whole frames; full packets, then the remainder, then nothing).  The source "
        "abstraction for buffered sources is 'eventually delivers all frames': readframes returning nothing means end "
        "of audio only when the producer has finished; BufferedIOBaseSource's buffering (threads, miniaudio decoding) "
        "is not modelled - it is exercised with stalling producers against the same oracle, and runs that pass are also "
        "compared with the FileSource model; InternetSource is outside",
        "3-byte samples cannot be streamed at all: miniaudio rejects SIGNED24 as a direct output format in every "
        "open_source path (re-checked each run), so (channels, sample size) ranges over {1,2} x {1,2,4}",
        "pacing (Statistics/monotonic/sleep) only decides how many packets go out per lap; the theorems hold for "
        "every schedule",
        "RTP timestamps are assumed to stay below 2^32 (about 27 h at 44.1 kHz): the header encoder raises beyond",
    ]


def replay(ctx, path):
    d = json.load(open(path))
    if "replay" in d and "fifo" in d["replay"]:
        from pyatv.protocols.raop.fifo import PacketFifo
        spec = d["replay"]["fifo"]
        f = PacketFifo(spec["limit"])
        for k in spec["first"]:
            f[k] = bytes([k])
        f.clear()
        for k in spec["second"]:
            f[k] = bytes([k])
        want = spec["second"][-spec["limit"]:]
        print("PacketFifo(%d): insert %s, clear(), insert %s -> keys %s, most recent expected %s" % (
            spec["limit"], spec["first"], spec["second"], list(f), want))
        return 0 if list(f) == want else 1
    case = default_case(**(d["replay"]["case"] if "replay" in d else d["case"]))
    history = run_case(case)
    print("case=%s" % json.dumps({k: v for k, v in case.items() if k != "requests"}, sort_keys=True))
    bad = 0
    for idx, (sub, ob) in enumerate(history):
        errs = oracle(sub, ob)
        print("stream %d/%d frames=%d context-at-start(rtpseq=%d start_ts=%d head_ts=%d padding_sent=%d latency=%d) "
              "outcome=%s datagrams=%d final=%s requests=%d" % (
                  idx + 1, len(history), sub["nframes"], ob["seq0"], ob["start_ts"], ob["head0"], ob["pad0"],
                  ob["latency"], ob["outcome"], len(ob["sent"]), ob["final"], len(ob["reqs"])))
        for k, t in errs:
            print("property-error %s: %s" % (k, t))
        bad += len(errs)
    return 1 if bad else 0
