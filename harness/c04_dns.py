"""C04 / C05 (DNS part) - pyatv/support/dns.py against coq/C04/Dns*.v.

run_part(ctx)          called by c04.py after ctx.build_property(); registers cases, violations and
                       broken ties on ctx.  Does not call build_property/finish.
replay_part(ctx, d)    re-runs one replay dict (d["part"] == "dns") against the implementation;
                       returns 1 when the property fails on it.
run_part_c05(ctx)      decoder-termination half of C05 for DNS (for c05.py): hostile inputs, each call
                       under a timeout, loop-iteration count of parse_domain_name compared with the
                       model (coq/C04/DnsModel.v steps_ok) and with the proved bound (len+1)^2.

Three independent things meet here:
  * the implementation (pyatv.support.dns), always run in a separate interpreter
    (`python c04_dns.py worker in out`), every call under a 2 s alarm;
  * the Coq model coq/C04/DnsModel.v, executed inside Coq by vm_compute on <= 500-case files;
  * a reference encoder/decoder written here from RFC 1035 (3.1, 4.1, 4.1.4), RFC 2782 (SRV) and
    RFC 6763 (4.1 instance names, 6 TXT key=value) - the Python twin of coq/C04/DnsSpec.v.  The
    encoder writes names without compression, with ordinary suffix compression, or "wild"
    (a pointer to any earlier representation of a suffix, including to an earlier pointer = chains,
    and to the root byte).

A check is a JSON dict (also the replay / corpus format):
  {"part":"dns","kind":"decode","data":hex,"expect":msg}         unpack(data) must equal expect
  {"part":"dns","kind":"encode","msg":msg}                       ref_decode(pack(msg)) == msg, bytes == ref
  {"part":"dns","kind":"roundtrip","msg":msg}                    unpack(pack(msg)) == msg
  {"part":"dns","kind":"name-rt","labels":[str],"rest":hex}      parse(qname_encode(labels)+rest)
  {"part":"dns","kind":"str-rt","name":str,"rest":hex}           parse(qname_encode(name)+rest) == name
  {"part":"dns","kind":"name-decode","data":hex,"pos":n,"expect":[str,end]}
  {"part":"dns","kind":"txt-decode","data":hex,"expect":[[key,valhex]]}
  {"part":"dns","kind":"finish","op":"name"|"unpack","data":hex,"pos":n}   must return or raise, not hang
msg = {"id","flags","qs":[[name,qtype,qclass]],"an"|"ns"|"ar":[[name,type,class,ttl,rd]]}
      name = list of labels (str);   rd = ["A","1.2.3.4"] | ["PTR",name] | ["TXT",[[key,valhex|None]]]
      | ["SRV",prio,weight,port,name] | ["RAW",hex]
"""
import json
import os
import struct
import sys
import unicodedata

PART = "dns"
CALL_TIMEOUT = 2.0

# ==========================================================================================
# Reference codec (RFC 1035 / 2782 / 6763).  Nothing here imports pyatv.
# ==========================================================================================


class RefError(Exception):
    pass


def lab_bytes(label):
    return unicodedata.normalize("NFC", label).encode("utf-8")


def ref_encode_name(labels):
    """RFC 1035 3.1: length octet + octets per label, terminated by the zero octet."""
    out = bytearray()
    for lab in labels:
        b = lab if isinstance(lab, bytes) else lab_bytes(lab)
        if not 1 <= len(b) <= 63:
            raise RefError("label length %d" % len(b))
        out.append(len(b))
        out += b
    out.append(0)
    return bytes(out)


def ref_split(name):
    """Labels of a dotted name; RFC 6763 4.1: <Instance>.<Service>.<Domain>, the instance is ONE
    label (it may contain dots), the service is `_x._tcp` or `_x._udp`."""
    if name == "":
        return []
    parts = name.split(".")
    for i in range(len(parts) - 1):
        if parts[i].startswith("_") and parts[i + 1].lower() in ("_tcp", "_udp"):
            inst = ".".join(parts[:i])
            parts = ([inst] if inst else []) + parts[i:]
            break
    if parts and parts[-1] == "":
        parts = parts[:-1]
    return parts


def ref_decode_name(buf, pos):
    """-> (labels as bytes, position after the name in place).  RFC 1035 4.1.4."""
    labels = []
    end = None
    hops = 0
    while True:
        if pos >= len(buf):
            raise RefError("name runs off the message")
        n = buf[pos]
        if n == 0:
            pos += 1
            break
        if n & 0xC0 == 0xC0:
            if pos + 1 >= len(buf):
                raise RefError("pointer runs off the message")
            target = ((n & 0x3F) << 8) | buf[pos + 1]
            if end is None:
                end = pos + 2
            hops += 1
            if hops > len(buf):
                raise RefError("pointer loop")
            pos = target
            continue
        if n & 0xC0:
            raise RefError("reserved label type")
        if pos + 1 + n > len(buf):
            raise RefError("label runs off the message")
        labels.append(bytes(buf[pos + 1:pos + 1 + n]))
        pos += 1 + n
    return labels, (pos if end is None else end)


def ref_txt_encode(entries):
    """RFC 6763 6: one character-string per attribute, `key=value` or `key` alone."""
    out = bytearray()
    for key, val in entries:
        chunk = key.encode("ascii") if val is None else key.encode("ascii") + b"=" + bytes.fromhex(val)
        if len(chunk) > 255:
            raise RefError("txt chunk too long")
        out.append(len(chunk))
        out += chunk
    return bytes(out)


def ref_txt_decode(data):
    """-> {lower-case key: value}; attribute without '=' has the empty value; first occurrence wins;
    strings starting with '=' and the empty string are ignored (RFC 6763 6.1, 6.4)."""
    out = {}
    pos = 0
    while pos < len(data):
        n = data[pos]
        if pos + 1 + n > len(data):
            raise RefError("txt string runs off the record")
        chunk = bytes(data[pos + 1:pos + 1 + n])
        pos += 1 + n
        if not chunk:
            continue
        key, eq, val = chunk.partition(b"=")
        if not key:
            continue
        try:
            k = key.decode("ascii").lower()
        except UnicodeDecodeError:
            continue
        out.setdefault(k, val)
    return out


class RefEnc:
    """Message writer.  mode: 'plain' | 'compress' | 'wild'."""

    def __init__(self, mode="plain", rng=None):
        self.b = bytearray()
        self.mode = mode
        self.rng = rng
        self.table = {}     # suffix (tuple of label bytes) -> offsets where a representation starts
        self.pointers = 0
        self.chains = 0
        self.ptr_locs = set()
        self.name_starts = []

    def _reg(self, suffix, off):
        if off < 0x4000:
            self.table.setdefault(tuple(suffix), []).append(off)

    def name(self, labels):
        labs = [lab if isinstance(lab, bytes) else lab_bytes(lab) for lab in labels]
        self.name_starts.append(len(self.b))
        cut, target = len(labs), None
        if self.mode == "compress":
            for i in range(len(labs)):
                if tuple(labs[i:]) in self.table:
                    cut, target = i, self.table[tuple(labs[i:])][0]
                    break
        elif self.mode == "wild":
            cand = [i for i in range(len(labs) + 1) if tuple(labs[i:]) in self.table]
            if cand and self.rng.random() < 0.8:
                cut = self.rng.choice(cand)
                target = self.rng.choice(self.table[tuple(labs[cut:])])
        for i in range(cut):
            if not 1 <= len(labs[i]) <= 63:
                raise RefError("label length")
            self._reg(labs[i:], len(self.b))
            self.b.append(len(labs[i]))
            self.b += labs[i]
        if target is None:
            self._reg((), len(self.b))
            self.b.append(0)
        else:
            here = len(self.b)
            if target in self.ptr_locs:
                self.chains += 1
            self.ptr_locs.add(here)
            self._reg(labs[cut:], here)
            self.pointers += 1
            self.b += struct.pack(">H", 0xC000 | target)

    def u16(self, v):
        self.b += struct.pack(">H", v)

    def u32(self, v):
        self.b += struct.pack(">I", v)

    def rdata(self, rd):
        k = rd[0]
        if k == "A":
            self.b += bytes(int(x) for x in rd[1].split("."))
        elif k == "PTR":
            self.name(rd[1])
        elif k == "TXT":
            self.b += ref_txt_encode(rd[1])
        elif k == "SRV":
            self.u16(rd[1]); self.u16(rd[2]); self.u16(rd[3])
            self.name(rd[4])
        else:
            self.b += bytes.fromhex(rd[1])

    def record(self, r):
        name, typ, cls, ttl, rd = r
        self.name(name)
        self.u16(typ); self.u16(cls); self.u32(ttl)
        at = len(self.b)
        self.u16(0)
        self.rdata(rd)
        n = len(self.b) - at - 2
        if n > 0xFFFF:
            raise RefError("rdata too long")
        self.b[at:at + 2] = struct.pack(">H", n)
        return n

    def message(self, m):
        """-> (bytes, rd_lengths per section)"""
        self.u16(m["id"]); self.u16(m["flags"])
        for s in ("qs", "an", "ns", "ar"):
            self.u16(len(m[s]))
        for name, typ, cls in m["qs"]:
            self.name(name)
            self.u16(typ); self.u16(cls)
        lens = {}
        for s in ("an", "ns", "ar"):
            lens[s] = [self.record(r) for r in m[s]]
        return bytes(self.b), lens


def ref_decode_message(buf):
    """-> msg in neutral form with every record as [labels(bytes), type, class, ttl, rdlen, rdata],
    rdata typed by the RR type: 1 A, 12 PTR, 16 TXT, 33 SRV, everything else RAW."""
    if len(buf) < 12:
        raise RefError("short header")
    ident, flags, nq, nan, nns, nar = struct.unpack(">6H", buf[:12])
    pos = 12
    out = {"id": ident, "flags": flags, "qs": [], "an": [], "ns": [], "ar": []}
    for _ in range(nq):
        labels, pos = ref_decode_name(buf, pos)
        if pos + 4 > len(buf):
            raise RefError("short question")
        typ, cls = struct.unpack(">2H", buf[pos:pos + 4])
        pos += 4
        out["qs"].append([labels, typ, cls])
    for s, n in (("an", nan), ("ns", nns), ("ar", nar)):
        for _ in range(n):
            labels, pos = ref_decode_name(buf, pos)
            if pos + 10 > len(buf):
                raise RefError("short record")
            typ, cls, ttl, rdlen = struct.unpack(">2HIH", buf[pos:pos + 10])
            pos += 10
            if pos + rdlen > len(buf):
                raise RefError("rdata runs off the message")
            raw = bytes(buf[pos:pos + rdlen])
            if typ == 1 and rdlen == 4:
                rd = ["A", ".".join(str(x) for x in raw)]
            elif typ == 12:
                tl, e = ref_decode_name(buf, pos)
                if e != pos + rdlen:
                    raise RefError("PTR rdata length")
                rd = ["PTR", tl]
            elif typ == 16:
                rd = ["TXTD", ref_txt_decode(raw)]
            elif typ == 33:
                if rdlen < 7:
                    raise RefError("short SRV")
                p, w, port = struct.unpack(">3H", raw[:6])
                tl, e = ref_decode_name(buf, pos + 6)
                if e != pos + rdlen:
                    raise RefError("SRV rdata length")
                rd = ["SRV", p, w, port, tl]
            else:
                rd = ["RAW", raw.hex()]
            pos += rdlen
            out[s].append([labels, typ, cls, ttl, rdlen, rd])
    return out


# ==========================================================================================
# Values: what a message means (the reference point of every oracle)
# ==========================================================================================

def dotted(labels):
    return ".".join(unicodedata.normalize("NFC", x) for x in labels)


def expected_observation(m, lens):
    """What unpack must return for the message value m (rd lengths from the reference writer)."""
    def rdx(rd):
        k = rd[0]
        if k == "A":
            return ["A", rd[1]]
        if k == "PTR":
            return ["PTR", dotted(rd[1])]
        if k == "TXT":
            d = {}
            for key, val in rd[1]:
                d[key.lower()] = val or ""
            return ["TXT", sorted([k2, v] for k2, v in d.items())]
        if k == "SRV":
            return ["SRV", rd[1], rd[2], rd[3], dotted(rd[4])]
        return ["RAW", rd[1]]
    out = {"id": m["id"], "flags": m["flags"],
           "qs": [[dotted(n), t, c] for n, t, c in m["qs"]]}
    for s in ("an", "ns", "ar"):
        out[s] = [[dotted(n), t, c, ttl, ln, rdx(rd)] for (n, t, c, ttl, rd), ln in zip(m[s], lens[s])]
    return out


def norm_observation(o):
    """Observation from the worker -> comparable form (TXT order-insensitive)."""
    out = {"id": o["id"], "flags": o["flags"], "qs": o["qs"]}
    for s in ("an", "ns", "ar"):
        rs = []
        for n, t, c, ttl, ln, rd in o[s]:
            if rd[0] == "TXT":
                rd = ["TXT", sorted(rd[1])]
            rs.append([n, t, c, ttl, ln, rd])
        out[s] = rs
    return out


def refdecoded_to_observation(d):
    """Reference decoding of a message -> the same comparable form."""
    def nm(labels):
        return ".".join(x.decode("utf-8") for x in labels)
    out = {"id": d["id"], "flags": d["flags"], "qs": [[nm(n), t, c] for n, t, c in d["qs"]]}
    for s in ("an", "ns", "ar"):
        rs = []
        for n, t, c, ttl, ln, rd in d[s]:
            if rd[0] == "PTR":
                rd = ["PTR", nm(rd[1])]
            elif rd[0] == "SRV":
                rd = rd[:4] + [nm(rd[4])]
            elif rd[0] == "TXTD":
                rd = ["TXT", sorted([k, v.hex()] for k, v in rd[1].items())]
            rs.append([nm(n), t, c, ttl, ln, rd])
        out[s] = rs
    return out


def first_diff(a, b, path=""):
    if type(a) != type(b):
        return "%s: %r != %r" % (path, a, b)
    if isinstance(a, dict):
        for k in sorted(set(a) | set(b)):
            if k not in a or k not in b:
                return "%s.%s missing" % (path, k)
            d = first_diff(a[k], b[k], path + "." + k)
            if d:
                return d
        return None
    if isinstance(a, list):
        if len(a) != len(b):
            return "%s: length %d != %d" % (path, len(a), len(b))
        for i, (x, y) in enumerate(zip(a, b)):
            d = first_diff(x, y, "%s[%d]" % (path, i))
            if d:
                return d
        return None
    return None if a == b else "%s: %r != %r" % (path, a, b)


# ==========================================================================================
# Worker: the implementation, in its own interpreter
# ==========================================================================================

ERRMAP = {"error": "EStruct", "AssertionError": "EAssert", "ValueError": "EValue",
          "UnicodeDecodeError": "EUnicode", "AddressValueError": "EAddr", "TypeError": "EType"}


def worker_main(inp, outp):
    import io
    import logging
    import signal

    from pyatv.support import dns
    from pyatv.support.collections import CaseInsensitiveDict

    logging.disable(logging.CRITICAL)

    class Hang(BaseException):
        pass

    def on_alarm(signum, frame):
        raise Hang()

    signal.signal(signal.SIGALRM, on_alarm)
    iters = [0]

    def prof(frame, event, arg):
        if event == "call" and frame.f_code.co_name == "unpack_stream":
            back = frame.f_back
            if back is not None and back.f_code.co_name == "parse_domain_name":
                iters[0] += 1

    def obs_rd(qtype, rd):
        if isinstance(rd, CaseInsensitiveDict):
            return ["TXT", [[k, bytes(v).hex()] for k, v in rd.items()]]
        if isinstance(rd, dict):
            return ["SRV", rd["priority"], rd["weight"], rd["port"], rd["target"]]
        if isinstance(rd, (bytes, bytearray)):
            return ["RAW", bytes(rd).hex()]
        if isinstance(rd, str):
            return ["A" if int(qtype) == 1 else "PTR", rd]
        return ["?", repr(rd)]

    def obs_msg(m):
        out = {"id": m.msg_id, "flags": m.flags,
               "qs": [[q.qname, int(q.qtype), q.qclass] for q in m.questions]}
        for s, rs in (("an", m.answers), ("ns", m.authorities), ("ar", m.resources)):
            out[s] = [[r.qname, int(r.qtype), r.qclass, r.ttl, r.rd_length, obs_rd(r.qtype, r.rd)] for r in rs]
        return out

    def build_msg(v):
        # a name is a dotted str or a sequence of labels (JSON list; a tuple when v["tuple"])
        def nm(n):
            return tuple(n) if (isinstance(n, list) and v.get("tuple")) else n
        m = dns.DnsMessage(v["id"], v["flags"])
        for n, t, c in v["qs"]:
            m.questions.append(dns.DnsQuestion(nm(n), t, c))
        for s, dst in (("an", m.answers), ("ns", m.authorities), ("ar", m.resources)):
            for n, t, c, ttl, rd in v[s]:
                if rd[0] == "RAW":
                    val = bytes.fromhex(rd[1])
                elif rd[0] == "PTR":
                    val = nm(rd[1])
                else:
                    raise TypeError("unsupported rd for pack")
                dst.append(dns.DnsResource(nm(n), t, c, ttl, 0, val))
        return m

    def do(job):
        op = job["op"]
        if op == "name":
            buf = io.BytesIO(bytes.fromhex(job["data"]))
            buf.seek(job["pos"])
            r = dns.parse_domain_name(buf)
            return [r.encode("utf-8", "surrogatepass").hex(), buf.tell()]
        if op == "qenc":
            return bytes(dns.qname_encode([bytes.fromhex(x).decode("utf-8") for x in job["labels"]])).hex()
        if op == "qencs":
            return bytes(dns.qname_encode(bytes.fromhex(job["s"]).decode("utf-8"))).hex()
        if op == "name_rt":
            arg = job["labels"] if "labels" in job else job["name"]
            if job.get("seq") == "tuple":
                arg = tuple(arg)
            enc = bytes(dns.qname_encode(arg))
            buf = io.BytesIO(enc + bytes.fromhex(job["rest"]))
            r = dns.parse_domain_name(buf)
            return [r, buf.tell(), enc.hex()]
        if op == "txt":
            data = bytes.fromhex(job["data"])
            buf = io.BytesIO(data)
            buf.seek(job["pos"])
            r = dns.parse_txt_dict(buf, job["len"])
            return [[[k, bytes(v).hex()] for k, v in r.items()], buf.tell()]
        if op == "unpack":
            return obs_msg(dns.DnsMessage().unpack(bytes.fromhex(job["data"])))
        if op == "pack":
            return bytes(build_msg(job["msg"]).pack()).hex()
        if op == "rt":
            packed = bytes(build_msg(job["msg"]).pack())
            return {"packed": packed.hex(), "msg": obs_msg(dns.DnsMessage().unpack(packed))}
        raise RuntimeError("unknown op " + op)

    jobs = json.load(open(inp))
    res = []
    hangs = 0
    for job in jobs:
        if hangs >= 3:          # enough evidence; do not spend 2 s on each of the remaining inputs
            res.append({"skipped": True})
            continue
        iters[0] = 0
        r = {}
        signal.setitimer(signal.ITIMER_REAL, CALL_TIMEOUT)
        try:
            if job.get("count"):
                sys.setprofile(prof)
            try:
                r["ok"] = do(job)
            finally:
                sys.setprofile(None)
                signal.setitimer(signal.ITIMER_REAL, 0)
        except Hang:
            r["hang"] = True
            hangs += 1
        except Exception as ex:  # pylint: disable=broad-except
            signal.setitimer(signal.ITIMER_REAL, 0)
            n = type(ex).__name__
            r["err"] = ERRMAP.get(n, "Other:" + n)
            r["exc"] = (n + ": " + str(ex))[:160]
        if job.get("count"):
            r["iters"] = iters[0]
        res.append(r)
    with open(outp, "w") as f:
        json.dump(res, f)


def run_worker(jobs, tag="w"):
    """Run the jobs against the implementation under test; None when the worker died."""
    import tempfile

    import common
    os.makedirs(common.BUILD, exist_ok=True)
    d = tempfile.mkdtemp(dir=common.BUILD, prefix="dns_")
    try:
        inp, outp = os.path.join(d, "in.json"), os.path.join(d, "out.json")
        with open(inp, "w") as f:
            json.dump(jobs, f)
        budget = 120 + int(len(jobs) * 0.05)
        rc, out = common.impl_python(os.path.abspath(__file__), ["worker", inp, outp], timeout=budget)
        if rc != 0 or not os.path.exists(outp):
            return None, "worker rc=%s: %s" % (rc, out[-800:])
        return json.load(open(outp)), ""
    finally:
        import shutil
        shutil.rmtree(d, ignore_errors=True)


# ==========================================================================================
# Checks -> jobs -> verdicts
# ==========================================================================================

def msg_for_pack(m, names_as="nfc"):
    """Message value (labels) -> what the worker builds.  names_as: "nfc" = dotted strs, NFC (what the
    Coq model is given); "str" = dotted strs, text exactly as generated (possibly decomposed);
    "list" / "tuple" = every name as a sequence of labels, text exactly as generated."""
    if names_as == "nfc":
        nm = dotted
    elif names_as == "str":
        nm = ".".join
    else:
        nm = list
    out = {"id": m["id"], "flags": m["flags"], "qs": [[nm(n), t, c] for n, t, c in m["qs"]]}
    for s in ("an", "ns", "ar"):
        rs = []
        for n, t, c, ttl, rd in m[s]:
            rs.append([nm(n), t, c, ttl, ["PTR", nm(rd[1])] if rd[0] == "PTR" else rd])
        out[s] = rs
    if names_as == "tuple":
        out["tuple"] = True
    return out


def jobs_for(chk):
    k = chk["kind"]
    if k == "decode":
        return [{"op": "unpack", "data": chk["data"]}]
    if k == "encode":
        return [{"op": "pack", "msg": msg_for_pack(chk["msg"], chk.get("names_as", "str"))}]
    if k == "roundtrip":
        return [{"op": "rt", "msg": msg_for_pack(chk["msg"], chk.get("names_as", "str"))}]
    if k == "name-rt":
        return [{"op": "name_rt", "labels": chk["labels"], "rest": chk["rest"], "seq": chk.get("seq", "list")}]
    if k == "str-rt":
        return [{"op": "name_rt", "name": chk["name"], "rest": chk["rest"]}]
    if k == "name-decode":
        return [{"op": "name", "data": chk["data"], "pos": chk["pos"], "count": True}]
    if k == "txt-decode":
        return [{"op": "txt", "data": chk["data"], "pos": 0, "len": len(chk["data"]) // 2}]
    if k == "finish":
        if chk["op"] == "name":
            return [{"op": "name", "data": chk["data"], "pos": chk.get("pos", 0), "count": True}]
        return [{"op": "unpack", "data": chk["data"], "count": True}]
    raise ValueError("unknown check kind " + k)


def outcome(r):
    return r.get("err") or ("hang" if "hang" in r else "skipped" if "skipped" in r else "ok")


def bad(r):
    if "hang" in r:
        return "the call did not return within %.0f s" % CALL_TIMEOUT
    if "err" in r:
        return "raised " + r.get("exc", r["err"])
    return None


def judge(chk, rs):
    """-> list of (key, what).  The property judged on what the implementation did."""
    k = chk["kind"]
    r = rs[0]
    out = []
    if "skipped" in r:
        return []
    if "hang" in r:
        key = "C05:dns:pointer-loop" if chk.get("c05") else "C04:dns:decoder-hangs"
        return [(key, "%s on %s did not return within %.0f s (%d bytes)" % (
            chk.get("op", k), chk.get("data", "")[:80], CALL_TIMEOUT, len(chk.get("data", "")) // 2))]
    if k == "finish":
        return []
    if k == "decode":
        why = bad(r) or first_diff(norm_observation(r["ok"]), chk["expect"])
        if why:
            out.append((chk.get("key", "C04:dns:decode-mismatch"),
                        "unpack of a message written by the reference encoder: " + why))
    elif k == "encode":
        m = chk["msg"]
        why = bad(r)
        if not why:
            got = bytes.fromhex(r["ok"])
            ref, lens = RefEnc("plain").message(m)
            try:
                dec = refdecoded_to_observation(ref_decode_message(got))
                why = first_diff(dec, expected_observation(m, lens))
            except (RefError, UnicodeDecodeError) as ex:
                why = "reference decoder rejects the bytes: %s" % ex
            if not why and got != ref:
                why = "bytes differ from the uncompressed RFC 1035 encoding: %s != %s" % (got.hex()[:120], ref.hex()[:120])
        if why:
            out.append(("C04:dns:encode-mismatch", "pack: " + why))
    elif k == "roundtrip":
        m = chk["msg"]
        why = bad(r)
        if not why:
            _, lens = RefEnc("plain").message(m)
            why = first_diff(norm_observation(r["ok"]["msg"]), expected_observation(m, lens))
        if why:
            out.append(("C04:dns:roundtrip", "unpack(pack(m)) != m: " + why))
    elif k in ("name-rt", "str-rt"):
        why = bad(r)
        if not why:
            name, tell, enc = r["ok"]
            if k == "name-rt":
                labels = chk["labels"]
                if labels and labels[-1] == "":         # already rooted: the root label is not repeated
                    labels = labels[:-1]
            else:
                labels = ref_split(chk["name"])
            want = dotted(labels)
            ref = ref_encode_name(labels)                 # NFC per label (RFC 6763 4.1.3), UTF-8, RFC 1035 3.1
            if enc != ref.hex():
                out.append(("C04:dns:encode-mismatch", "qname_encode(%s) differs from the RFC 1035 3.1 / RFC 6763 4.1.3 (NFC) encoding: %s != %s" % (
                    chk.get("seq", "list") if k == "name-rt" else "str", enc[:120], ref.hex()[:120])))
            if name != want:
                why = "name %r != %r" % (name, want)
            elif tell != len(enc) // 2:
                why = "stream position %d, name ends at %d" % (tell, len(enc) // 2)
        if why:
            out.append(("C04:dns:roundtrip", "parse_domain_name(qname_encode(x) + rest): " + why))
    elif k == "name-decode":
        why = bad(r)
        if not why:
            got = [bytes.fromhex(r["ok"][0]).decode("utf-8", "replace"), r["ok"][1]]
            if got != chk["expect"]:
                why = "%r != %r" % (got, chk["expect"])
        if why:
            out.append(("C04:dns:decode-mismatch", "parse_domain_name at offset %d: %s" % (chk["pos"], why)))
    elif k == "txt-decode":
        why = bad(r)
        if not why:
            got = sorted(r["ok"][0])
            if got != sorted(chk["expect"]):
                why = "%r != %r" % (got, sorted(chk["expect"]))
            elif r["ok"][1] != len(chk["data"]) // 2:
                why = "stream position %d after a %d byte record" % (r["ok"][1], len(chk["data"]) // 2)
        if why:
            out.append((chk.get("key", "C04:dns:decode-mismatch"), "parse_txt_dict: " + why))
    return out


# ==========================================================================================
# Generators (everything from ctx.rng)
# ==========================================================================================

ASCII = "abcdefghijklmnopqrstuvwxyzABCDEFGHIJKLMNOPQRSTUVWXYZ0123456789-"
WIDE = ["é", "ü", "ß", "ñ", "日", "本", "語", "Ω", "ж",
        "\U0001F600", "\U0001D11E", "’", " ", "_", "Å", "ก",
        "ö", "ç", "が", "ぎ", "\uac00", "\u1ec7", "\u01d6"]      # the last rows have canonical decompositions
FORMS = ("nfc", "nfd", "mixed")


def reform(rng, s, form):
    """The same text (canonically equivalent, so the same NFC) written composed, fully decomposed,
    or mixed: per character composed / decomposed / a singleton equivalent (ANGSTROM SIGN, OHM SIGN)."""
    if form == "nfc":
        return s
    if form == "nfd":
        return unicodedata.normalize("NFD", s)
    out = []
    for ch in s:
        r = rng.random()
        if r < 0.5:
            out.append(unicodedata.normalize("NFD", ch))
        elif ch == "Å" and r < 0.8:
            out.append("\u212b")
        elif ch == "Ω" and r < 0.8:
            out.append("\u2126")
        else:
            out.append(ch)
    return "".join(out)


def reform_msg(rng, m, form):
    """Every name of a message value rewritten in the given form."""
    def nm(n):
        return [reform(rng, x, form) for x in n]
    out = dict(m, qs=[[nm(n), t, c] for n, t, c in m["qs"]])
    for s in ("an", "ns", "ar"):
        out[s] = [[nm(n), t, c, ttl, (rd[:-1] + [nm(rd[-1])] if rd[0] in ("PTR", "SRV") else rd)] for n, t, c, ttl, rd in m[s]]
    return out


def gen_label(rng, maxlen=63, dots=False):
    """A label of 1..maxlen UTF-8 bytes, NFC, not starting with '_' or 'xn--'."""
    want = rng.choice([1, 2, 3, 4, 5, 7, 12, 20, 62, 63, 63, rng.randint(1, 63)])
    want = max(1, min(want, maxlen))
    wide = rng.random() < 0.35
    s = rng.choice(ASCII[:52])
    while True:
        ch = rng.choice(WIDE) if (wide and rng.random() < 0.5) else rng.choice(ASCII)
        if dots and rng.random() < 0.1:
            ch = "."
        if len((s + ch).encode("utf-8")) > want:
            break
        s += ch
    while len(s.encode("utf-8")) < want:
        s += rng.choice(ASCII)
    s = unicodedata.normalize("NFC", s)
    if s.lower().startswith("xn--") or not 1 <= len(s.encode("utf-8")) <= maxlen:
        return "a" * want
    return s


DOMAINS = [["local"], ["example", "com"], ["local"], []]
SERVICES = ["_airplay", "_raop", "_companion-link", "_mediaremotetv", "_touch-able", "_hap", "_x"]


def gen_name(rng, pool=None):
    """-> list of labels (str).  Shapes seen on the wire: host names, service types, instances."""
    if pool and rng.random() < 0.45:
        base = rng.choice(pool)
        cut = rng.randint(0, len(base))
        extra = [gen_label(rng, rng.choice([8, 63]))] if rng.random() < 0.5 else []
        n = extra + base[cut:]
    else:
        k = rng.random()
        if k < 0.08:
            n = []
        elif k < 0.4:
            n = [gen_label(rng) for _ in range(rng.randint(1, 4))]
        elif k < 0.7:
            n = [rng.choice(SERVICES), rng.choice(["_tcp", "_udp"])] + rng.choice(DOMAINS[:3])
        else:
            n = [gen_label(rng, dots=True), rng.choice(SERVICES), rng.choice(["_tcp", "_udp", "_TCP"])] + rng.choice(DOMAINS[:3])
    if sum(len(lab_bytes(x)) + 1 for x in n) > 200:
        n = n[-2:]
    if pool is not None:
        pool.append(n)
    return n


def name_ok_for_str(n):
    """The dotted form splits back into the same labels (reference splitter)."""
    return ref_split(dotted(n)) == [unicodedata.normalize("NFC", x) for x in n]


def gen_txt(rng):
    ents, seen = [], set()
    for _ in range(rng.choice([1, 1, 2, 3, 6])):
        key = "".join(rng.choice("abcdefXYZ019-_ ~") for _ in range(rng.choice([1, 2, 5, 9])))
        if key.lower() in seen:
            continue
        seen.add(key.lower())
        r = rng.random()
        if r < 0.15:
            val = None
        elif r < 0.3:
            val = ""
        else:
            n = rng.choice([1, 3, 8, 40, 255 - len(key) - 1])
            val = bytes(rng.choice([61, 0, 255, 65, 0xC0, rng.randrange(256)]) for _ in range(n)).hex()
        ents.append([key, val])
    return ents


def gen_rdata(rng, pool, kinds):
    k = rng.choice(kinds)
    if k == "A":
        return 1, ["A", ".".join(str(rng.choice([0, 1, 10, 192, 255, rng.randrange(256)])) for _ in range(4))]
    if k == "PTR":
        return 12, ["PTR", gen_name(rng, pool)]
    if k == "TXT":
        return 16, ["TXT", gen_txt(rng)]
    if k == "SRV":
        return 33, ["SRV", rng.choice([0, 1, 65535]), rng.randrange(65536), rng.choice([7000, 49152, 0, 65535]),
                    gen_name(rng, pool)]
    typ = rng.choice([28, 47, 255, 2, 5, 6, 41, 99, 65535, 0])
    return typ, ["RAW", bytes(rng.randrange(256) for _ in range(rng.choice([0, 1, 4, 16, 33]))).hex()]


def gen_message(rng, symmetric=False, big=False):
    """symmetric: only what DnsMessage.pack writes the way unpack reads it back
    (questions, PTR answers, raw authorities/additionals of types without a structured parser)."""
    pool = []
    m = {"id": rng.choice([0, 0x35FF, 0xFFFF, rng.randrange(65536)]),
         "flags": rng.choice([0, 0x0120, 0x8400, rng.randrange(65536)]),
         "qs": [], "an": [], "ns": [], "ar": []}
    nq = rng.choice([0, 1, 1, 2, 4]) if not big else rng.randint(3, 8)
    for _ in range(nq):
        m["qs"].append([gen_name(rng, pool), rng.choice([1, 12, 16, 33, 255, 28]), rng.choice([1, 0x8001])])
    for s in ("an", "ns", "ar"):
        n = rng.choice([0, 0, 1, 2, 3]) if not big else rng.randint(2, 7)
        for _ in range(n):
            if symmetric:
                if s == "an":
                    typ, rd = gen_rdata(rng, pool, ["PTR"])
                else:
                    typ, rd = gen_rdata(rng, pool, ["RAW"])
            else:
                typ, rd = gen_rdata(rng, pool, ["A", "PTR", "PTR", "TXT", "SRV", "RAW"])
            m[s].append([gen_name(rng, pool), typ, rng.choice([1, 0x8001]),
                         rng.choice([0, 120, 4500, 0xFFFFFFFF]), rd])
    if symmetric:
        def fix(n):
            return n if name_ok_for_str(n) else ["h" + str(len(n)), "local"]
        m["qs"] = [[fix(n), t, c] for n, t, c in m["qs"]]
        for s in ("an", "ns", "ar"):
            m[s] = [[fix(n), t, c, ttl, (["PTR", fix(rd[1])] if rd[0] == "PTR" else rd)] for n, t, c, ttl, rd in m[s]]
    return m


def mutate(rng, data, starts=()):
    """Hostile variants of a valid message: every kind the decoder has a branch for.  `starts` are
    the offsets at which names begin, so that pointers and flags land where a length octet is read."""
    b = bytearray(data)
    k = rng.randrange(11)

    def spot(room):
        cand = [x for x in starts if x + room <= len(b)]
        if cand and rng.random() < 0.8:
            return rng.choice(cand)
        return rng.randrange(12, max(13, len(b) - room + 1))

    if k == 0 and len(b) > 1:                                   # truncation
        return "truncate", bytes(b[:rng.randrange(len(b))])
    if k in (1, 9) and len(b) > 18:                             # pointer loop of length 1..3
        n = rng.randint(1, 3)
        at = spot(2 * n)
        locs = [at + 2 * i for i in range(n)]
        for i, loc in enumerate(locs):
            tgt = locs[(i + 1) % n]
            b[loc:loc + 2] = struct.pack(">H", 0xC000 | tgt)
        return "loop%d" % n, bytes(b)
    if k == 2 and len(b) > 14:                                  # forward / far / self+1 pointer
        at = spot(2)
        tgt = rng.choice([rng.randrange(at, len(b) + 3), 0x3FFF, len(b), at + 2, at + 1] + list(starts))
        b[at:at + 2] = struct.pack(">H", 0xC000 | (tgt & 0x3FFF))
        return "fwdptr", bytes(b)
    if k == 3 and len(b) > 13:                                  # reserved length flags 01 / 10
        at = spot(1)
        b[at] = rng.choice([0x40, 0x80]) | rng.randrange(64)
        return "reserved", bytes(b)
    if k == 4:                                                  # counts
        at = rng.choice([4, 6, 8, 10])
        b[at:at + 2] = struct.pack(">H", rng.choice([0xFFFF, 1, 2, 7, 300]))
        return "count", bytes(b)
    if k == 5 and len(b) > 13:                                  # byte flips
        for _ in range(rng.randint(1, 3)):
            b[rng.randrange(12, len(b))] = rng.choice([0, 1, 3, 0x3F, 0x40, 0xC0, 0xFF, rng.randrange(256)])
        return "flip", bytes(b)
    if k == 6 and len(b) > 13:                                  # invalid UTF-8 inside
        at = rng.randrange(12, len(b))
        b[at] = rng.choice([0x80, 0xC0, 0xED, 0xF5, 0xFF])
        return "utf8", bytes(b)
    if k == 7 and len(b) > 13:                                  # insert / delete a byte (lengths shift)
        at = rng.randrange(12, len(b))
        if rng.random() < 0.5:
            del b[at]
        else:
            b.insert(at, rng.choice([0, 1, 0xC0, 5]))
        return "shift", bytes(b)
    if k == 8:                                                  # small alphabet noise
        n = rng.randint(0, 20)
        return "noise", bytes(b[:12]) + bytes(rng.choice([0, 1, 2, 3, 0x0C, 0x10, 0x21, 0xC0, 0x0C, 0xFF, 0x61]) for _ in range(n))
    if k == 10 and len(b) > 13:                                 # label length octet off by a little
        at = spot(1)
        b[at] = max(0, min(63, b[at] + rng.choice([-2, -1, 1, 2, 30]))) if b[at] < 64 else rng.randrange(64)
        return "lablen", bytes(b)
    return "tail", bytes(b) + bytes(rng.randrange(256) for _ in range(rng.randint(1, 4)))


def hostile_names(rng, n):
    """(data, pos) for parse_domain_name alone: loops, chains, forward pointers, truncations."""
    out = []
    # the pre-fix hang witness and its relatives
    out.append(("loop1", bytes(12) + b"\xc0\x0c", 12))
    out.append(("loop2", bytes(12) + b"\xc0\x0e\xc0\x0c", 12))
    out.append(("loop3", bytes(12) + b"\xc0\x0e\xc0\x10\xc0\x0c", 12))
    out.append(("loop-label", b"\x01a\xc0\x00", 0))
    out.append(("loop-label2", b"\x01a\xc0\x05\x00\x01b\xc0\x00", 0))
    # a long acyclic chain: pointer i -> pointer i-1 -> ... -> root
    chain = bytearray(b"\x00")
    for i in range(60):
        chain += struct.pack(">H", 0xC000 | (0 if i == 0 else 1 + 2 * (i - 1)))
    out.append(("chain60", bytes(chain), len(chain) - 2))
    # many labels then a pointer back into the middle (quadratic-looking shapes)
    lab = bytearray()
    for i in range(40):
        lab += b"\x01a"
    lab += b"\xc0\x02"
    out.append(("labels-loop", bytes(lab), 0))
    for _ in range(n):
        k = rng.randrange(5)
        ln = rng.randint(1, 40)
        if k == 0:     # random over the structural alphabet
            data = bytes(rng.choice([0, 1, 2, 0x3F, 0x40, 0x80, 0xC0, 0xC0, 0x61, 0x2E, 0xFF, rng.randrange(ln + 2)]) for _ in range(ln))
        elif k == 1:   # pointers everywhere
            data = b"".join(struct.pack(">H", 0xC000 | rng.randrange(0, 2 * ln + 2)) for _ in range(ln))
        elif k == 2:   # valid name with a corrupted byte
            nm = bytearray(ref_encode_name([gen_label(rng, 10) for _ in range(rng.randint(1, 4))]))
            nm[rng.randrange(len(nm))] = rng.choice([0, 0xC0, 0x40, 0xFF, 0x3F])
            data = bytes(nm)
        elif k == 3:   # one-byte labels and pointers interleaved
            data = b"".join(rng.choice([b"\x01a", b"\x01a", struct.pack(">H", 0xC000 | rng.randrange(0, 2 * ln))]) for _ in range(ln)) + b"\x00"
        else:
            data = bytes(rng.randrange(256) for _ in range(ln))
        out.append(("rand%d" % k, data, rng.randrange(len(data) + 1) if rng.random() < 0.5 else 0))
    return out


# ==========================================================================================
# Coq side
# ==========================================================================================

def coq_bytes(b):
    return "[" + ";".join(str(x) for x in b) + "]%N"


def coq_packed(b):
    """bytes -> (length, big-endian number) understood by DnsModel.unpk (multi-kilobyte buffers only)"""
    return "(%d%%nat, 0x%s%%N)" % (len(b), bytes(b).hex() or "0")


def coq_expect(r, canon):
    """Worker result -> `expect` term (None when there is nothing comparable: hang / foreign exception)."""
    if "ok" in r:
        c = canon(r["ok"])
        if len(c) > 3000:       # keep the generated Coq files small whatever the implementation returns
            return None
        return "(XOk [%s]%%N)" % ";".join(str(x) for x in c)
    if "err" in r and not r["err"].startswith("Other"):
        return "(XRaise %s)" % r["err"]
    return None


def coq_expect_bytes(r):
    if "ok" in r:
        return "(XOk %s)" % coq_bytes(bytes.fromhex(r["ok"]))
    if "err" in r and not r["err"].startswith("Other"):
        return "(XRaise %s)" % r["err"]
    return None


def c_b(b):
    return [len(b)] + list(b)


def canon_name_result(ok):
    return c_b(bytes.fromhex(ok[0])) + [ok[1]]


def canon_txt_result(ok):
    out = [len(ok[0])]
    for k, v in ok[0]:
        out += c_b(k.encode("ascii")) + c_b(bytes.fromhex(v))
    return out + [ok[1]]


def canon_rd(rd):
    k = rd[0]
    if k == "A":
        return [1] + c_b(bytes(int(x) for x in rd[1].split(".")))
    if k == "PTR":
        return [2] + c_b(rd[1].encode("utf-8"))
    if k == "TXT":
        out = [3, len(rd[1])]
        for key, v in rd[1]:
            out += c_b(key.encode("ascii")) + c_b(bytes.fromhex(v))
        return out
    if k == "SRV":
        return [4, rd[1], rd[2], rd[3]] + c_b(rd[4].encode("utf-8"))
    return [5] + c_b(bytes.fromhex(rd[1]))


def canon_msg(o):
    out = [o["id"], o["flags"], len(o["qs"])]
    for n, t, c in o["qs"]:
        out += c_b(n.encode("utf-8")) + [t, c]
    for s in ("an", "ns", "ar"):
        out.append(len(o[s]))
        for n, t, c, ttl, ln, rd in o[s]:
            out += c_b(n.encode("utf-8")) + [t, c, ttl, ln] + canon_rd(rd)
    return out


def coq_msg(v):
    """msg_for_pack form -> Coq `msg` term."""
    def s(x):
        return coq_bytes(x.encode("utf-8"))

    def res(r):
        n, t, c, ttl, rd = r
        if rd[0] == "PTR":
            d = "(RName %s)" % s(rd[1])
        else:
            d = "(RRaw %s)" % coq_bytes(bytes.fromhex(rd[1]))
        return "(R %s %d%%N %d%%N %d%%N 0%%N %s)" % (s(n), t, c, ttl, d)
    return "(M %d%%N %d%%N [%s] [%s] [%s] [%s])" % (
        v["id"], v["flags"],
        "; ".join("(Q %s %d%%N %d%%N)" % (s(n), t, c) for n, t, c in v["qs"]),
        "; ".join(res(r) for r in v["an"]), "; ".join(res(r) for r in v["ns"]), "; ".join(res(r) for r in v["ar"]))


COQ_HEAD = ("From Coq Require Import NArith List. Import ListNotations.\n"
            "From PV Require Import Common.Cases C04.DnsModel.\n")


def coq_files_for(groups, per=250):
    """groups: {check_fn: (type, [(term, source)])} -> [(name, text, fn, sources)]"""
    items = []
    for fn, (typ, cases) in sorted(groups.items()):
        for i in range(0, len(cases), per):
            chunk = cases[i:i + per]
            txt = (COQ_HEAD + "Definition cases : list (%s) := [\n%s\n].\n"
                   "Eval vm_compute in (bad_indices %s cases).\n" % (typ, ";\n".join(c[0] for c in chunk), fn))
            items.append(("dns_%s_%03d" % (fn, i // per), txt, fn, [c[1] for c in chunk]))
    return items


MAXLEN = 260      # longest buffer written as a list literal into a Coq case file


def thin(groups, limits):
    """Keep the Coq case files small: at most limits[fn] cases, evenly thinned (corpus cases come first and stay)."""
    for fn, cap in limits.items():
        typ, cs = groups[fn]
        if len(cs) > cap:
            step = len(cs) / float(cap)
            groups[fn] = (typ, [cs[int(i * step)] for i in range(cap)])


def run_coq(ctx, groups, tag=""):
    import common
    items = coq_files_for(groups)
    res = common.coq_run_many([(tag + n, t) for n, t, _, _ in items], ctx.pid, timeout=600)
    nbad = 0
    for name, _, fn, sources in items:
        rc, out = res[tag + name]
        badl = common.parse_eval_nat_list(out) if rc == 0 else None
        if badl is None:
            ctx.tie_broken("correspondence:dns:" + name, out)
            nbad += 1
        else:
            for i in badl[:3]:
                ctx.tie_broken("correspondence:dns:" + fn, json.dumps(sources[i])[:1500])
            nbad += len(badl)
    return nbad


# ==========================================================================================
# The run
# ==========================================================================================

def viol(ctx, key, what, rep):
    """Register a violation; the replay dict is tagged so that c04.py / c05.py route it back here."""
    ctx.violation(key, what, dict(rep, part=PART, codec="dns"))


def load_corpus(pid):
    import common
    d = os.path.join(common.CORPUS, pid)
    out = []
    if os.path.isdir(d):
        for f in sorted(os.listdir(d)):
            if f.startswith("dns_") and f.endswith(".json"):
                out.append((f, json.load(open(os.path.join(d, f)))))
    return out


def build_checks(ctx, scale):
    """The generated stream of checks for C04 (mostly valid; the hostile stream is separate)."""
    rng = ctx.rng
    checks = []
    # --- names: encoder -> decoder, label boundaries
    # Every name is presented to qname_encode both as a sequence of labels (list / tuple - the documented
    # form for labels that contain dots) and as a dotted str, with its text composed, decomposed or mixed;
    # the reference normalises each label to NFC (RFC 6763 4.1.3).
    nfd = lambda x: unicodedata.normalize("NFD", x)   # noqa: E731
    fixed = [
        [],
        ["a" * 63, "é" * 31 + "a", "\U0001F600" * 15 + "abc"],
        ["Bu\u0308cher", "local"],                                   # decomposed umlaut
        [nfd("Café. En Español"), "_http", "_tcp", "local"],         # decomposed instance label with a dot
        [nfd("がぎぐげご"), "local"],
        [nfd("é" * 31), "local"],                                    # 62 bytes composed, 93 decomposed
        [nfd("é" * 31) + "a", nfd("が" * 21)],                       # exactly 63 bytes only when composed
        ["\u1100\u1161" * 21, "\u212b" * 31 + "a"],                  # conjoining jamo -> 21 syllables = 63 bytes; ANGSTROM SIGN -> Å
        ["o\u0323\u0302", "o\u0302\u0323", "\u1ed9"],                # combining marks in both orders, one NFC
        ["x", "local", ""],                                          # already rooted
    ]
    for i in range(140 * scale):
        form = FORMS[i % 3]
        if i < len(fixed):
            n = fixed[i]
        else:
            n = [reform(rng, gen_label(rng, dots=(i % 7 == 0)), form) for _ in range(rng.choice([1, 1, 2, 3, 5]))]
            if sum(len(lab_bytes(x)) + 1 for x in n) > 250:
                n = n[:2]
            if rng.random() < 0.12:
                n = n + [""]                                         # the caller supplied the root label itself
        rest = bytes(rng.randrange(256) for _ in range(rng.choice([0, 0, 1, 5])))
        for seq in (("list", "tuple") if i < len(fixed) else (("list", "tuple")[i % 2],)):
            checks.append({"part": PART, "kind": "name-rt", "labels": n, "seq": seq, "form": form if i >= len(fixed) else "fixed",
                           "rest": rest.hex()})
        if i < len(fixed) and name_ok_for_str([x for x in n if x]):
            checks.append({"part": PART, "kind": "str-rt", "name": ".".join(n), "form": "fixed", "rest": rest.hex()})
    for i in range(90 * scale):
        n = gen_name(rng)
        if not name_ok_for_str(n):
            continue
        form = FORMS[i % 3]
        name = ".".join(reform(rng, x, form) for x in n)
        if n and rng.random() < 0.12:
            name += "."                                              # already rooted
        rest = bytes(rng.randrange(256) for _ in range(rng.choice([0, 2])))
        checks.append({"part": PART, "kind": "str-rt", "name": name, "form": form, "rest": rest.hex()})
    # --- messages written by the reference encoder in three styles
    for i in range(260 * scale):
        m = gen_message(rng, big=(i % 23 == 0))
        for mode in (("plain", "compress", "wild") if i % 3 == 0 else (rng.choice(["compress", "wild"]),)):
            enc = RefEnc(mode, rng)
            try:
                data, lens = enc.message(m)
            except RefError:
                continue
            checks.append({"part": PART, "kind": "decode", "data": data.hex(),
                           "expect": expected_observation(m, lens), "mode": mode,
                           "pointers": enc.pointers, "chains": enc.chains})
    # --- names reached through pointers, parsed in isolation at their offset
    for i in range(60 * scale):
        enc = RefEnc("wild", rng)
        pool, starts = [], []
        enc.b += bytes(rng.randrange(256) for _ in range(rng.choice([0, 12])))
        for _ in range(rng.randint(2, 7)):
            n = gen_name(rng, pool)
            starts.append((len(enc.b), n))
            try:
                enc.name(n)
            except RefError:
                starts.pop()
            enc.b += bytes(rng.randrange(256) for _ in range(rng.choice([0, 0, 3])))
        data = bytes(enc.b)
        for pos, n in starts:
            try:
                labels, end = ref_decode_name(data, pos)
            except RefError:
                continue
            checks.append({"part": PART, "kind": "name-decode", "data": data.hex(), "pos": pos,
                           "expect": [dotted(n), end], "chains": enc.chains})
    # --- far pointers: offsets that need the high bits of the 14-bit pointer
    for size in ([250, 4090, 8190, 16300] if scale == 1 else [250, 250, 1000, 4090, 8190, 12000, 16300, 16300]):
        enc = RefEnc("wild", rng)
        enc.b += bytes(rng.choice([0, 1, 0xC0, 0x3F, rng.randrange(256)]) for _ in range(size + rng.randint(0, 4)))
        pool, starts = [], []
        for _ in range(6):
            n = gen_name(rng, pool)
            starts.append((len(enc.b), n))
            try:
                enc.name(n)
            except RefError:
                starts.pop()
        data = bytes(enc.b)
        for pos, n in starts[1:]:
            labels, end = ref_decode_name(data, pos)
            checks.append({"part": PART, "kind": "name-decode", "data": data.hex(), "pos": pos,
                           "expect": [dotted(n), end], "far": size})
    for size in ([300, 9000] if scale == 1 else [300, 2000, 5000, 9000, 16000]):
        m = gen_message(rng)
        m["an"].insert(0, [["pad"], 99, 1, 0, ["RAW", bytes(rng.randrange(256) for _ in range(size)).hex()]])
        m["an"].append([gen_name(rng, [["far", "local"]]), 12, 1, 120, ["PTR", ["x", "far", "local"]]])
        m["ar"].append([["far", "local"], 33, 1, 120, ["SRV", 0, 0, 7000, ["x", "far", "local"]]])
        for mode in ("compress", "wild"):
            enc = RefEnc(mode, rng)
            data, lens = enc.message(m)
            checks.append({"part": PART, "kind": "decode", "data": data.hex(), "expect": expected_observation(m, lens),
                           "mode": mode, "pointers": enc.pointers, "chains": enc.chains, "far": size})
    # --- what pack can write symmetrically
    # (names handed to DnsQuestion / DnsResource as dotted strs, lists or tuples of labels, text in all three forms)
    for i in range(150 * scale):
        form, names_as = FORMS[i % 3], ("str", "list", "tuple")[(i // 3) % 3]
        m = reform_msg(rng, gen_message(rng, symmetric=True, big=(i % 29 == 0)), form)
        checks.append({"part": PART, "kind": "encode", "msg": m, "names_as": names_as, "form": form})
        checks.append({"part": PART, "kind": "roundtrip", "msg": m, "names_as": names_as, "form": form})
    # --- TXT records on their own (documented encodings of a dict)
    for i in range(60 * scale):
        ents = gen_txt(rng)
        try:
            data = ref_txt_encode(ents)
        except RefError:
            continue
        d = {}
        for k, v in ents:
            d[k.lower()] = v or ""
        checks.append({"part": PART, "kind": "txt-decode", "data": data.hex(), "expect": sorted([k, v] for k, v in d.items())})
    # RFC 6763 6.1: the record of a service without attributes is a single zero byte and means "no attributes"
    checks.append({"part": PART, "kind": "txt-decode", "data": "00", "expect": [], "key": "C04:dns:txt-single-zero-byte"})
    return checks


def extra_model_jobs(ctx, scale):
    """Inputs that are not judged by the oracle, only compared with the model: truncation of long
    labels, odd label lists, TXT corner cases, hostile messages and names."""
    rng = ctx.rng
    jobs = []
    for i in range(50 * scale):
        labs = []
        for _ in range(rng.choice([1, 2, 3])):
            r = rng.random()
            if r < 0.3:     # over-long, multi-byte at the boundary; fits before but not after NFC (U+0958 -> U+0915 U+093C)
                ch = rng.choice(["a", "é", "日", "\U0001F600", "e\u0301", "\u0958", "が"])
                labs.append(reform(rng, "".join(rng.choice([ch, "b"]) for _ in range(rng.choice([20, 21, 31, 32, 40, 64, 70]))), rng.choice(FORMS)))
            elif r < 0.4:
                labs.append("")
            else:
                labs.append(reform(rng, gen_label(rng, dots=True), rng.choice(FORMS)))
        jobs.append(("qenc", {"op": "qenc", "labels": [x.encode("utf-8").hex() for x in labs],
                              "nfc": [lab_bytes(x).hex() for x in labs]}))
    strs = ["", ".", "a.", ".a", "a..b", "_x._tcp", "_x._tcp.", "._x._tcp.local", "a.b._x._tcp.local", "..x._y._udp.",
            "_a._b._tcp.local", "x._tcp._udp.local", "x._y._TCP.local", "_._tcp", "a._x._tcpx.local", "local", "a.b.c.d.e"]
    for i in range(40 * scale):
        parts = [rng.choice(["a", "bc", "_x", "_tcp", "_udp", "_TCP", "", "local", "é", "e\u0301", "\u212b", "x y", "_"]) for _ in range(rng.randint(0, 6))]
        strs.append(".".join(parts))
    for s in strs:
        jobs.append(("qencs", {"op": "qencs", "s": s.encode("utf-8").hex(), "nfc": lab_bytes(s).hex()}))
    for i in range(80 * scale):
        n = rng.randint(0, 8)
        chunks = bytearray()
        for _ in range(n):
            key = bytes(rng.choice([97, 65, 66, 61, 0x80, 0xFF, 32, 122, 90]) for _ in range(rng.choice([0, 1, 2, 3])))
            val = bytes(rng.choice([61, 0, 255, 120]) for _ in range(rng.choice([0, 1, 4])))
            ch = rng.choice([key, key + b"=" + val, b"=" + val, key + b"="])
            chunks.append(rng.choice([len(ch), len(ch), len(ch) + 1, 0]))
            chunks += ch
        data = bytes(chunks)
        ln = rng.choice([len(data), len(data), max(0, len(data) - 1), len(data) + 2, 0])
        pos = rng.choice([0, 0, 1]) if data else 0
        jobs.append(("txt", {"op": "txt", "data": data.hex(), "pos": pos, "len": ln}))
    return jobs


def hostile_messages(ctx, n):
    rng = ctx.rng
    out = []
    tries = 0
    while len(out) < n and tries < 10 * n:
        tries += 1
        m = gen_message(rng)
        enc = RefEnc(rng.choice(["plain", "compress", "wild"]), rng)
        try:
            data, _ = enc.message(m)
        except RefError:
            continue
        if len(data) > MAXLEN - 10:
            continue
        kind, bad_data = mutate(rng, data, enc.name_starts)
        if len(bad_data) <= MAXLEN:
            out.append((kind, bad_data))
    return out


def run_part(ctx):
    scale = 10 if ctx.thorough else 1
    checks = [dict(c, corpus=f) for f, c in load_corpus("C04")]
    ncorpus = len(checks)
    checks += build_checks(ctx, scale)
    jobs, spans = [], []
    for c in checks:
        js = jobs_for(c)
        spans.append((len(jobs), len(js)))
        jobs += js
    model_jobs = extra_model_jobs(ctx, scale)
    base_model = len(jobs)
    jobs += [j for _, j in model_jobs]
    hostile = hostile_messages(ctx, 350 * scale)
    base_hostile = len(jobs)
    jobs += [{"op": "unpack", "data": d.hex()} for _, d in hostile]
    hnames = hostile_names(ctx.rng, 250 * scale)
    base_hn = len(jobs)
    jobs += [{"op": "name", "data": d.hex(), "pos": p, "count": True} for _, d, p in hnames]

    results, why = run_worker(jobs)
    if results is None:
        viol(ctx, "C04:dns:decoder-hangs", "the implementation driver did not finish: " + why,
                      {"part": PART, "kind": "driver", "detail": why})
        return
    ctx.traces += len(jobs)

    # ---- the property, judged on the implementation
    for c, (at, n) in zip(checks, spans):
        rs = results[at:at + n]
        verdicts = judge(c, rs)
        for key, what in verdicts:
            rep = {k: v for k, v in c.items() if k not in ("corpus",)}
            viol(ctx, key, what + (" [corpus %s]" % c["corpus"] if "corpus" in c else ""), rep)
        nontriv = "ok" in rs[0] and (c.get("pointers", 1) > 0 or c["kind"] != "decode")
        canon = (c["kind"], c.get("data") or json.dumps(c.get("msg") or c.get("labels") or c.get("name"), sort_keys=True))
        sample = None
        if c["kind"] == "decode" and c.get("chains"):
            sample = {"kind": "decode", "mode": c["mode"], "data": c["data"][:160], "pointers": c["pointers"], "chains": c["chains"]}
        ctx.case(canon, nontrivial=nontriv, sample=sample)
        ctx.count("dns:" + c["kind"] + (":" + c["mode"] if "mode" in c else "") + (":far-pointers" if "far" in c else "")
                  + (":" + c.get("names_as", c.get("seq", "str")) + "/" + c["form"] if "form" in c else ""))
        if c.get("chains"):
            ctx.count("dns:with-pointer-chain")
    for (kind, d), r in zip(hostile, results[base_hostile:base_hn]):
        if "hang" in r:
            viol(ctx, "C04:dns:decoder-hangs", "unpack did not return within %.0f s on a %d byte message (%s)" % (CALL_TIMEOUT, len(d), kind),
                          {"part": PART, "kind": "finish", "op": "unpack", "data": d.hex()})
        ctx.case(("hostile", d), nontrivial=True)
        ctx.count("dns:hostile:" + kind + ":" + (outcome(r)))
    for (kind, d, p), r in zip(hnames, results[base_hn:]):
        if "hang" in r:
            viol(ctx, "C04:dns:decoder-hangs", "parse_domain_name did not return within %.0f s (%s)" % (CALL_TIMEOUT, kind),
                          {"part": PART, "kind": "finish", "op": "name", "data": d.hex(), "pos": p})
        ctx.case(("hostile-name", d, p), nontrivial=True)
        ctx.count("dns:hostile-name:" + (outcome(r)))

    # ---- model against implementation, inside Coq
    groups = {
        "check_name": ("list N * nat * nat * expect", []),
        "check_name_k": ("(nat * N) * nat * nat * expect", []),
        "check_qenc": ("name * list N", []),
        "check_qenc_str": ("list N * list N", []),
        "check_txt": ("list N * nat * nat * expect", []),
        "check_unpack": ("list N * expect", []),
        "check_pack": ("msg * expect", []),
    }
    skipped = 0

    def add_name(data, pos, r, src):
        nonlocal skipped
        x = coq_expect(r, canon_name_result)
        k = r.get("iters", 0)
        if x is None or k >= 3000:
            skipped += 1
        elif len(data) <= MAXLEN:
            groups["check_name"][1].append(("(%s, %d%%nat, %d%%nat, %s)" % (coq_bytes(data), pos, k, x), src))
        elif k and len(data) < 17000:
            groups["check_name_k"][1].append(("(%s, %d%%nat, %d%%nat, %s)" % (coq_packed(data), pos, k, x),
                                              {"name": data.hex()[:200] + "...", "pos": pos}))
        else:
            skipped += 1

    def add_unpack(data, r, src):
        nonlocal skipped
        x = coq_expect(r, canon_msg)
        if len(data) > MAXLEN or x is None:
            skipped += 1
            return
        groups["check_unpack"][1].append(("(%s, %s)" % (coq_bytes(data), x), src))

    for c, (at, n) in zip(checks, spans):
        r = results[at]
        k = c["kind"]
        if k == "decode" or (k == "finish" and c["op"] == "unpack"):
            add_unpack(bytes.fromhex(c["data"]), r, {"unpack": c["data"]})
        elif k in ("name-decode",) or (k == "finish" and c["op"] == "name"):
            add_name(bytes.fromhex(c["data"]), c.get("pos", 0), r, {"name": c["data"], "pos": c.get("pos", 0)})
        elif k in ("name-rt", "str-rt") and "ok" in r:
            enc = bytes.fromhex(r["ok"][2])
            if k == "name-rt":
                labs = [lab_bytes(x) for x in c["labels"]]
                groups["check_qenc"][1].append(("([%s], %s)" % ("; ".join(coq_bytes(x) for x in labs), coq_bytes(enc)), {"qenc": c["labels"]}))
            else:
                groups["check_qenc_str"][1].append(("(%s, %s)" % (coq_bytes(lab_bytes(c["name"])), coq_bytes(enc)), {"qencs": c["name"]}))
            data = enc + bytes.fromhex(c["rest"])
            rr = {"ok": [r["ok"][0].encode("utf-8").hex(), r["ok"][1]]}
            add_name(data, 0, rr, {"name": data.hex(), "pos": 0})
        elif k in ("encode",):
            v = msg_for_pack(c["msg"], "nfc")
            x = coq_expect_bytes(r)
            if x is not None and ("ok" not in r or len(r["ok"]) <= 600):
                groups["check_pack"][1].append(("(%s, %s)" % (coq_msg(v), x), {"pack": v}))
            else:
                skipped += 1
        elif k == "roundtrip" and "ok" in r and len(r["ok"]["packed"]) <= 600:
            add_unpack(bytes.fromhex(r["ok"]["packed"]), {"ok": r["ok"]["msg"]}, {"unpack": r["ok"]["packed"]})
        elif k == "txt-decode":
            x = coq_expect(r, canon_txt_result)
            if x is not None:
                groups["check_txt"][1].append(("(%s, 0%%nat, %d%%nat, %s)" % (coq_bytes(bytes.fromhex(c["data"])), len(c["data"]) // 2, x), {"txt": c["data"]}))
    for (kind, job), r in zip(model_jobs, results[base_model:base_hostile]):
        if kind == "qenc" and "ok" in r:
            labs = [bytes.fromhex(x) for x in job["nfc"]]
            groups["check_qenc"][1].append(("([%s], %s)" % ("; ".join(coq_bytes(x) for x in labs), coq_bytes(bytes.fromhex(r["ok"]))), job))
            ctx.count("dns:model:qname_encode(list)")
        elif kind == "qencs" and "ok" in r:
            groups["check_qenc_str"][1].append(("(%s, %s)" % (coq_bytes(bytes.fromhex(job["nfc"])), coq_bytes(bytes.fromhex(r["ok"]))), job))
            ctx.count("dns:model:qname_encode(str)")
        elif kind == "txt":
            x = coq_expect(r, canon_txt_result)
            if x is not None:
                groups["check_txt"][1].append(("(%s, %d%%nat, %d%%nat, %s)" % (coq_bytes(bytes.fromhex(job["data"])), job["pos"], job["len"], x), job))
                ctx.count("dns:model:txt:" + (r.get("err") or "ok"))
        else:
            skipped += 1
        ctx.case(("model", kind, json.dumps(job, sort_keys=True)), nontrivial="ok" in r)
    for (kind, d), r in zip(hostile, results[base_hostile:base_hn]):
        add_unpack(d, r, {"unpack": d.hex(), "mutation": kind})
    for (kind, d, p), r in zip(hnames, results[base_hn:]):
        add_name(d, p, r, {"name": d.hex(), "pos": p})
    xn = sum(1 for j in jobs if "786e2d2d" in j.get("data", ""))
    ctx.count("dns:inputs-containing-xn--(outside model)", xn)
    ctx.count("dns:not-sent-to-coq(too long or foreign exception)", skipped)
    thin(groups, {"check_unpack": 420 * scale, "check_name": 480 * scale, "check_name_k": 6})
    for fn, (_, cs) in groups.items():
        ctx.count("dns:coq:" + fn, len(cs))
    run_coq(ctx, groups)

    ctx.rule = (ctx.rule + " | " if ctx.rule else "") + (
        "DNS: names (1..63 byte labels incl. 63, non-ASCII, dotted instance labels, root) through qname_encode -> "
        "parse_domain_name; messages (0..8 questions, 0..7 records per section of types A/PTR/TXT/SRV/unknown) written "
        "by the RFC 1035 reference encoder plain / suffix-compressed / wild (pointer to any earlier representation incl. "
        "pointer chains and the root byte) and read by DnsMessage.unpack; pack-symmetric messages through pack -> "
        "reference decoder and pack -> unpack; TXT dicts; hostile stream (truncation, pointer loops 1..3, forward "
        "pointers, reserved flags, counts, byte flips, bad UTF-8) compared with the model only. %d corpus inputs first. "
        "non-trivial = decoded successfully (messages: with at least one compression pointer)" % ncorpus)
    ctx.trusted += [
        "hand-written model coq/C04/DnsModel.v of pyatv/support/dns.py, tied by the differential run in harness/c04_dns.py "
        "(results canonicalised to number lists on both sides; compared inside Coq by vm_compute)",
        "reference DNS encoder/decoder in harness/c04_dns.py written from RFC 1035 3.1/4.1/4.1.4, RFC 2782, RFC 6763 4.1/6",
    ]
    ctx.assumptions += [
        "DNS: the Coq model takes labels AFTER NFC normalisation (UTF-8 byte strings); the NFC step of qname_encode is judged by the "
        "oracle only: every generated name is handed to the implementation composed, decomposed and mixed, as dotted str, list and "
        "tuple of labels (also through DnsQuestion/DnsMessage.pack), and compared with the reference encoder, which normalises each "
        "label to NFC (RFC 6763 4.1.3); the model is given the NFC bytes of the same labels. IDNA decoding of 'xn--' labels is outside the model",
        "DNS: io.BytesIO.read returns at most what is left and never raises; struct.unpack raises struct.error on a short buffer",
        "DNS: assert statements are active (python is not run with -O)",
    ]


def run_part_c05(ctx):
    """Hostile DNS input must be answered (value or ordinary exception) within the proved step bound."""
    scale = 10 if ctx.thorough else 1
    rng = ctx.rng
    checks = [dict(c, corpus=f, c05=True) for f, c in load_corpus("C05")]
    hn = hostile_names(rng, 500 * scale)
    hm = hostile_messages(ctx, 300 * scale)
    jobs = []
    for c in checks:
        jobs += jobs_for(c)
    base = len(jobs)
    jobs += [{"op": "name", "data": d.hex(), "pos": p, "count": True} for _, d, p in hn]
    basem = len(jobs)
    jobs += [{"op": "unpack", "data": d.hex(), "count": True} for _, d in hm]
    results, why = run_worker(jobs)
    if results is None:
        viol(ctx, "C05:dns:decoder-hangs", "the implementation driver did not finish: " + why,
                      {"part": PART, "kind": "driver", "detail": why})
        return
    ctx.traces += len(jobs)
    groups = {"check_name": ("list N * nat * nat * expect", []), "check_unpack": ("list N * expect", [])}

    def add_name(d, p, r, src):
        x = coq_expect(r, canon_name_result)
        if x and r.get("iters", 0) < 3000 and len(d) <= MAXLEN:
            groups["check_name"][1].append(("(%s, %d%%nat, %d%%nat, %s)" % (coq_bytes(d), p, r.get("iters", 0), x), src))

    for c, r in zip(checks, results[:base]):
        for key, what in judge(c, [r]):
            viol(ctx, key, what + " [corpus %s]" % c["corpus"], {k: v for k, v in c.items() if k != "corpus"})
        ctx.case(("corpus", c["corpus"]), nontrivial=True)
        ctx.count("dns:corpus")
        if c["kind"] == "finish" and c["op"] == "name":
            add_name(bytes.fromhex(c["data"]), c.get("pos", 0), r, c)
    for (kind, d, p), r in zip(hn, results[base:basem]):
        rep = {"part": PART, "kind": "finish", "op": "name", "data": d.hex(), "pos": p, "c05": True}
        if "hang" in r:
            viol(ctx, "C05:dns:pointer-loop", "parse_domain_name did not return within %.0f s on %d bytes (%s)" % (CALL_TIMEOUT, len(d), kind), rep)
        elif "skipped" in r:
            pass
        elif r.get("err", "").startswith("Other"):
            viol(ctx, "C05:dns:unexpected-exception", "parse_domain_name raised " + r.get("exc", ""), rep)
        else:
            bound = (len(d) + 1) ** 2
            if r["iters"] > bound:
                viol(ctx, "C05:dns:decoder-steps", "parse_domain_name made %d loop iterations on %d bytes (bound %d)" % (r["iters"], len(d), bound), rep)
            add_name(d, p, r, rep)
        ctx.case(("c05-name", d, p), nontrivial=r.get("iters", 0) > 1)
        ctx.count("dns:name:" + kind.rstrip("0123456789") + ":" + (outcome(r)))
    for (kind, d), r in zip(hm, results[basem:]):
        rep = {"part": PART, "kind": "finish", "op": "unpack", "data": d.hex(), "c05": True}
        if "hang" in r:
            viol(ctx, "C05:dns:pointer-loop", "DnsMessage.unpack did not return within %.0f s on %d bytes (%s)" % (CALL_TIMEOUT, len(d), kind), rep)
        elif "skipped" in r:
            pass
        elif r.get("err", "").startswith("Other") and "786e2d2d" not in d.hex():
            viol(ctx, "C05:dns:unexpected-exception", "DnsMessage.unpack raised " + r.get("exc", ""), rep)
        else:
            bound = (len(d) + 1) ** 3
            if r.get("iters", 0) > bound:
                viol(ctx, "C05:dns:decoder-steps", "unpack made %d name-loop iterations on %d bytes (bound %d)" % (r["iters"], len(d), bound), rep)
            x = coq_expect(r, canon_msg)
            if x and len(d) <= MAXLEN:
                groups["check_unpack"][1].append(("(%s, %s)" % (coq_bytes(d), x), rep))
        ctx.case(("c05-msg", d), nontrivial=r.get("iters", 0) > 1)
        ctx.count("dns:msg:" + kind.rstrip("0123456789") + ":" + (outcome(r)))
    thin(groups, {"check_unpack": 250 * scale, "check_name": 500 * scale})
    run_coq(ctx, groups, tag="c05_")
    ctx.rule = (ctx.rule + " | " if ctx.rule else "") + (
        "DNS: parse_domain_name on hostile names (pointer loops 1..3, 60-pointer chain, labels+back pointer, pointer-only "
        "buffers, corrupted valid names, random bytes; start offset random) and DnsMessage.unpack on mutated valid messages; "
        "each call under a %.0f s alarm; loop iterations counted with sys.setprofile and compared with the model's fuel "
        "consumption (steps_ok in check_name) and with the proved bound (len+1)^2" % CALL_TIMEOUT)
    ctx.trusted += ["iteration counter in harness/c04_dns.py: calls of unpack_stream made from parse_domain_name (one per loop iteration)"]


def replay_part(ctx, d):
    """d: a replay file's dict (with the check under "replay") or a bare check dict."""
    chk = d.get("replay", d)
    if chk.get("kind") == "driver":
        print("driver failure, nothing to replay: " + str(chk.get("detail")))
        return 1
    results, why = run_worker(jobs_for(chk))
    if results is None:
        print("implementation driver did not finish: " + why)
        return 1
    verdicts = judge(chk, results)
    print("dns %s: result=%s" % (chk["kind"], json.dumps(results)[:600]))
    for key, what in verdicts:
        print("  FAILS %s: %s" % (key, what))
    return 1 if verdicts else 0


if __name__ == "__main__":
    if len(sys.argv) == 4 and sys.argv[1] == "worker":
        worker_main(sys.argv[2], sys.argv[3])
    else:
        print(__doc__)
