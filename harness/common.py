"""Shared machinery for the per-property checks.

Everything a registered command needs lives under /verif; scratch output goes to
/verif/build (git-ignored).  The implementation under test is /repo's *current*
working tree (PYTHONPATH=/repo, fresh interpreter per run).
"""
import fcntl
import hashlib
import json
import os
import random
import re
import subprocess
import sys
import time

VERIF = os.path.dirname(os.path.dirname(os.path.abspath(__file__)))
REPO = os.environ.get("VERIF_REPO", "/repo")
COQ = os.path.join(VERIF, "coq")
BUILD = os.path.join(VERIF, "build")
EVID = os.path.join(VERIF, "evidence")
CORPUS = os.path.join(VERIF, "corpus")
PY = "/venv/bin/python"

FORBIDDEN = re.compile(
    r"\b(Admitted|admit|Axiom|Axioms|Parameter|Parameters|Conjecture|Conjectures|"
    r"Admit Obligations|bypass_check|native_compute)\b|Unset\s+Guard|Unset\s+Positivity|"
    r"Unset\s+Universe\s+Checking|type-in-type|impredicative-set"
)

KERNEL_TB = [
    "Coq 8.16.1 kernel via coqc (full .vo build, no -vos/-vok); vm_compute used, native_compute not used",
    "no Axiom/Parameter/Admitted anywhere in /verif/coq (grep enforced on every run); Print Assumptions of every property theorem recorded below",
]


def sh(cmd, timeout=600, cwd=None, env=None, inp=None):
    """Run a command under a timeout; returns (rc, stdout+stderr)."""
    e = dict(os.environ)
    if env:
        e.update(env)
    try:
        p = subprocess.run(
            cmd, cwd=cwd, env=e, input=inp, stdout=subprocess.PIPE,
            stderr=subprocess.STDOUT, timeout=timeout, text=True,
            shell=isinstance(cmd, str),
        )
        return p.returncode, p.stdout
    except subprocess.TimeoutExpired as ex:
        out = ex.stdout or ""
        if isinstance(out, bytes):
            out = out.decode("utf-8", "replace")
        return 124, out + "\n[timeout after %ss]" % timeout


class Lock:
    def __init__(self, name="coq"):
        os.makedirs(BUILD, exist_ok=True)
        self.path = os.path.join(BUILD, "." + name + ".lock")

    def __enter__(self):
        self.f = open(self.path, "w")
        fcntl.flock(self.f, fcntl.LOCK_EX)
        return self

    def __exit__(self, *a):
        fcntl.flock(self.f, fcntl.LOCK_UN)
        self.f.close()


# --------------------------------------------------------------------------- Coq

def coq_files():
    out = []
    for d in sorted(os.listdir(COQ)):
        p = os.path.join(COQ, d)
        if os.path.isdir(p):
            for f in sorted(os.listdir(p)):
                if f.endswith(".v") and not f.startswith("."):
                    out.append(d + "/" + f)
    return out


def coq_makefile():
    """(Re)generate _CoqProject and Makefile when the file list changed."""
    files = coq_files()
    proj = "-Q . PV\n-arg -w -arg -notation-overridden,-deprecated-hint-without-locality,-deprecated-instance-without-locality\n" + "\n".join(files) + "\n"
    pj = os.path.join(COQ, "_CoqProject")
    old = open(pj).read() if os.path.exists(pj) else ""
    if old != proj or not os.path.exists(os.path.join(COQ, "Makefile")):
        with open(pj, "w") as f:
            f.write(proj)
        rc, out = sh(["coq_makefile", "-f", "_CoqProject", "-o", "Makefile"], cwd=COQ, timeout=120)
        if rc != 0:
            raise RuntimeError("coq_makefile failed: " + out)
        # dependency file must be recomputed
        for n in (".Makefile.d",):
            try:
                os.unlink(os.path.join(COQ, n))
            except OSError:
                pass


def grep_forbidden(dirs=None):
    """Return list of (file, line, text) using forbidden vernacular."""
    bad = []
    for rel in coq_files():
        if dirs and rel.split("/")[0] not in dirs:
            continue
        txt = open(os.path.join(COQ, rel)).read()
        # strip comments (non-nested is enough: we forbid the words in comments too
        # except inside (* ... *) blocks)
        stripped = strip_comments(txt)
        for i, line in enumerate(stripped.split("\n"), 1):
            if FORBIDDEN.search(line):
                bad.append((rel, i, line.strip()))
    return bad


def strip_comments(txt):
    out = []
    depth = 0
    i = 0
    n = len(txt)
    while i < n:
        if txt.startswith("(*", i):
            depth += 1
            i += 2
        elif txt.startswith("*)", i) and depth:
            depth -= 1
            i += 2
        else:
            if depth == 0:
                out.append(txt[i])
            elif txt[i] == "\n":
                out.append("\n")
            i += 1
    return "".join(out)


def coq_make(targets, timeout=900, jobs=8):
    """Build the given .vo targets (paths relative to coq/).  Returns (ok, log).

    The Makefile is regenerated under a global lock; the build itself only takes a lock per
    property directory, so a slow proof in one property never blocks the others.  Every make
    runs under a timeout and a 16 GB address-space limit."""
    with Lock("coq"):
        coq_makefile()
    dirs = sorted({t.split("/")[0] for t in targets}) or ["none"]
    with Lock("coq-" + "-".join(dirs)):
        rc, out = sh("ulimit -v 16000000; exec make -j%d %s" % (jobs, " ".join(targets)), cwd=COQ, timeout=timeout)
    return rc == 0, out


def coq_dir_targets(d):
    return [f[:-2] + ".vo" for f in coq_files() if f.startswith(d + "/")]


def theorems_in(relpath):
    txt = strip_comments(open(os.path.join(COQ, relpath)).read())
    return re.findall(r"^\s*(?:Theorem|Corollary)\s+([A-Za-z0-9_']+)", txt, re.M)


def parse_assumptions(log):
    """Parse the output of a sequence of `Print Assumptions x.` commands.

    Returns a list of strings, one per command, either 'Closed under the global
    context' or 'Axioms: a; b; c'.
    """
    res = []
    cur = None
    for line in log.split("\n"):
        if line.startswith("Closed under the global context"):
            if cur is not None:
                res.append(cur)
                cur = None
            res.append("Closed under the global context")
        elif line.startswith("Axioms:"):
            if cur is not None:
                res.append(cur)
            cur = "Axioms:"
        elif cur is not None:
            m = re.match(r"^([A-Za-z_][A-Za-z0-9_.']*)\s*(:|$)", line)
            if m and not line.startswith(" "):
                cur += " " + m.group(1) + ";"
            elif line.strip() == "" or line.startswith(" "):
                continue
            else:
                res.append(cur)
                cur = None
    if cur is not None:
        res.append(cur)
    return res


def coq_run(name, text, timeout=300, pid="misc"):
    """Compile a scratch .v file under build/cases and return (rc, stdout)."""
    d = os.path.join(BUILD, "cases", pid)
    os.makedirs(d, exist_ok=True)
    path = os.path.join(d, name + ".v")
    with open(path, "w") as f:
        f.write(text)
    rc, out = sh(
        "ulimit -s unlimited 2>/dev/null; ulimit -v 12000000; exec coqc -Q %s PV -w -notation-overridden,-deprecated-hint-without-locality %s" % (COQ, path),
        timeout=timeout, cwd=d,
    )
    return rc, out


def coq_run_many(items, pid, timeout=600, par=12):
    """items: list of (name, text).  Runs coqc on each in parallel; returns dict name->(rc,out)."""
    from concurrent.futures import ThreadPoolExecutor

    def one(it):
        return it[0], coq_run(it[0], it[1], timeout=timeout, pid=pid)

    with ThreadPoolExecutor(max_workers=par) as ex:
        return dict(ex.map(one, items))


# Coq term printers ---------------------------------------------------------

def cN(n):
    return "%d%%N" % n


def cZ(n):
    return "(%d)%%Z" % n


def cnat(n):
    assert 0 <= n < 5000, n
    return "%d%%nat" % n


def cbool(b):
    return "true" if b else "false"


def clist(xs, f=str):
    return "[" + "; ".join(f(x) for x in xs) + "]"


def cbytes(bs):
    """bytes -> list N literal."""
    return "[" + ";".join(str(b) for b in bs) + "]%N"


def copt(x, f=str):
    return "None" if x is None else "(Some %s)" % f(x)


def parse_eval_nat_list(out):
    """Parse `= [1; 2] : list nat` (possibly wrapped) -> [1,2]."""
    m = re.search(r"=\s*(\[[^\]]*\])\s*:\s*list", out, re.S)
    if not m:
        return None
    body = m.group(1).strip()[1:-1].strip()
    if not body:
        return []
    return [int(x.replace("%nat", "").replace("%N", "").strip()) for x in body.split(";")]


# --------------------------------------------------------------------------- context

class Ctx:
    def __init__(self, pid, tier, seed, replay=None):
        self.pid = pid
        self.tier = tier
        self.seed = seed
        self.replay = replay
        self.rng = random.Random(seed * 1000003 + int(pid[1:]))
        self.t0 = time.time()
        self.obligations = []      # (name, ok, assumptions)
        self.checker_cmds = []
        self.trusted = list(KERNEL_TB)
        self.assumptions = []
        self.evaluations = 0
        self.nontrivial = set()
        self.traces = 0
        self.samples = []
        self.rule = ""
        self.dist = {}
        self.extra = {}
        self.violations = []       # dict(key, what, replay)
        self.broken = []           # names of theorems / correspondences that no longer check
        self.exhaustive = None
        self.log = []
        # stale replay files of earlier runs of this property
        rd = os.path.join(BUILD, "replay")
        if os.path.isdir(rd) and not replay:
            for f in os.listdir(rd):
                if f.startswith(pid + "-"):
                    try:
                        os.unlink(os.path.join(rd, f))
                    except OSError:
                        pass

    @property
    def thorough(self):
        return self.tier == "thorough"

    def note(self, *a):
        s = " ".join(str(x) for x in a)
        self.log.append(s)
        print("[%s] %s" % (self.pid, s), flush=True)

    def count(self, kind, n=1):
        self.dist[kind] = self.dist.get(kind, 0) + n

    def case(self, canon, nontrivial=True, sample=None):
        """Register one evaluated case; canon is any hashable/reprable canonical form."""
        self.evaluations += 1
        if nontrivial:
            h = hashlib.blake2b(repr(canon).encode(), digest_size=8).digest()
            self.nontrivial.add(h)
        if sample is not None and len(self.samples) < 8:
            self.samples.append(sample)

    def violation(self, key, what, replay):
        """key: stable class of the failure (matched against known_findings)."""
        self.violations.append({"key": key, "what": what, "replay": replay})

    def tie_broken(self, name, detail):
        self.broken.append({"name": name, "detail": detail[-4000:] if isinstance(detail, str) else detail})

    # -- Coq ----------------------------------------------------------------
    def build_property(self, dirs=None, extra_targets=()):
        """Rebuild coq/<pid> (and what it needs), re-check every *Properties.v, record obligations.

        Returns True when everything compiled.
        """
        pid = self.pid
        dirs = dirs or [pid]
        bad = grep_forbidden(set(dirs) | {"Common"})
        if bad:
            self.tie_broken("forbidden-vernacular", json.dumps(bad[:10]))
            return False
        targets = []
        propfiles = []
        for d in dirs:
            for t in coq_dir_targets(d):
                if t.endswith("Properties.vo"):
                    propfiles.append(t)
                else:
                    targets.append(t)
        targets += list(extra_targets)
        # Always re-run the property files so Print Assumptions output is captured
        for t in propfiles:
            for ext in (".vo", ".glob", ".vos", ".vok"):
                try:
                    os.unlink(os.path.join(COQ, t[:-3] + ext))
                except OSError:
                    pass
        self.checker_cmds.append("cd %s && make -j8 %s" % (COQ, " ".join(targets + propfiles)))
        all_ok = True
        log = ""
        if targets:
            ok, out = coq_make(targets)
            log += out
            if not ok:
                all_ok = False
                self.tie_broken("coq-build", out)
        for t in propfiles:
            rel = t[:-3] + ".v"
            names = theorems_in(rel)
            ok, out = coq_make([t], jobs=4)
            log += out
            built = ok and os.path.exists(os.path.join(COQ, t))
            ass = parse_assumptions(out) if built else []
            for i, n in enumerate(names):
                a = ass[i] if i < len(ass) else ("(no Print Assumptions)" if built else "NOT BUILT")
                self.obligations.append((rel[:-2].replace("/", ".") + "." + n, built, a))
            if not built:
                all_ok = False
                self.tie_broken("coq-build:" + rel, out)
        self.extra.setdefault("build_log_tail", log[-1500:])
        return all_ok

    def coqchk(self, dirs=None):
        dirs = dirs or [self.pid]
        mods = []
        for d in dirs:
            for f in coq_files():
                if f.startswith(d + "/"):
                    mods.append("PV." + f[:-2].replace("/", "."))
        cmd = "cd %s && coqchk -silent -o -Q . PV %s" % (COQ, " ".join(mods))
        self.checker_cmds.append(cmd)
        rc, out = sh(cmd, timeout=1800)
        self.extra["coqchk_rc"] = rc
        self.extra["coqchk_tail"] = out[-3000:]
        if rc != 0:
            self.tie_broken("coqchk", out)
        return rc == 0

    # -- finish ---------------------------------------------------------------
    def finish(self):
        known = load_known()
        os.makedirs(os.path.join(BUILD, "replay"), exist_ok=True)
        lines = []
        new_viol = []
        known_hit = {}
        for v in self.violations:
            k = known.get((self.pid, v["key"]))
            if k and k.get("status") == "known":
                known_hit.setdefault(v["key"], (k, v))
            else:
                new_viol.append(v)
        # every 'known' entry for this property is re-demonstrated by the check; print them
        for key, (k, v) in sorted(known_hit.items()):
            lines.append("KNOWN-FINDING: property=%s %s [%s]" % (self.pid, k["what"], key))
        rc = 0
        seen = set()
        for v in new_viol:
            if v["key"] in seen:
                continue
            seen.add(v["key"])
            path = self._write_replay(v["key"], v)
            lines.append("VIOLATION property=%s replay=%s" % (self.pid, path))
            rc = 1
        if self.broken and not new_viol:
            path = self._write_replay("tie-broken", {"key": "tie-broken", "what": "proof obligation or model/code correspondence no longer checks; no failing input of the property was found by the search", "broken": self.broken})
            lines.append("VIOLATION property=%s replay=%s no-failing-input-found" % (self.pid, path))
            rc = 1
        self.write_evidence(len(seen) + (1 if (self.broken and not new_viol) else 0), sorted(known_hit))
        for l in lines:
            print(l, flush=True)
        if rc == 0:
            print("[%s] OK tier=%s evaluations=%d obligations=%d wall=%.1fs" % (
                self.pid, self.tier, self.evaluations, len(self.obligations), time.time() - self.t0), flush=True)
        return rc

    def _write_replay(self, key, obj):
        h = hashlib.sha1((self.pid + key).encode()).hexdigest()[:10]
        path = os.path.join(BUILD, "replay", "%s-%s.json" % (self.pid, h))
        obj = dict(obj)
        obj["property"] = self.pid
        obj["seed"] = self.seed
        obj["tier"] = self.tier
        obj["replay_cmd"] = "./check %s --replay %s" % (self.pid, path)
        with open(path, "w") as f:
            json.dump(obj, f, indent=1, default=repr)
        return path

    def write_evidence(self, nviol, known_keys):
        os.makedirs(EVID, exist_ok=True)
        n_ob = len(self.obligations)
        n_ok = sum(1 for o in self.obligations if o[1])
        cov = {
            "obligations": n_ob,
            "discharged": n_ok,
            "checker_cmd": " ; ".join(self.checker_cmds) or "none (build step did not run)",
            "trusted_base": self.trusted,
            "theorems": [{"name": n, "compiled": ok, "print_assumptions": a} for (n, ok, a) in self.obligations],
            "evaluations": self.evaluations,
            "distinct_nontrivial": len(self.nontrivial),
            "traces_validated_against_impl": self.traces,
            "rule": self.rule,
            "samples": self.samples[:8] or ["(no correspondence cases in this run)"],
            "input_distribution": self.dist,
            "known_findings_reproduced": known_keys,
            "broken": self.broken,
        }
        if self.exhaustive is not None:
            cov["exhaustive"] = self.exhaustive
        cov.update(self.extra)
        ev = {
            "property_id": self.pid,
            "tier": self.tier,
            "seed": self.seed,
            "level": "proof",
            "coverage": cov,
            "assumptions": self.assumptions,
            "wall_s": round(time.time() - self.t0, 2),
            "violations": nviol,
        }
        with open(os.path.join(EVID, self.pid + ".json"), "w") as f:
            json.dump(ev, f, indent=1, default=repr)


def load_known():
    p = os.path.join(VERIF, "known_findings.json")
    if not os.path.exists(p):
        return {}
    d = json.load(open(p))
    return {(e["property"], e["key"]): e for e in d.get("findings", [])}


def load_corpus(pid):
    d = os.path.join(CORPUS, pid)
    out = []
    if os.path.isdir(d):
        for f in sorted(os.listdir(d)):
            if f.endswith(".json"):
                out.append((f, json.load(open(os.path.join(d, f)))))
    return out


def impl_python(script, args=(), timeout=600, inp=None):
    """Run a harness script in a fresh /venv interpreter against /repo."""
    env = {"PYTHONPATH": REPO + ":" + os.path.join(VERIF, "harness"), "PYTHONHASHSEED": "0",
           "PYTHONWARNINGS": "ignore", "PYATV_VERIF": "1"}
    return sh([PY, script] + list(args), timeout=timeout, env=env, inp=inp)


class CoqCases:
    """Collect correspondence cases and evaluate them inside Coq (vm_compute).

    add(group, term, meta): `group` names a check function `check : T -> bool` registered with
    group(); `term` is the Coq text of one case of type T; meta is returned for mismatches.
    """

    def __init__(self, ctx, imports, per_file=400):
        self.ctx = ctx
        self.imports = imports
        self.per = per_file
        self.groups = {}

    def group(self, name, check_fn, typ):
        self.groups[name] = {"fn": check_fn, "typ": typ, "cases": []}

    def add(self, name, term, meta):
        self.groups[name]["cases"].append((term, meta))

    def run(self, timeout=900):
        items = []
        index = {}
        for g, d in self.groups.items():
            cs = d["cases"]
            for i in range(0, len(cs), self.per):
                chunk = cs[i:i + self.per]
                fname = "cases_%s_%03d" % (g, i // self.per)
                txt = ("From Coq Require Import List NArith ZArith Bool. Import ListNotations.\n%s\n"
                       "Definition cases : list (%s) := [\n%s\n].\n"
                       "Eval vm_compute in (bad_indices %s cases).\n"
                       % (self.imports, d["typ"], ";\n".join(t for t, _ in chunk), d["fn"]))
                items.append((fname, txt))
                index[fname] = (g, i)
        res = coq_run_many(items, self.ctx.pid, timeout=timeout)
        mismatches = []
        for fname, (rc, out) in sorted(res.items()):
            g, base = index[fname]
            bad = parse_eval_nat_list(out) if rc == 0 else None
            if bad is None:
                self.ctx.tie_broken("correspondence:%s:%s" % (g, fname), out)
                continue
            for b in bad:
                mismatches.append((g, self.groups[g]["cases"][base + b][1]))
        n = sum(len(d["cases"]) for d in self.groups.values())
        self.ctx.traces += n
        return mismatches
