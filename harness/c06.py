"""C06 - a device is trusted only if it proves the paired identity.

(1) coq/C06/Model.v: SRPAuthHandler.verify1, the three verify_credentials procedures, the exception
    mapping of error_handler / verify_connection, as pure functions over crypto ORACLES; theorems in
    coq/C06/Properties.v (accept iff the right questions were answered yes; error mapping; keys iff
    accept).
(2) "keys only after verify": control-flow skeletons of MrpProtocol.start, CompanionProtocol.start
    and verify_connection regenerated from /repo's AST on every run (coq/C06/Gen.v), checked by the
    verified analyser of Common/Skeleton.v for every fault / cancellation placement.
(3) correspondence + property oracle against the REAL code with REAL crypto: a harness accessory
    (HAP pair-verify responder built directly on `cryptography`) answers SRPAuthHandler.verify1,
    MrpProtocol.start (fake connection), CompanionProtocol.start (fake connection),
    verify_connection (HttpConnection with a fake post) and the AirPlay remote-control set-up.
"""
import ast
import asyncio
import binascii
import hashlib
import inspect
import json
import os
import random
import re
import textwrap
import types

import common
import gen_skeleton as gs
import vloop

from cryptography.exceptions import InvalidSignature, InvalidTag
from cryptography.hazmat.primitives import hashes, serialization
from cryptography.hazmat.primitives.asymmetric.ed25519 import Ed25519PrivateKey, Ed25519PublicKey
from cryptography.hazmat.primitives.asymmetric.x25519 import X25519PrivateKey, X25519PublicKey
from cryptography.hazmat.primitives.ciphers.aead import ChaCha20Poly1305
from cryptography.hazmat.primitives.kdf.hkdf import HKDF

PROTOS = ("mrp", "companion", "airplay")
COQ_PROTO = {"mrp": "MRP", "companion": "Companion", "airplay": "AirPlay", "airplay-glue": "AirPlay", "airplay-stream": "AirPlay"}

# --------------------------------------------------------------------------- independent crypto
RAWPUB = dict(encoding=serialization.Encoding.Raw, format=serialization.PublicFormat.Raw)
SALT = b"Pair-Verify-Encrypt-Salt"
INFO = b"Pair-Verify-Encrypt-Info"
N02 = b"\x00\x00\x00\x00PV-Msg02"
N03 = b"\x00\x00\x00\x00PV-Msg03"


def hk(salt, info, secret):
    return HKDF(algorithm=hashes.SHA512(), length=32, salt=salt, info=info).derive(secret)


def x25519(priv, peer):
    """-> shared secret or None (what the library calls ValueError)."""
    try:
        return X25519PrivateKey.from_private_bytes(priv).exchange(X25519PublicKey.from_public_bytes(peer))
    except ValueError:
        return None


def x_pub(priv):
    return X25519PrivateKey.from_private_bytes(priv).public_key().public_bytes(**RAWPUB)


def aead_dec(key, nonce, ct):
    try:
        return ChaCha20Poly1305(key).decrypt(nonce, ct, None)
    except InvalidTag:
        return None


def aead_enc(key, nonce, pt):
    return ChaCha20Poly1305(key).encrypt(nonce, pt, None)


def ed_pub(seed):
    return Ed25519PrivateKey.from_private_bytes(seed).public_key().public_bytes(**RAWPUB)


def ed_pk_loads(pk):
    try:
        Ed25519PublicKey.from_public_bytes(pk)
        return True
    except ValueError:
        return False


def ed_verify(pk, msg, sig):
    try:
        Ed25519PublicKey.from_public_bytes(pk).verify(sig, msg)
        return True
    except (InvalidSignature, ValueError):
        return False


def ed_sign(seed, msg):
    try:
        return Ed25519PrivateKey.from_private_bytes(seed).sign(msg)
    except ValueError:
        return None


# --------------------------------------------------------------------------- independent TLV8
def tlv_enc(items):
    out = b""
    for tag, val in items:
        if not val:
            out += bytes([tag, 0])
        for i in range(0, len(val), 255):
            ch = val[i:i + 255]
            out += bytes([tag, len(ch)]) + ch
    return out


def tlv_dec(data):
    """-> dict tag->bytes (fragments concatenated) or 'IndexError' (a tag byte without a length)."""
    res = {}
    pos = 0
    while pos < len(data):
        if pos + 1 >= len(data):
            return "IndexError"
        tag, ln = data[pos], data[pos + 1]
        val = data[pos + 2:pos + 2 + ln]
        res[tag] = res.get(tag, b"") + val
        pos += 2 + ln
    return res


# --------------------------------------------------------------------------- the world of one run
class Acc:
    def __init__(self, rnd, ident):
        self.seed = rnd.randbytes(32)
        self.ltpk = ed_pub(self.seed)
        self.ident = ident


class World:
    """Everything random in a scenario, derived from one integer."""

    def __init__(self, wseed, id_len=None):
        rnd = random.Random(wseed)
        self.wseed = wseed
        n = id_len if id_len is not None else rnd.choice([17, 36, 6, 1])
        mk = lambda: bytes(rnd.choice(b"0123456789ABCDEF:-") for _ in range(n))
        ida = mk()
        idb = mk()
        # the stored identifier has letters of both cases where it is long enough, so that
        # upper/lower-cased variants differ from it
        if not any(c in b"ABCDEF" for c in ida):
            ida = b"C" + ida[1:]
        if n >= 2 and not any(c in b"abcdef" for c in ida):
            first_upper = next(i for i in range(n) if ida[i] in b"ABCDEF")
            k = n - 1 if first_upper != n - 1 else n - 2
            ida = ida[:k] + bytes([b"abcdef"[ida[k] % 6]]) + ida[k + 1:]
        while idb == ida:
            idb = bytes([idb[0] ^ 1]) + idb[1:]
        self.acc = {"A": Acc(rnd, ida), "B": Acc(rnd, idb)}
        self.eph = {"A": rnd.randbytes(32), "B": rnd.randbytes(32), "M": rnd.randbytes(32)}
        self.client_seed = rnd.randbytes(32)
        self.client_ltpk = ed_pub(self.client_seed)
        self.client_id = ("%08X-%04X" % (rnd.getrandbits(32), rnd.getrandbits(16))).encode()
        self.other_client_eph = rnd.randbytes(32)     # the client's ephemeral key of ANOTHER session
        self.urandom_seed = rnd.getrandbits(64)

    def creds(self, variant=None):
        a = self.acc["A"]
        ltpk, ltsk, atv, cid = a.ltpk, self.client_seed, a.ident, self.client_id
        if variant == "ltpk-short":
            ltpk = ltpk[:31]
        elif variant == "ltsk-short":
            ltsk = ltsk[:31]
        elif variant == "ltpk-of-B":
            ltpk = self.acc["B"].ltpk
        elif variant == "id-of-B":
            atv = self.acc["B"].ident
        elif variant == "re-paired-B":
            # the device was paired again and now is (keys and identifier of) accessory B
            ltpk, atv = self.acc["B"].ltpk, self.acc["B"].ident
        return ltpk, ltsk, atv, cid

    def creds_str(self, variant=None):
        if variant == "none":
            return None
        return ":".join(binascii.hexlify(x).decode() for x in self.creds(variant))


def mutate(val, muts, stage):
    for st, op, arg in muts:
        if st != stage:
            continue
        if op == "flip":
            if arg < 8 * len(val):
                b = bytearray(val)
                b[arg // 8] ^= 1 << (arg % 8)
                val = bytes(b)
        elif op == "trunc":
            val = val[:arg]
        elif op == "append":
            val = val + bytes.fromhex(arg)
        elif op == "set":
            val = bytes.fromhex(arg)
        else:
            raise ValueError(op)
    return val


def respond(W, spec, cpub):
    """The (possibly dishonest) accessory's answer to the first pair-verify message: pairing-data
    bytes.  spec (JSON-able) says who answers with which keys and what is damaged afterwards."""
    if "raw" in spec:
        return bytes.fromhex(spec["raw"])
    muts = [tuple(m) for m in spec.get("mut", [])]
    other_cpub = x_pub(W.other_client_eph)
    eph = W.eph[spec.get("eph", "A")]
    cpub_dh = other_cpub if spec.get("dh_cpub") == "other" else cpub
    spub = x_pub(eph)
    shared = x25519(eph, cpub_dh)
    key = hk(SALT, INFO, shared) if shared is not None else b"\x00" * 32
    ident = W.acc[spec.get("id", "A")].ident
    signer = W.acc[spec.get("signer", "A")]
    s_spub = x_pub(W.eph[spec.get("sign_spub", spec.get("eph", "A"))])
    s_id = W.acc[spec.get("sign_id", spec.get("id", "A"))].ident
    s_cpub = other_cpub if spec.get("sign_cpub") == "other" else cpub
    if spec.get("sign_mutated_id"):
        # the holder of the long-term key signs whatever identifier is sent
        s_id = mutate(ident, muts, "id")
    parts = {"spub": s_spub, "id": s_id, "cpub": s_cpub}
    sig = ed_sign(signer.seed, b"".join(parts[k] for k in spec.get("sign_msg", ["spub", "id", "cpub"])))
    ident = mutate(ident, muts, "id")
    sig = mutate(sig, muts, "sig")
    items = []
    drop = spec.get("drop", [])
    if "inner-id" not in drop:
        fr = spec.get("fragment_id")
        if fr is not None:
            items += [(1, ident[:fr]), (1, ident[fr:])]
        else:
            items.append((1, ident))
    if "inner-sig" not in drop:
        items.append((10, sig))
    for tag, hx in spec.get("inner_extra", []):
        items.append((tag, bytes.fromhex(hx)))
    inner = mutate(tlv_enc(items), muts, "inner")
    enc = mutate(aead_enc(key, N02, inner), muts, "enc")
    spub_out = x_pub(W.eph[spec["spub_out"]]) if "spub_out" in spec else spub
    spub_out = mutate(spub_out, muts, "spub")
    outer = []
    if "outer-seqno" not in drop:
        outer.append((6, b"\x02"))
    if "outer-pubkey" not in drop:
        outer.append((3, spub_out))
    if "outer-enc" not in drop:
        outer.append((5, enc))
    for tag, hx in spec.get("outer_extra", []):
        outer.append((tag, bytes.fromhex(hx)))
    return mutate(tlv_enc(outer), muts, "pd")


def judge(W, cvar, cpriv, cpub, pd):
    """Independent evaluation of a reply with the `cryptography` package: which questions have
    which answers.  -> dict incl. 'genuine' (the property's condition) and the oracle tables."""
    ltpk, ltsk, atv_id, client_id = W.creds(cvar)
    r = {"genuine": False, "why": None, "tables": {"x": [], "hkdf": [], "dec": [], "enc": [], "pk": [], "sig": [], "sign": []},
         "fields": None, "m3": None}
    T = r["tables"]
    T["pk"].append(([ltpk], ed_pk_loads(ltpk)))
    outer = tlv_dec(pd)
    if outer == "IndexError" or 3 not in outer or 5 not in outer:
        r["why"] = "outer-malformed"
        return r
    spub, enc = outer[3], outer[5]
    r["fields"] = (spub, enc)
    shared = x25519(cpriv, spub)
    T["x"].append(([cpriv, spub], shared))
    if shared is None:
        r["why"] = "x25519-rejects-key"
        return r
    key = hk(SALT, INFO, shared)
    T["hkdf"].append(([SALT, INFO, shared], key))
    pt = aead_dec(key, N02, enc)
    T["dec"].append(([key, N02, enc], pt))
    if pt is None:
        r["why"] = "aead-fails"
        return r
    inner = tlv_dec(pt)
    if inner == "IndexError" or 1 not in inner or 10 not in inner:
        r["why"] = "inner-malformed"
        return r
    ident, sig = inner[1], inner[10]
    ok = ed_verify(ltpk, spub + ident + cpub, sig) if ed_pk_loads(ltpk) else False
    T["sig"].append(([ltpk, spub + ident + cpub, sig], ok))
    if ident != atv_id:
        r["why"] = "identifier-differs"
        return r
    if not ok:
        r["why"] = "signature-invalid"
        return r
    # the reply carries the stored identifier and a signature by the stored key over both
    # session public keys, inside data authenticated under the session key
    r["genuine"] = True
    dsig = ed_sign(ltsk, cpub + client_id + spub)
    T["sign"].append(([ltsk, cpub + client_id + spub], dsig))
    if dsig is not None:
        m3pt = tlv_enc([(1, client_id), (10, dsig)])
        m3 = aead_enc(key, N03, m3pt)
        T["enc"].append(([key, N03, m3pt], m3))
        r["m3"] = m3
        r["m3_key"] = key
    return r


# --------------------------------------------------------------------------- driving the real code
EXN_NAMES = ["EAuthentication", "EProtocol", "EConnectionFailed", "EBackOff", "ENoCredentials", "EInvalidResponse",
             "EInvalidState", "EOSError", "ETimeout", "EValueError", "EKeyError", "EIndexError", "EInvalidTag",
             "EOther", "ECancelled"]


def classify(ex):
    """exception instance -> constructor of coq/C06/Model.v exn."""
    from pyatv import exceptions as E
    if ex is None:
        return None
    if isinstance(ex, asyncio.CancelledError):
        return "ECancelled"
    for cls, name in ((E.AuthenticationError, "EAuthentication"), (E.ProtocolError, "EProtocol"),
                      (E.ConnectionFailedError, "EConnectionFailed"), (E.BackOffError, "EBackOff"),
                      (E.NoCredentialsError, "ENoCredentials"), (E.InvalidResponseError, "EInvalidResponse"),
                      (E.InvalidStateError, "EInvalidState"), (InvalidTag, "EInvalidTag"),
                      (asyncio.TimeoutError, "ETimeout"), (TimeoutError, "ETimeout"), (OSError, "EOSError"),
                      (KeyError, "EKeyError"), (IndexError, "EIndexError"), (ValueError, "EValueError")):
        if isinstance(ex, cls):
            return name
    if isinstance(ex, Exception):
        return "EOther"
    return "BaseException:" + type(ex).__name__


def make_exc(name):
    from pyatv import exceptions as E
    return {
        "EAuthentication": lambda: E.AuthenticationError("injected"),
        "EProtocol": lambda: E.ProtocolError("injected"),
        "EProtocol:HttpError": lambda: E.HttpError("injected", 500),
        "EConnectionFailed": lambda: E.ConnectionFailedError("injected"),
        "EBackOff": lambda: E.BackOffError("injected"),
        "ENoCredentials": lambda: E.NoCredentialsError("injected"),
        "EInvalidResponse": lambda: E.InvalidResponseError("injected"),
        "EInvalidState": lambda: E.InvalidStateError("injected"),
        "EOSError": lambda: OSError("injected"),
        "EOSError:ConnectionResetError": lambda: ConnectionResetError("injected"),
        "ETimeout": lambda: asyncio.TimeoutError(),
        "EValueError": lambda: ValueError("injected"),
        "EKeyError": lambda: KeyError("injected"),
        "EIndexError": lambda: IndexError("injected"),
        "EInvalidTag": lambda: InvalidTag(),
        "EOther": lambda: RuntimeError("injected"),
        "EOther:TypeError": lambda: TypeError("injected"),
        "ECancelled": lambda: asyncio.CancelledError(),
    }[name]()


class Shim:
    """stands in for module `os` inside pyatv.auth.hap_srp: ephemeral keys come from the scenario.
    Within one round (= until the accessory has seen a first pair-verify message) initialize()
    draws the same (signing seed, X25519 private key) pair, so that all protocols of one case
    talk with the same client key; every later round draws fresh keys."""

    def __init__(self, seed):
        self.seed = seed
        self.round = 0
        self.idx = 0
        self.calls = []

    def next_round(self):
        self.round += 1
        self.idx = 0

    def urandom(self, n):
        b = random.Random("%d/%d/%d" % (self.seed, self.round, self.idx % 2)).randbytes(n)
        self.idx += 1
        self.calls.append(b)
        return b


M4_OK = tlv_enc([(6, b"\x04")])


def m4_of(spec):
    """pairing data of the accessory's answer to the third message"""
    return bytes.fromhex(spec["m4"]) if "m4" in spec else M4_OK


def envelope_of(resp):
    """the envelope recipe of the answer the responder has just produced (first answer of a round only)"""
    if not resp.rounds or resp.rounds[-1].get("m3") is not None:
        return {}
    spec = resp.specs[min(len(resp.rounds) - 1, len(resp.specs) - 1)]
    return spec.get("envelope") or {}


def replaces_pairing_data(env):
    return bool(env) and any(k in env for k in ("pd", "em", "top"))


def companion_frame(env, ans):
    """OPACK object of the accessory's answer frame: {'_pd': data} unless the recipe says otherwise"""
    obj = {"_pd": ans}
    kind = env.get("pd")
    if kind == "missing":
        del obj["_pd"]
    elif kind is not None:
        obj["_pd"] = {"str": ans.hex(), "int": 7, "none": None, "list": [ans], "float": 1.5, "bool": True, "dict": {"d": ans},
                      "empty": b"", "empty-str": "", "zero": 0}[kind]
    if "em" in env:
        obj["_em"] = env["em"]
    if "ec" in env:
        obj["_ec"] = env["ec"]
    if env.get("top") == "list":
        return [obj]
    return obj


class Responder:
    """The accessory side of one connection attempt (possibly several verify rounds)."""

    def __init__(self, W, specs, f1=None, f3=None):
        self.W = W
        self.specs = specs if isinstance(specs, list) else [specs]
        self.f1, self.f3 = f1, f3
        self.rounds = []          # per round: dict(cpub, m2, m3)
        self.shim = None

    def on_message(self, pd):
        """-> answer bytes, or None to stay silent; raises the injected transport fault."""
        t = tlv_dec(pd)
        seq = t.get(6) if isinstance(t, dict) else None
        if seq == b"\x01":
            i = len(self.rounds)
            rd = {"cpub": t.get(3), "m2": None, "m3": None, "m4": None}
            self.rounds.append(rd)
            if self.shim is not None:
                self.shim.next_round()
            if self.f1 is not None and i == 0:
                if self.f1 == "silent":
                    return None
                raise make_exc(self.f1)
            spec = self.specs[min(i, len(self.specs) - 1)]
            if spec.get("replay_round") is not None:
                rd["m2"] = self.rounds[spec["replay_round"]]["m2"]
            else:
                rd["m2"] = respond(self.W, spec, rd["cpub"])
            return rd["m2"]
        if seq == b"\x03" and self.rounds:
            self.rounds[-1]["m3"] = t.get(5)
            if self.f3 is not None:
                if self.f3 == "silent":
                    return None
                raise make_exc(self.f3)
            spec = self.specs[min(len(self.rounds) - 1, len(self.specs) - 1)]
            self.rounds[-1]["m4"] = m4_of(spec)
            return self.rounds[-1]["m4"]
        return M4_OK


class Patches:
    """hap_srp.os shim + recording wrappers around the verify_credentials of the three procedures."""

    def __init__(self, W):
        self.W = W
        self.raw = []

    def __enter__(self):
        from pyatv.auth import hap_srp
        from pyatv.protocols.mrp.auth import MrpPairVerifyProcedure
        from pyatv.protocols.companion.auth import CompanionPairVerifyProcedure
        from pyatv.protocols.airplay.auth.hap import AirPlayHapPairVerifyProcedure
        self.hap_srp = hap_srp
        self.saved_os = hap_srp.os
        self.shim = Shim(self.W.urandom_seed)
        hap_srp.os = self.shim
        self.saved = []
        from pyatv.protocols.airplay import auth as ap_auth
        others = [getattr(ap_auth, n) for n in ("AirPlayHapTransientPairVerifyProcedure", "AirPlayLegacyPairVerifyProcedure",
                                                 "NullPairVerifyProcedure") if hasattr(ap_auth, n)]
        for cls in [MrpPairVerifyProcedure, CompanionPairVerifyProcedure, AirPlayHapPairVerifyProcedure] + others:
            orig = cls.verify_credentials
            self.saved.append((cls, orig))
            cls.verify_credentials = self._wrap(orig, cls.__name__)
        return self

    def _wrap(self, orig, name):
        raw = self.raw

        async def verify_credentials(obj):
            try:
                r = await orig(obj)
            except BaseException as ex:  # noqa
                raw.append(("exc", ex, name))
                raise
            raw.append(("ok", r, name))
            return r
        return verify_credentials

    def __exit__(self, *a):
        self.hap_srp.os = self.saved_os
        for cls, orig in self.saved:
            cls.verify_credentials = orig

    def client_priv(self, cpub):
        for b in reversed(self.shim.calls):
            if len(b) == 32 and cpub is not None and x_pub(b) == cpub:
                return b
        return None


def obs_record(p, resp, pt, exc, keys):
    """Canonical observation of one protocol run."""
    raw = pt.raw[-1] if pt.raw else None
    rd = resp.rounds[-1] if resp.rounds else {"cpub": None, "m2": None, "m3": None, "m4": None}
    return {
        "proto": p,
        "raw": None if raw is None else (("Accept" if raw[1] else "ReturnedFalse") if raw[0] == "ok" else classify(raw[1])),
        "procedure": None if raw is None else raw[2],
        "raw_repr": None if raw is None or raw[0] == "ok" else repr(raw[1])[:120],
        "surfaced": classify(exc),
        "surfaced_repr": None if exc is None else repr(exc)[:160],
        "keys": bool(keys),
        "m2": rd["m2"], "m3": rd["m3"], "cpub": rd["cpub"],
        "cpriv": pt.client_priv(rd["cpub"]),
        "rounds": len(resp.rounds),
    }


async def drive_mrp(W, cvar, resp, pt, init="same"):
    from pyatv.auth.hap_srp import SRPAuthHandler
    from pyatv.const import Protocol
    from pyatv.core import MutableService
    from pyatv.protocols.mrp import messages, protobuf
    from pyatv.protocols.mrp.connection import AbstractMrpConnection
    from pyatv.protocols.mrp.protocol import MrpProtocol
    from pyatv.settings import InfoSettings

    loop = asyncio.get_event_loop()

    class Conn(AbstractMrpConnection):
        def __init__(self):
            super().__init__()
            self.keys = []
            self.closed = 0

        async def connect(self):
            pass

        def enable_encryption(self, output_key, input_key):
            self.keys.append((output_key, input_key))

        @property
        def connected(self):
            return not self.closed

        def close(self):
            self.closed += 1

        def send(self, message):
            reply = None
            if message.type == protobuf.CRYPTO_PAIRING_MESSAGE:
                ans = resp.on_message(message.inner().pairingData)
                if ans is None:
                    return
                env = envelope_of(resp)
                reply = messages.create(protobuf.CRYPTO_PAIRING_MESSAGE)
                if env.get("pd") != "missing":
                    reply.inner().pairingData = ans
                reply.inner().status = env.get("mrp_status", 0)
            elif message.type == protobuf.DEVICE_INFO_MESSAGE:
                reply = messages.device_information(InfoSettings(), "accessory")
                reply.identifier = message.identifier
            elif message.identifier:
                reply = messages.create(protobuf.GENERIC_MESSAGE)
                reply.identifier = message.identifier
            if reply is not None:
                loop.call_soon(proto.message_received, reply, None)

    conn = Conn()
    service = MutableService("id", Protocol.MRP, 0, {})
    service.credentials = W.creds_str(cvar if init == "same" else init)
    proto = MrpProtocol(conn, SRPAuthHandler(), service, InfoSettings())
    service.credentials = W.creds_str(cvar)          # what is stored when the object connects
    exc = None
    try:
        await proto.start()
    except BaseException as ex:  # noqa
        exc = ex
    keys = list(conn.keys)
    try:
        proto.stop()
    except Exception:
        pass
    return obs_record("mrp", resp, pt, exc, keys)


async def drive_companion(W, cvar, resp, pt, init="same"):
    from pyatv.auth.hap_srp import SRPAuthHandler
    from pyatv.const import Protocol
    from pyatv.core import MutableService
    from pyatv.protocols.companion.connection import FrameType
    from pyatv.protocols.companion.protocol import CompanionProtocol
    from pyatv.support import opack

    loop = asyncio.get_event_loop()

    class Conn:
        def __init__(self):
            self.keys = []
            self.listener = None

        def set_listener(self, listener):
            self.listener = listener

        async def connect(self):
            pass

        def close(self):
            pass

        @property
        def connected(self):
            return True

        def enable_encryption(self, output_key, input_key):
            self.keys.append((output_key, input_key))

        def send(self, frame_type, data):
            if frame_type not in (FrameType.PV_Start, FrameType.PV_Next):
                return
            obj, _ = opack.unpack(data)
            ans = resp.on_message(obj.get("_pd", b""))
            if ans is None:
                return
            loop.call_soon(self.listener.frame_received, FrameType.PV_Next, opack.pack(companion_frame(envelope_of(resp), ans)))

    conn = Conn()
    service = MutableService("id", Protocol.Companion, 0, {})
    service.credentials = W.creds_str(cvar if init == "same" else init)
    proto = CompanionProtocol(conn, SRPAuthHandler(), service)
    service.credentials = W.creds_str(cvar)
    exc = None
    try:
        await proto.start()
    except BaseException as ex:  # noqa
        exc = ex
    keys = list(conn.keys)
    proto.stop()
    return obs_record("companion", resp, pt, exc, keys)


def fake_http(resp):
    """HttpConnection whose requests are answered by the harness accessory; every request is logged
    as (method, path, kind) with kind in hap-verify / legacy-verify / transient / other."""
    from pyatv.support.http import HttpConnection, HttpResponse

    class Http(HttpConnection):
        def __init__(self):
            super().__init__()
            self.log = []
            self._local_ip = self._remote_ip = "127.0.0.1"

        async def send_and_receive(self, method, uri, protocol="HTTP/1.1", user_agent=None, content_type=None,
                                   headers=None, body=None, allow_error=False, timeout=10):
            await asyncio.sleep(0)
            proto, ver = protocol.split("/")
            hdrs = {}
            if headers and "CSeq" in headers:
                hdrs["CSeq"] = str(headers["CSeq"])
            raw = body if isinstance(body, bytes) else b""
            if method == "POST" and uri == "/pair-setup":
                # transient pairing (fixed PIN, no identity): any device can answer it
                self.log.append((method, uri, "transient"))
                t = tlv_dec(raw)
                seq = t.get(6) if isinstance(t, dict) else None
                rnd = random.Random(resp.W.wseed)
                if seq == b"\x01":
                    ans = tlv_enc([(6, b"\x02"), (2, rnd.randbytes(16)), (3, b"\x7f" + rnd.randbytes(383))])
                else:
                    ans = tlv_enc([(6, b"\x04"), (4, rnd.randbytes(64))])
                return HttpResponse(proto, ver, 200, "OK", dict(hdrs, **{"content-type": "application/octet-stream"}), ans)
            if method == "POST" and uri == "/pair-verify" and len(raw) == 68 and raw[:4] == b"\x01\x00\x00\x00":
                # legacy device verification, first message: the device's curve key and some data
                self.log.append((method, uri, "legacy-verify"))
                return HttpResponse(proto, ver, 200, "OK", hdrs, x_pub(resp.W.eph["A"]) + random.Random(resp.W.wseed).randbytes(64))
            if method == "POST" and uri == "/pair-verify" and raw[:4] == b"\x00\x00\x00\x00" and len(raw) == 68:
                self.log.append((method, uri, "legacy-verify"))
                return HttpResponse(proto, ver, 200, "OK", hdrs, b"")
            if method == "GET" and uri == "/info":
                # unauthenticated information query (RAOP asks before it verifies)
                import plistlib
                self.log.append((method, uri, "info"))
                return HttpResponse(proto, ver, 200, "OK", dict(hdrs, **{"content-type": "application/x-apple-binary-plist"}),
                                    plistlib.dumps({}, fmt=plistlib.FMT_BINARY))
            if not (method == "POST" and uri == "/pair-verify"):
                self.log.append((method, uri.split("/")[-1] if uri.startswith("rtsp://") else uri, "other"))
                hdrs.update({"Transport": "RTP/AVP/UDP;unicast;mode=record;control_port=1;timing_port=2;server_port=3", "Session": "1"})
                return HttpResponse(proto, ver, 200, "OK", hdrs, b"")
            self.log.append((method, uri, "hap-verify"))
            ans = resp.on_message(raw)
            if ans is None:
                raise asyncio.TimeoutError()      # what the real send_and_receive does after its timeout
            return HttpResponse(proto, ver, 200, "OK", dict(hdrs, **{"content-type": "application/octet-stream"}), ans)

    return Http()


async def drive_airplay(W, cvar, resp, pt):
    from pyatv.auth.hap_pairing import parse_credentials
    from pyatv.protocols.airplay.auth import verify_connection

    conn = fake_http(resp)
    before = (conn.receive_processor, conn.send_processor)
    exc = None
    try:
        await verify_connection(parse_credentials(W.creds_str(cvar)), conn)
    except BaseException as ex:  # noqa
        exc = ex
    keys = conn.receive_processor is not before[0] or conn.send_processor is not before[1]
    return obs_record("airplay", resp, pt, exc, keys)


async def drive_airplay_rc(W, cvar, resp, pt):
    """The remote-control set-up of the AirPlay protocol (_connect_rc -> AP2Session.connect ->
    verify_connection): the exception that pyatv.connect() would hand to the user."""
    from pyatv import conf
    from pyatv.const import Protocol
    from pyatv.core import Core, CoreStateDispatcher, MutableService, ProtocolStateDispatcher
    from pyatv.auth.hap_pairing import parse_credentials
    from pyatv.protocols import airplay
    from pyatv.protocols.airplay import ap2_session
    from pyatv.settings import Settings
    from pyatv.support.state_producer import StateProducer

    conn = fake_http(resp)
    before = (conn.receive_processor, conn.send_processor)

    async def http_connect(address, port):
        return conn

    service = MutableService("id", Protocol.AirPlay, 7000, {})
    service.credentials = W.creds_str(cvar)
    config = conf.AppleTV("127.0.0.1", "verif")
    config.add_service(service)
    core = Core(asyncio.get_event_loop(), config, service, Settings(), StateProducer(), types.SimpleNamespace(session=None),
                lambda *a: (lambda: None), ProtocolStateDispatcher(Protocol.AirPlay, CoreStateDispatcher()))
    sd = airplay._create_mrp_tunnel_data(core, parse_credentials(service.credentials))
    saved = ap2_session.http_connect
    ap2_session.http_connect = http_connect
    exc = None
    try:
        await sd.connect()
    except BaseException as ex:  # noqa
        exc = ex
    finally:
        ap2_session.http_connect = saved
        try:
            sd.close()
        except Exception:
            pass
    keys = conn.receive_processor is not before[0] or conn.send_processor is not before[1]
    return obs_record("airplay-rc", resp, pt, exc, keys)


def announced_service(W, case):
    from pyatv.const import Protocol
    from pyatv.core import MutableService
    an = case["announce"]
    return MutableService("id", Protocol.AirPlay, 7000, dict(an["props"]), credentials=stored_string(W, an["stored"]))


def stored_string(W, kind):
    """service.credentials for a stored-credential kind"""
    hx = lambda b: binascii.hexlify(b).decode()
    if kind is None:
        return None
    if kind == "hap":
        return W.creds_str()
    if kind == "legacy":
        return hx(W.client_id) + ":" + hx(W.client_seed)
    if kind == "legacy4":
        return ":" + hx(W.client_seed) + "::" + hx(W.client_id)
    if kind == "transient":
        return hx(b"transient") + ":::"
    if kind == "null":
        return ":::"
    if kind == "invalid":
        return hx(W.acc["A"].ltpk) + ":" + hx(W.client_seed) + "::"
    raise ValueError(kind)


async def drive_airplay_glue(W, case, resp, pt):
    """verify_connection(extract_credentials(service), connection) - as atvproxy and the demo of the
    seeded change do; the service carries the ANNOUNCED properties of the case."""
    from pyatv.protocols.airplay.auth import extract_credentials, verify_connection
    conn = fake_http(resp)
    before = (conn.receive_processor, conn.send_processor)
    exc = None
    try:
        await verify_connection(extract_credentials(announced_service(W, case)), conn)
    except BaseException as ex:  # noqa
        exc = ex
    keys = conn.receive_processor is not before[0] or conn.send_processor is not before[1]
    return obs_record("airplay-glue", resp, pt, exc, keys)


async def drive_airplay_setup(W, case, resp, pt):
    """pyatv.protocols.airplay.setup(core) on a service with the announced properties; every
    SetupData it yields is connected (the remote-control tunnel is the one that verifies)."""
    from pyatv import conf
    from pyatv.const import Protocol
    from pyatv.core import Core, CoreStateDispatcher, ProtocolStateDispatcher
    from pyatv.protocols import airplay
    from pyatv.protocols.airplay import ap2_session
    from pyatv.settings import Settings
    from pyatv.support.state_producer import StateProducer

    conn = fake_http(resp)
    before = (conn.receive_processor, conn.send_processor)

    async def http_connect(address, port):
        return conn

    service = announced_service(W, case)
    config = conf.AppleTV("127.0.0.1", "verif")
    config.add_service(service)
    core = Core(asyncio.get_event_loop(), config, service, Settings(), StateProducer(), types.SimpleNamespace(session=None),
                lambda *a: (lambda: None), ProtocolStateDispatcher(Protocol.AirPlay, CoreStateDispatcher()))
    saved = ap2_session.http_connect
    ap2_session.http_connect = http_connect
    exc = None
    sds = []
    try:
        for sd in airplay.setup(core):
            sds.append(sd)
            if sd.protocol == Protocol.MRP:
                await sd.connect()
    except BaseException as ex:  # noqa
        exc = ex
    finally:
        ap2_session.http_connect = saved
        for sd in sds:
            try:
                sd.close()
            except Exception:
                pass
    keys = conn.receive_processor is not before[0] or conn.send_processor is not before[1]
    return obs_record("airplay-setup", resp, pt, exc, keys)


GENUINE_FOR = {None: {}, "ltpk-of-B": {"signer": "B"}, "re-paired-B": {"eph": "B", "id": "B", "signer": "B"}}


async def drive_airplay_stream(W, cvar, resp, pt, init="same", twice=False):
    """AirPlayStream(core) is created while [init] is stored; create_airplay_protocol(service, rtsp)
    + setup() (what play_url does before streaming) run while [cvar] is stored.  twice: the same
    stream object already connected once (genuine accessory of that time) before the replacement."""
    from pyatv import conf
    from pyatv.const import Protocol
    from pyatv.core import Core, CoreStateDispatcher, MutableService, ProtocolStateDispatcher
    from pyatv.protocols.airplay import AirPlayStream
    from pyatv.settings import Settings
    from pyatv.support.state_producer import StateProducer

    first = cvar if init == "same" else init
    service = MutableService("id", Protocol.AirPlay, 7000, {"features": "0x00000000,0x10000"}, credentials=W.creds_str(first))
    config = conf.AppleTV("127.0.0.1", "verif")
    config.add_service(service)
    core = Core(asyncio.get_event_loop(), config, service, Settings(), StateProducer(), types.SimpleNamespace(session=None),
                lambda *a: (lambda: None), ProtocolStateDispatcher(Protocol.AirPlay, CoreStateDispatcher()))
    stream = AirPlayStream(core)

    async def connect_once():
        conn = fake_http(resp)
        before = (conn.receive_processor, conn.send_processor)

        async def no_rtsp(*a, **k):
            raise RuntimeError("harness: nothing behind the verification")

        rtsp = types.SimpleNamespace(connection=conn, setup=no_rtsp)
        exc = None
        try:
            proto = stream.create_airplay_protocol(service, rtsp)
            await proto.setup(1, 2)
        except BaseException as ex:  # noqa
            exc = ex
        return exc, conn.receive_processor is not before[0] or conn.send_processor is not before[1]

    if twice and first != "none":
        await connect_once()
    service.credentials = W.creds_str(cvar)
    n = len(pt.raw)
    exc, keys = await connect_once()
    o = obs_record("airplay-stream", resp, pt, exc, keys)
    if len(pt.raw) == n:
        o["raw"] = o["procedure"] = None        # no procedure ran in the connect that is judged
    return o


def run_history_proto(p, W, case):
    hist = case["history"]
    specs = case["spec"]
    twice = bool(hist.get("twice")) and p == "airplay-stream" and hist["init"] != "none"
    if twice:
        specs = [GENUINE_FOR.get(None if hist["init"] == "same" else hist["init"], {}), case["spec"]]
    resp = Responder(W, specs)
    with Patches(W) as pt:
        resp.shim = pt.shim
        drv = {"mrp": drive_mrp, "companion": drive_companion, "airplay-stream": drive_airplay_stream}[p]
        kw = {"twice": True} if twice else {}
        return vloop.run(drv, W, case.get("cvar"), resp, pt, hist["init"], **kw)


def run_announced(p, W, case):
    resp = Responder(W, case["spec"])
    with Patches(W) as pt:
        resp.shim = pt.shim
        return vloop.run({"airplay-glue": drive_airplay_glue, "airplay-setup": drive_airplay_setup}[p], W, case, resp, pt)


DRIVERS = {"mrp": drive_mrp, "companion": drive_companion, "airplay": drive_airplay, "airplay-rc": drive_airplay_rc}


def run_proto(p, W, cvar, specs, f1=None, f3=None):
    resp = Responder(W, specs, f1, f3)
    with Patches(W) as pt:
        resp.shim = pt.shim
        return vloop.run(DRIVERS[p], W, cvar, resp, pt)


def run_verify1(W, cvar, fields_of):
    """Direct SRPAuthHandler.verify1 on the two fields of the accessory's answer.  fields_of(cpub)
    -> (session_pub_key, encrypted).  -> observation dict."""
    from pyatv.auth.hap_pairing import HapCredentials
    from pyatv.auth.hap_srp import SRPAuthHandler
    with Patches(W) as pt:
        h = SRPAuthHandler()
        _, cpub = h.initialize()
        spub, enc = fields_of(cpub)
        try:
            out = ("Accept", h.verify1(HapCredentials(*W.creds(cvar)), spub, enc))
        except BaseException as ex:  # noqa
            out = (classify(ex), None)
        return {"proto": "verify1", "raw": out[0], "m3": out[1], "cpub": cpub, "cpriv": pt.client_priv(cpub)}


# --------------------------------------------------------------------------- cases
def header_positions(items):
    """byte offsets of the tag and length bytes in tlv_enc(items)."""
    pos, out = 0, []
    for tag, val in items:
        chunks = [val[i:i + 255] for i in range(0, len(val), 255)] or [b""]
        for ch in chunks:
            out += [pos, pos + 1]
            pos += 2 + len(ch)
    return out


def base_lengths(W):
    n = len(W.acc["A"].ident)
    inner = len(tlv_enc([(1, b"i" * n), (10, b"s" * 64)]))
    enc = inner + 16
    pd = len(tlv_enc([(6, b"\x02"), (3, b"k" * 32), (5, b"e" * enc)]))
    return {"spub": 32, "enc": enc, "id": n, "sig": 64, "inner": inner, "pd": pd}


def structural_bits(W):
    """bit positions of tag/length bytes (and the SeqNo value) of the outer and inner TLV."""
    L = base_lengths(W)
    outer_bytes = sorted(set(header_positions([(6, b"\x02"), (3, b"k" * 32), (5, b"e" * L["enc"])]) + [2]))
    inner_bytes = header_positions([(1, b"i" * L["id"]), (10, b"s" * 64)])
    return ([b * 8 + k for b in outer_bytes for k in range(8)], [b * 8 + k for b in inner_bytes for k in range(8)])


def gen_cases(ctx, W, full, stride=1):
    """Recipes for one world.  full: every bit of every field; otherwise a stride over the bits
    (all truncations and all special cases are always present)."""
    L = base_lengths(W)
    out = []

    def add(family, spec, cvar=None, f1=None, f3=None):
        out.append({"family": family, "spec": spec, "cvar": cvar, "f1": f1, "f3": f3, "wseed": W.wseed,
                    "id_len": len(W.acc["A"].ident)})

    add("genuine", {})
    off = ctx.rng.randrange(stride) if stride > 1 else 0
    for field in ("spub", "enc", "id", "sig"):
        for bit in range(8 * L[field]):
            if full or bit % stride == off or bit < 8 or bit >= 8 * L[field] - 8:
                add("flip:" + field, {"mut": [[field, "flip", bit]]})
    ob, ib = structural_bits(W)
    for bit in (range(8 * L["pd"]) if full else ob):
        add("flip:pd", {"mut": [["pd", "flip", bit]]})
    for bit in (range(8 * L["inner"]) if full else ib):
        add("flip:inner", {"mut": [["inner", "flip", bit]]})
    def trunc_points(n):
        # every length; for fields spanning TLV fragments a stride plus the lengths around the boundaries
        if n <= 160:
            return range(n)
        return [k for k in range(n) if k % 48 == 0 or k < 3 or k >= n - 3 or abs(k % 255) <= 2 or k % 255 >= 253 or abs(k % 257) <= 2]

    for field in ("spub", "enc", "id", "sig", "inner", "pd"):
        for n in trunc_points(L[field]):
            add("trunc:" + field, {"mut": [[field, "trunc", n]]})
    # another identifier, properly signed by the stored long-term key
    for n in trunc_points(L["id"]):
        add("trunc:id+signed", {"mut": [["id", "trunc", n]], "sign_mutated_id": True})
    # A peer that HOLDS the stored long-term key but presents another identifier, signing
    # consistently over (session_pub ++ identifier_as_sent ++ own_pub): the signature verifies,
    # only the identifier comparison stands between it and acceptance.
    def other_id(name, val):
        if val != stored_id:
            add("otherid:" + name, {"mut": [["id", "set", val.hex()]], "sign_mutated_id": True})

    stored_id = W.acc["A"].ident
    nid = L["id"]
    bits = range(8 * nid) if nid <= 64 else [b for b in range(8 * nid) if b < 64 or b >= 8 * nid - 64 or b % 8 == 5 and (b // 8) % 4 == 0 or b % stride == 0]
    for bit in bits:
        add("flip:id+signed", {"mut": [["id", "flip", bit]], "sign_mutated_id": True})
    for k in trunc_points(nid):
        if k:
            other_id("suffix-from-%d" % k, stored_id[k:])
    other_id("upper", stored_id.upper())
    other_id("lower", stored_id.lower())
    other_id("swapcase", stored_id.swapcase())
    other_id("title", stored_id.title())
    for name, tail in (("space", b" "), ("nul", b"\x00"), ("newline", b"\n"), ("crlf", b"\r\n"), ("tab", b"\t"), ("two-spaces", b"  "),
                       ("two-nuls", b"\x00\x00"), ("slash", b"/"), ("colon", b":"), ("ff", b"\xff"), ("nbsp-utf8", b"\xc2\xa0")):
        other_id("trailing-" + name, stored_id + tail)
        other_id("leading-" + name, tail + stored_id)
    other_id("surrounded-by-spaces", b" " + stored_id + b" ")
    other_id("without-separators", stored_id.replace(b":", b"").replace(b"-", b""))
    other_id("separators-swapped", stored_id.replace(b":", b"\x01").replace(b"-", b":").replace(b"\x01", b"-"))
    other_id("doubled", stored_id + stored_id)
    other_id("reversed", stored_id[::-1])
    other_id("zero-padded", b"0" + stored_id)
    other_id("first-char-repeated", stored_id[:1] + stored_id)
    other_id("last-char-repeated", stored_id + stored_id[-1:])
    other_id("identifier-of-B", W.acc["B"].ident)
    other_id("fullwidth-utf8", "".join(chr(0xFEE0 + c) if 0x21 <= c <= 0x7E else chr(c) for c in stored_id[:8]).encode() + stored_id[8:])
    add("long:id+signed", {"mut": [["id", "append", "00"]], "sign_mutated_id": True})
    # identifier / key / signature of a second valid accessory
    add("subst:whole-reply-of-B", {"eph": "B", "id": "B", "signer": "B"})
    add("subst:signature-by-B", {"signer": "B"})
    add("subst:signature-by-B-own-eph", {"eph": "B", "signer": "B"})
    add("subst:identifier-of-B", {"id": "B", "sign_id": "A"})
    add("subst:identifier-of-B-signed-by-A", {"id": "B"})
    add("subst:session-key-of-B-outside", {"spub_out": "B"})
    add("subst:signed-over-session-key-of-B", {"sign_spub": "B"})
    add("subst:attacker-eph-signature-over-A-eph", {"eph": "M", "sign_spub": "A"})
    add("subst:attacker-eph-signed-by-B-as-A", {"eph": "M", "signer": "B"})
    add("subst:signed-identifier-of-B-sent-A", {"sign_id": "B"})
    # signatures by the right key over the wrong message
    for msg in (["spub", "id"], ["id", "cpub"], ["spub", "cpub"], ["cpub", "id", "spub"], ["id", "spub", "cpub"], ["id"], []):
        add("subst:signed-message-" + ("+".join(msg) or "empty"), {"sign_msg": msg})
    # replies recorded in another session
    add("replay:verbatim-other-session", {"dh_cpub": "other", "sign_cpub": "other"})
    add("replay:rewrapped-signature-of-other-session", {"sign_cpub": "other"})
    add("replay:rewrapped-by-attacker-eph", {"eph": "M", "sign_spub": "A", "sign_cpub": "other"})
    # missing fields / stray bytes
    for d in (["outer-pubkey"], ["outer-enc"], ["outer-pubkey", "outer-enc"], ["outer-seqno"], ["inner-id"], ["inner-sig"],
              ["inner-id", "inner-sig"], ["outer-seqno", "outer-pubkey", "outer-enc"]):
        add("missing:" + "+".join(d), {"drop": d})
    add("missing:error-instead", {"drop": ["outer-pubkey", "outer-enc"], "outer_extra": [[7, "02"]]})
    add("extra:error-with-valid-fields", {"outer_extra": [[7, "02"]]})
    add("extra:backoff-error", {"drop": ["outer-pubkey", "outer-enc"], "outer_extra": [[7, "03"], [8, "0a00"]]})
    for where in ("pd", "inner"):
        for tail in ("01", "0a", "ff", "0100", "0a00", "0301"):
            add("stray:%s+%s" % (where, tail), {"mut": [[where, "append", tail]]})
    add("fragment:identifier", {"fragment_id": max(1, L["id"] // 2)})
    add("extra:inner-unknown-item", {"inner_extra": [[17, "00ff"]]})
    add("extra:inner-second-signature-fragment", {"inner_extra": [[10, "00"]]})
    add("extra:inner-second-identifier-fragment", {"inner_extra": [[1, "41"]]})
    for field in ("spub", "sig", "id", "enc"):
        add("long:" + field, {"mut": [[field, "append", "00"]]})
    # stored credentials that do not fit the accessory
    for cv in ("ltpk-short", "ltsk-short", "ltpk-of-B", "id-of-B"):
        add("creds:" + cv, {}, cvar=cv)
    add("creds:ltpk-of-B+reply-of-B", {"eph": "B", "id": "B", "signer": "B"}, cvar="ltpk-of-B")
    # transport faults around a genuine answer
    for name in ("EAuthentication", "EProtocol", "EProtocol:HttpError", "EConnectionFailed", "EBackOff", "ENoCredentials",
                 "EInvalidResponse", "EInvalidState", "EOSError", "EOSError:ConnectionResetError", "ETimeout", "EValueError",
                 "EKeyError", "EIndexError", "EInvalidTag", "EOther", "EOther:TypeError", "ECancelled", "silent"):
        add("fault:first-exchange", {}, f1=name)
        add("fault:second-exchange", {}, f3=name)
    # the accessory's answer to the third message (genuine first answer)
    for name, m4 in (("error", "0601040701 02".replace(" ", "")), ("error-only", "070102"), ("backoff", "0601040701030802 0a00".replace(" ", "")),
                     ("empty", ""), ("lone-tag", "06010407"), ("unknown-item", "060104110100")):
        add("m4:" + name, {"m4": m4})
    # answers whose envelope is wrong: Companion frames with _pd of the wrong OPACK type, missing or
    # empty, with an error report (_em / _ec); MRP crypto pairing messages without pairing data / with
    # an error status.  f1_model: how the model sees it (the exchange itself raises ProtocolError).
    def env_case(name, protos, env, f1_model=None, spec=None):
        c = {"family": "envelope:" + name, "spec": dict(spec or {}, envelope=env), "cvar": None, "f1": None, "f3": None, "wseed": W.wseed,
             "id_len": len(W.acc["A"].ident), "protos": list(protos)}
        if f1_model:
            c["f1_model"] = f1_model
        out.append(c)

    for kind in ("str", "int", "list", "float", "bool", "dict"):
        env_case("companion:_pd-is-" + kind, ["companion"], {"pd": kind}, "EProtocol")
    for kind in ("none", "missing", "empty", "empty-str", "zero"):
        env_case("companion:_pd-" + kind, ["companion"], {"pd": kind})
    env_case("companion:_em-with-genuine-data", ["companion"], {"em": "kAuthenticationErr"}, "EProtocol")
    env_case("companion:_em-and-_ec-with-genuine-data", ["companion"], {"em": "No such device", "ec": 6727}, "EProtocol")
    env_case("companion:_em-without-data", ["companion"], {"em": "kAuthenticationErr", "ec": 6754, "pd": "missing"}, "EProtocol")
    env_case("companion:_em-empty-text", ["companion"], {"em": ""}, "EProtocol")
    env_case("companion:_ec-only-genuine-data", ["companion"], {"ec": 6727})
    env_case("companion:_ec-only-impostor", ["companion"], {"ec": 0}, spec={"signer": "B"})
    env_case("mrp:pairing-data-missing", ["mrp"], {"pd": "missing"})
    env_case("mrp:pairing-data-missing-error-status", ["mrp"], {"pd": "missing", "mrp_status": -6727})
    env_case("mrp:error-status-genuine-data", ["mrp"], {"mrp_status": -6727})
    env_case("mrp:error-status-impostor", ["mrp"], {"mrp_status": 1}, spec={"signer": "B"})
    # random multi-damage
    nf = 60 if not full else 400
    for _ in range(nf):
        muts = []
        for _ in range(ctx.rng.choice([1, 2, 2, 3])):
            field = ctx.rng.choice(["spub", "enc", "id", "sig", "inner", "pd"])
            if ctx.rng.random() < 0.75:
                muts.append([field, "flip", ctx.rng.randrange(8 * L[field])])
            else:
                muts.append([field, "trunc", ctx.rng.randrange(L[field] + 1)])
        spec = {"mut": muts}
        if ctx.rng.random() < 0.3:
            spec["signer"] = ctx.rng.choice(["A", "B"])
            spec["eph"] = ctx.rng.choice(["A", "B", "M"])
        add("fuzz", spec)
    return out


def fault_coq(f):
    if f is None:
        return None
    return "ETimeout" if f == "silent" else f.split(":")[0]


def evaluate(W, case, protos=PROTOS, with_v1=True):
    """Run one case on the real code (the protocols and the direct call), judge the answer
    independently.  -> dict(obs=[...], v1=..., judge=..., pd=...)"""
    cvar, f1, f3 = case.get("cvar"), case.get("f1"), case.get("f3")
    obs = [run_proto(p, W, cvar, case["spec"], f1, f3) for p in protos]
    ref = next((o for o in obs if o["cpub"] is not None), None)
    res = {"obs": obs, "v1": None, "judge": None, "pd": None, "cpub": None, "cpriv": None, "harness_error": None}
    if ref is None or ref["cpriv"] is None:
        res["harness_error"] = "client ephemeral key not observed (first message not seen or hap_srp no longer draws keys from os.urandom)"
        return res
    cpub, cpriv = ref["cpub"], ref["cpriv"]
    if any(o["cpub"] != cpub for o in obs):
        res["harness_error"] = "client ephemeral keys differ between the protocol runs of one case"
        return res
    pd = respond(W, case["spec"], cpub)
    for o in obs:
        if f1 is None and o["m2"] != pd:
            res["harness_error"] = "accessory answers differ between runs"
            return res
    env = case["spec"].get("envelope") or {}
    if replaces_pairing_data(env):
        # the answer frame does not deliver these pairing data at all (wrong type, error report, ...)
        pd = b""
        j = judge(W, cvar, cpriv, cpub, pd)
        j["why"] = "the answer is not pairing data: %s" % json.dumps(env, sort_keys=True)
        res.update(pd=pd, cpub=cpub, cpriv=cpriv, judge=j)
        return res
    j = judge(W, cvar, cpriv, cpub, pd)
    res.update(pd=pd, cpub=cpub, cpriv=cpriv, judge=j)
    if with_v1 and j["fields"] is not None and f1 is None and f3 is None:
        v = run_verify1(W, cvar, lambda cp: j["fields"])
        if v["cpub"] != cpub:
            res["harness_error"] = "client ephemeral key of the direct call differs"
            return res
        res["v1"] = v
    return res


def oracle(case, res):
    """The property, judged on what the real code did.  -> list of (key, what)."""
    errs = []
    j = res["judge"]
    fault = case.get("f1") is not None or case.get("f3") is not None
    genuine = bool(j and j["genuine"]) and case.get("f1") is None
    why = (j or {}).get("why")
    if case.get("twice"):
        # the reply was recorded in the FIRST verify round of this object and replayed in the second
        # (if it still "proves" anything, the client's ephemeral key was reused)
        why = "reply of the first verify round replayed in the second" + (" - and the client's ephemeral key was reused" if genuine else "")
        genuine = False
    for o in res["obs"]:
        p = o["proto"]
        # no_top: the procedure object was driven directly (no start()/verify_connection() around it);
        # airplay-rc: the set-up goes on after verification (and fails against the fake)
        inner_only = bool(o.get("no_top")) or p in ("airplay-rc", "airplay-setup")
        connected = (o["raw"] == "Accept") if inner_only else (o["surfaced"] is None)
        if case.get("history") and case.get("cvar") == "none":
            # nothing is stored when the object connects: no verification is asked for, but then no
            # keys either (and certainly none from credentials that were stored earlier)
            if o["keys"] or o["raw"] == "Accept":
                errs.append(("C06:%s:keys-enabled-without-verify" % p,
                             "%s verified against / installed keys from credentials that were no longer stored when it connected" % p))
            continue
        if connected and not genuine:
            errs.append(("C06:%s:forged-reply-accepted" % p,
                         "%s connected although the reply does not prove the paired identity (%s)" % (p, why or "transport fault")))
        if o["keys"] and (not genuine or (o["surfaced"] is not None and not inner_only) or o["raw"] != "Accept"):
            errs.append(("C06:%s:keys-enabled-without-verify" % p,
                         "%s installed encryption keys although verification did not succeed (%s, raised %s)" % (p, why, o["surfaced_repr"])))
        if p in ("airplay-glue", "airplay-setup") and o["raw"] is None:
            continue        # no procedure ran at all (nothing to connect / the set-up itself refused the announcement)
        if not connected and not fault and not genuine and not o.get("no_top") and o["surfaced"] != "EAuthentication":
            errs.append(("C06:%s:wrong-exception" % p,
                         "%s: a reply that does not prove the identity (%s) surfaced as %s instead of AuthenticationError" % (p, why, o["surfaced_repr"])))
    v = res["v1"]
    if v is not None and v["raw"] == "Accept" and not genuine:
        errs.append(("C06:verify1:forged-reply-accepted", "SRPAuthHandler.verify1 accepted a reply that does not prove the paired identity (%s)" % why))
    return errs


# --------------------------------------------------------------------------- Coq terms
class Namer:
    """byte strings that occur more than once in a file become named definitions."""

    def __init__(self):
        self.count = {}
        self.names = {}

    def see(self, b):
        self.count[b] = self.count.get(b, 0) + 1

    def term(self, b):
        if len(b) >= 6 and self.count.get(b, 0) > 1:
            if b not in self.names:
                self.names[b] = "b%d" % len(self.names)
            return self.names[b]
        return lit(b)

    def preamble(self):
        return "".join("Definition %s : list N := Eval vm_compute in %s.\n" % (n, lit(b)) for b, n in self.names.items())


def lit(b):
    """bytes -> Coq term of type list N.  Seven bytes per primitive 63-bit integer literal, unpacked
    by B (COQ_PRELUDE) inside Coq: elaborating [..]%N literals directly is ~10x slower."""
    if not b:
        return "(@nil N)"
    return "(B %d%%uint63 [%s]%%uint63)" % (len(b), ";".join(str(int.from_bytes(b[i:i + 7], "big")) for i in range(0, len(b), 7)))


COQ_PRELUDE = """From Coq Require Import List NArith ZArith Bool Uint63. Import ListNotations.
From PV Require Import Common.Cases C06.Model C06.Gen.
Fixpoint bytes_of (k : nat) (x : int) (acc : list N) : list N :=
  match k with O => acc | S k' => bytes_of k' (x >> 8)%uint63 (Z.to_N (to_Z (x land 255)%uint63) :: acc) end.
Fixpoint unpack (n : nat) (l : list int) : list N :=
  match l with
  | [] => []
  | [x] => bytes_of n x []
  | x :: r => bytes_of 7 x [] ++ unpack (n - 7) r
  end.
Definition B (n : int) (l : list int) : list N := unpack (Z.to_nat (to_Z n)) l.
"""


def case_bytes(W, case, res):
    """all byte strings of the Coq term of a case (for the Namer), as a flat list."""
    out = list(W.creds(case.get("cvar"))) + [res["cpriv"], res["cpub"], res["pd"], m4_of(case["spec"])]
    for tbl in res["judge"]["tables"].values():
        for ks, v in tbl:
            out += ks
            if isinstance(v, bytes):
                out.append(v)
    for o in res["obs"]:
        if o["m3"] is not None:
            out.append(o["m3"])
    if res["v1"] is not None and res["v1"]["m3"] is not None:
        out.append(res["v1"]["m3"])
    return out


def coq_tables(T, t):
    def keys(ks):
        return "[" + "; ".join(t(k) for k in ks) + "]"

    def optb(v):
        return "None" if v is None else "(Some %s)" % t(v)

    return "{| t_x := [%s]; t_hkdf := [%s]; t_dec := [%s]; t_enc := [%s]; t_pk := [%s]; t_sig := [%s]; t_sign := [%s] |}" % (
        "; ".join("(%s, %s)" % (keys(k), optb(v)) for k, v in T["x"]),
        "; ".join("(%s, %s)" % (keys(k), t(v)) for k, v in T["hkdf"]),
        "; ".join("(%s, %s)" % (keys(k), optb(v)) for k, v in T["dec"]),
        "; ".join("(%s, %s)" % (keys(k), t(v)) for k, v in T["enc"]),
        "; ".join("(%s, %s)" % (keys(k), common.cbool(v)) for k, v in T["pk"]),
        "; ".join("(%s, %s)" % (keys(k), common.cbool(v)) for k, v in T["sig"]),
        "; ".join("(%s, %s)" % (keys(k), optb(v)) for k, v in T["sign"]))


def coq_case(W, case, res, nm):
    t = nm.term
    ltpk, ltsk, atv, cid = W.creds(case.get("cvar"))
    h = "{| v_priv := %s; v_pub := %s |}" % (t(res["cpriv"]), t(res["cpub"]))
    c = "{| ltpk := %s; ltsk := %s; atv_id := %s; client_id := %s |}" % (t(ltpk), t(ltsk), t(atv), t(cid))
    T = res["judge"]["tables"]

    def optb(v):
        return "None" if v is None else "(Some %s)" % t(v)

    tab = coq_tables(T, t)

    def opte(e):
        return "None" if e is None else "(Some %s)" % e

    v = res["v1"]
    if v is None:
        vt = "None"
    elif v["raw"] == "Accept":
        vt = "(Some (Accept %s))" % t(v["m3"])
    else:
        vt = "(Some (Raises %s))" % v["raw"]
    obs = []
    for o in res["obs"]:
        if o["proto"] not in COQ_PROTO:
            continue
        raw = None if o["raw"] == "Accept" else o["raw"]
        top = "None" if o.get("no_top") else "(Some (%s, %s))" % (opte(o["surfaced"]), common.cbool(o["keys"]))
        obs.append("(%s, %s, %s, %s)" % (COQ_PROTO[o["proto"]], opte(raw), optb(o["m3"]), top))
    return "(%s, %s, %s, %s, %s, %s, %s, %s, [%s])" % (h, c, tab, opte(case.get("f1_model") or fault_coq(case.get("f1"))), t(res["pd"]),
                                                         opte(fault_coq(case.get("f3"))), t(m4_of(case["spec"])), vt, "; ".join(obs))


def coq_files(items, per=150):
    """items: list of (W, case, res).  -> list of (name, text, [items])."""
    files = []
    for i in range(0, len(items), per):
        chunk = items[i:i + per]
        nm = Namer()
        for W, case, res in chunk:
            for b in case_bytes(W, case, res):
                nm.see(b)
        terms = [coq_case(W, case, res, nm) for W, case, res in chunk]
        txt = (COQ_PRELUDE + "%s"
               "Definition cases : list pcase := [\n%s\n].\n"
               "Eval vm_compute in (bad_indices (check_case cfg) cases).\n" % (nm.preamble(), ";\n".join(terms)))
        files.append(("cases_%03d" % (i // per), txt, chunk))
    return files


# --------------------------------------------------------------------------- which procedure runs (the glue)
FEATURE_VALUES = [None, "0x0", "0x00000000,0x800", "0x00000000,0x10000", "0x00000000,0x10800", "0x00000000,0x4000", "0x0,0x800", "0xFFFFFFFF,0xFFFFFFFF",
                  "0x4A7FCA00,0xBC354BD0", "0x5A7FFFF7,0x1E", "0x1", "zz", "", "0x1,0x2,0x3", "4A7FCA00"]
MODEL_VALUES = [None, "AudioAccessory5,1", "AudioAccessory1,1", "AudioAccessory", "AppleTV6,2", "AppleTV3,2", "", "audioaccessory5,1",
                "XAudioAccessory5,1", "AirPort10,115", "\u00c4udioAccessory"]
OSVERS_VALUES = [None, "14.5", "13.0", "12.4", "x"]
STORED_KINDS = [None, "hap", "legacy", "legacy4", "transient", "null", "invalid"]
PROC_COQ = {"NullPairVerifyProcedure": "PNull", "AirPlayLegacyPairVerifyProcedure": "PLegacy", "AirPlayHapPairVerifyProcedure": "PHap",
            "AirPlayHapTransientPairVerifyProcedure": "PTransient"}
KIND_PROC = {"hap": "AirPlayHapPairVerifyProcedure", "legacy": "AirPlayLegacyPairVerifyProcedure", "legacy4": "AirPlayLegacyPairVerifyProcedure",
             "transient": "AirPlayHapTransientPairVerifyProcedure", "null": "NullPairVerifyProcedure"}


def feature_value(text):
    """own reading of an announced feature string -> None (absent) | 'garbage' | int"""
    if text is None:
        return None
    parts = text.split(",")
    if not 1 <= len(parts) <= 2:
        return "garbage"
    vals = []
    for part in parts:
        if not part.startswith("0x") or not 1 <= len(part) - 2 <= 8 or any(ch not in "0123456789abcdefABCDEF" for ch in part[2:]):
            return "garbage"
        vals.append(part[2:])
    return int((vals[1] if len(vals) == 2 else "") + vals[0], 16)


def announcements(ctx, full):
    """announced property sets: feature words (under 'features', 'ft' or both), model strings, OS versions, noise"""
    out = []
    for fv in FEATURE_VALUES:
        for key in ("features", "ft", "both"):
            for model in MODEL_VALUES:
                if not full and ctx.rng.random() < 0.5 and not (model or "").startswith("AudioAccessory") and fv not in (None, "zz"):
                    continue
                props = {}
                if fv is not None:
                    if key in ("features", "both"):
                        props["features"] = fv
                    if key == "ft":
                        props["ft"] = fv
                    if key == "both":
                        props["ft"] = ctx.rng.choice([v for v in FEATURE_VALUES if v is not None])
                elif key == "both":
                    continue
                if model is not None:
                    props["model"] = model
                osv = ctx.rng.choice(OSVERS_VALUES)
                if osv is not None:
                    props["osvers"] = osv
                for k, v in (("pw", "false"), ("sf", "0x4"), ("flags", "0x244"), ("acl", "0"), ("deviceid", "AA:BB:CC:DD:EE:FF"), ("pk", "00" * 32)):
                    if ctx.rng.random() < 0.3:
                        props[k] = v
                out.append(props)
    return out


def observe_selection(W, case):
    """extract_credentials(service) and pair_verify(...) of the real code on the announced service"""
    from pyatv.protocols.airplay.auth import extract_credentials, pair_verify
    service = announced_service(W, case)
    try:
        cr = extract_credentials(service)
    except BaseException as ex:  # noqa
        return {"raised": classify(ex), "raised_repr": repr(ex)[:120], "fields": None, "procedure": None}
    fields = (cr.ltpk, cr.ltsk, cr.atv_id, cr.client_id)
    try:
        with Patches(W):
            proc = type(pair_verify(cr, fake_http(Responder(W, {})))).__name__
    except BaseException as ex:  # noqa
        proc = "raised:" + type(ex).__name__
    return {"raised": None, "fields": fields, "procedure": proc}


def stored_fields(W, kind):
    """own parse of the stored credential string -> 4 fields (None: nothing stored)"""
    st = stored_string(W, kind)
    if st is None:
        return None
    parts = [bytes.fromhex(x) for x in st.split(":")]
    if len(parts) == 2:
        return (b"", parts[1], b"", parts[0])
    return tuple(parts)


def evaluate_announced(W, case):
    """one (stored credentials, announcement, accessory) case: what is selected, and - for stored HAP
    credentials - what connecting through the glue does against the accessory of case['spec']."""
    an = case["announce"]
    res = {"obs": [], "v1": None, "judge": None, "pd": None, "cpub": None, "cpriv": None, "harness_error": None,
           "selection": observe_selection(W, case)}
    if an["stored"] != "hap" or not an.get("connect"):
        return res
    obs = [run_announced(p, W, case) for p in ("airplay-glue", "airplay-setup")]
    res["obs"] = obs
    ref = next((o for o in obs if o["cpub"] is not None and o["cpriv"] is not None), None)
    if ref is None:
        # no HAP pair-verify message was ever sent: nothing was proved to anybody
        ran = sorted({o["procedure"] for o in obs if o["procedure"]})
        res["judge"] = {"genuine": False, "why": "no HAP pair-verify exchange took place" + (" (%s ran)" % ", ".join(ran) if ran else ""),
                        "tables": None, "fields": None}
        return res
    pd = respond(W, case["spec"], ref["cpub"])
    res.update(pd=pd, cpub=ref["cpub"], cpriv=ref["cpriv"], judge=judge(W, None, ref["cpriv"], ref["cpub"], pd))
    for o in obs:
        if o["cpub"] is not None and (o["cpub"] != ref["cpub"] or o["m2"] != pd):
            res["harness_error"] = "client keys / accessory answers differ between the runs of one announced case"
    return res


def selection_errors(W, case, res):
    """stored credentials must decide which procedure runs, whatever is announced"""
    an, sel = case["announce"], res["selection"]
    want = KIND_PROC.get(an["stored"])
    if want is None or sel["raised"] is not None:
        return []
    errs = []
    if sel["fields"] != stored_fields(W, an["stored"]) or sel["procedure"] != want:
        errs.append(("C06:airplay:procedure-not-for-stored-credentials",
                     "stored %s credentials, announced properties %r: extract_credentials/pair_verify selected %s%s instead of %s with the stored credentials"
                     % (an["stored"], an["props"], sel["procedure"],
                        "" if sel["fields"] == stored_fields(W, an["stored"]) else " with other credentials (ltpk=%r)" % sel["fields"][0][:12], want)))
    return errs


def coq_sel_case(W, case, res):
    an, sel = case["announce"], res["selection"]

    def cr(f):
        return "{| ltpk := %s; ltsk := %s; atv_id := %s; client_id := %s |}" % tuple(lit(x) for x in f)

    def fv(text):
        v = feature_value(text)
        return "FAbsent" if v is None else ("FGarbage" if v == "garbage" else "(FFlags %d%%N)" % v)

    sf = stored_fields(W, an["stored"])
    stored = "None" if sf is None else "(Some %s)" % cr(sf)
    a = "{| a_features := %s; a_ft := %s |}" % (fv(an["props"].get("features")), fv(an["props"].get("ft")))
    if sel["raised"] is not None:
        r = "(SelRaises %s)" % sel["raised"]
    else:
        r = "(SelCreds %s)" % cr(sel["fields"])
    p = "None" if sel["procedure"] not in PROC_COQ else "(Some %s)" % PROC_COQ[sel["procedure"]]
    return "(%s, %s, %s, %s)" % (stored, a, r, p)


def coq_sel_files(items, per=250):
    files = []
    for i in range(0, len(items), per):
        chunk = items[i:i + per]
        txt = (COQ_PRELUDE + "Definition cases : list scase := [\n%s\n].\nEval vm_compute in (bad_indices check_sel cases).\n"
               % ";\n".join(coq_sel_case(W, c, r) for W, c, r in chunk))
        files.append(("sel_%03d" % (i // per), txt, chunk))
    return files


def gen_announced(ctx, W, full):
    out = []
    anns = announcements(ctx, full)
    for k, props in enumerate(anns):
        for kind in STORED_KINDS:
            out.append({"family": "announce:selection:stored-" + str(kind), "spec": {}, "cvar": None, "f1": None, "f3": None,
                        "wseed": W.wseed, "id_len": len(W.acc["A"].ident), "announce": {"stored": kind, "props": props, "connect": False}})
        # connecting with stored HAP credentials: an impostor without the long-term key (it answers HAP
        # pair-verify as another accessory would, and plays transient pairing along), and the genuine one
        transient_bits = isinstance(feature_value(props.get("features", props.get("ft"))), int) and \
            feature_value(props.get("features", props.get("ft"))) & ((1 << 43) | (1 << 48))
        if full or transient_bits or (props.get("model") or "").startswith("A") or k % 5 == 0:
            for name, spec in (("impostor", {"eph": "M", "signer": "B"}), ("genuine", {})):
                if name == "genuine" and not full and k % 7:
                    continue
                out.append({"family": "announce:connect:" + name, "spec": spec, "cvar": None, "f1": None, "f3": None,
                            "wseed": W.wseed, "id_len": len(W.acc["A"].ident), "announce": {"stored": "hap", "props": props, "connect": True}})
    return out


# --------------------------------------------------------------------------- the stream entry points
STREAM_ENTRIES = [("v1", "setup"), ("v1", "play_url"), ("v2", "setup"), ("v2", "play_url")]
STREAM_CLASS = {"v1": "AirPlayV1", "v2": "AirPlayV2"}


async def drive_stream_entry(W, case, resp, pt):
    """AirPlayStream.create_airplay_protocol(service, rtsp) picks AirPlayV1 / AirPlayV2 (by the
    raop.protocol_version setting or by what the receiver announces); then setup() - what streaming
    does first - or play_url().  Everything sent on the connection is logged."""
    from pyatv import conf
    from pyatv.const import Protocol
    from pyatv.core import Core, CoreStateDispatcher, MutableService, ProtocolStateDispatcher
    from pyatv.protocols.airplay import AirPlayStream
    from pyatv.settings import AirPlayVersion, Settings
    from pyatv.support.rtsp import RtspSession
    from pyatv.support.state_producer import StateProducer

    st = case["stream"]
    settings = Settings()
    if st["select"] == "setting":
        settings.protocols.raop.protocol_version = AirPlayVersion.V1 if st["version"] == "v1" else AirPlayVersion.V2
        props = {"features": "0x00000000,0x10000" if st["version"] == "v1" else "0x0"}      # the setting wins over the announcement
    else:
        props = {"features": "0x00000000,0x10000"} if st["version"] == "v2" else ({"features": "0x4A7FCA00"} if W.wseed % 2 else {})
    service = MutableService("id", Protocol.AirPlay, 7000, props, credentials=stored_string(W, st["stored"]))
    config = conf.AppleTV("127.0.0.1", "verif")
    config.add_service(service)
    core = Core(asyncio.get_event_loop(), config, service, settings, StateProducer(), types.SimpleNamespace(session=None),
                lambda *a: (lambda: None), ProtocolStateDispatcher(Protocol.AirPlay, CoreStateDispatcher()))
    conn = fake_http(resp)
    before = (conn.receive_processor, conn.send_processor)
    exc = proto = None
    try:
        proto = AirPlayStream(core).create_airplay_protocol(service, RtspSession(conn))
        if st["entry"] == "setup":
            await proto.setup(1, 2)
        else:
            await proto.play_url(1, "http://127.0.0.1/media.mp4", 0.0)
    except BaseException as ex:  # noqa
        exc = ex
    finally:
        try:
            if proto is not None:
                proto.teardown()
        except Exception:
            pass
    o = obs_record("airplay-%s-%s" % (st["version"], st["entry"]), resp, pt, exc,
                   conn.receive_processor is not before[0] or conn.send_processor is not before[1])
    o["klass"] = type(proto).__name__ if proto is not None else None
    o["log"] = list(conn.log)
    o["used"] = any(k == "other" for _, _, k in conn.log)
    # what the entry point raised before it used the accessory
    o["surfaced_before_use"] = None if o["used"] else o["surfaced"]
    return o


def gen_stream(ctx, W, full):
    out = []
    L = base_lengths(W)
    hap_replies = [("genuine", {}), ("signed-by-B", {"signer": "B"}), ("attacker", {"eph": "M", "signer": "B"}),
                   ("accessory-B", {"eph": "B", "id": "B", "signer": "B"}), ("flip-enc", {"mut": [["enc", "flip", ctx.rng.randrange(8 * L["enc"])]]}),
                   ("flip-sig", {"mut": [["sig", "flip", ctx.rng.randrange(512)]]}), ("flip-spub", {"mut": [["spub", "flip", ctx.rng.randrange(255)]]}),
                   ("trunc-spub", {"mut": [["spub", "trunc", 31]]}), ("missing-enc", {"drop": ["outer-enc"]}), ("missing-sig", {"drop": ["inner-sig"]}),
                   ("lone-tag", {"mut": [["inner", "append", "01"]]}), ("error-item", {"drop": ["outer-pubkey", "outer-enc"], "outer_extra": [[7, "02"]]}),
                   ("other-id-signed", {"mut": [["id", "flip", 5]], "sign_mutated_id": True}),
                   ("replayed-signature", {"sign_cpub": "other"})]
    if full:
        for _ in range(40):
            field = ctx.rng.choice(["spub", "enc", "id", "sig", "inner", "pd"])
            hap_replies.append(("fuzz", {"mut": [[field, "flip", ctx.rng.randrange(8 * L[field])]]}))
    for ver, entry in STREAM_ENTRIES:
        for select in ("setting", "announced"):
            for stored in ("hap", "legacy", None, "transient", "null"):
                for name, spec in (hap_replies if stored == "hap" else hap_replies[:2]):
                    out.append({"family": "stream:%s-%s:%s:stored-%s:%s" % (ver, entry, select, stored, name), "spec": spec, "cvar": None,
                                "f1": None, "f3": None, "wseed": W.wseed, "id_len": len(W.acc["A"].ident),
                                "stream": {"version": ver, "entry": entry, "select": select, "stored": stored}})
    return out


def evaluate_stream(W, case):
    resp = Responder(W, case["spec"])
    with Patches(W) as pt:
        resp.shim = pt.shim
        o = vloop.run(drive_stream_entry, W, case, resp, pt)
    res = {"obs": [o], "v1": None, "judge": None, "pd": None, "cpub": None, "cpriv": None, "harness_error": None}
    st = case["stream"]
    if o["klass"] != STREAM_CLASS[st["version"]]:
        res["harness_error"] = "create_airplay_protocol built %s for a case meant for %s" % (o["klass"], STREAM_CLASS[st["version"]])
        return res
    if st["stored"] != "hap":
        res["judge"] = {"genuine": False, "why": "stored credentials are not HAP", "tables": None, "fields": None}
        return res
    if o["cpub"] is None or o["cpriv"] is None:
        res["judge"] = {"genuine": False, "why": "no HAP pair-verify exchange took place", "tables": None, "fields": None}
        return res
    pd = respond(W, case["spec"], o["cpub"])
    res.update(pd=pd, cpub=o["cpub"], cpriv=o["cpriv"], judge=judge(W, None, o["cpriv"], o["cpub"], pd))
    return res


def stream_errors(case, res):
    """With stored HAP (or legacy) credentials the first thing on the connection is the verify
    exchange for those credentials; a peer that does not prove the stored identity gets
    AuthenticationError and nothing further is sent to it."""
    st, o, j = case["stream"], res["obs"][0], res["judge"]
    fam = "airplay-" + st["version"]
    reqs = [x for x in o["log"] if x[2] != "info"]
    first = reqs[0][2] if reqs else None
    errs = []
    if st["stored"] == "legacy":
        if o["used"] and first != "legacy-verify":
            errs.append(("C06:%s:verify-exchange-skipped" % fam,
                         "%s with stored legacy credentials sent %s without running the legacy device verification first" % (o["proto"], reqs[0][:2])))
        return errs
    if st["stored"] != "hap":
        return errs
    if (o["used"] or o["keys"]) and not j["genuine"]:
        errs.append(("C06:%s:forged-reply-accepted" % fam,
                     "%s with stored HAP credentials went on to use the accessory (%s) although it did not prove the paired identity (%s)"
                     % (o["proto"], ", ".join("%s %s" % x[:2] for x in o["log"] if x[2] == "other")[:120], j["why"])))
    if o["used"] and first != "hap-verify":
        errs.append(("C06:%s:verify-exchange-skipped" % fam, "%s: first request on the connection was %s, not the HAP pair-verify" % (o["proto"], reqs[0][:2])))
    if not o["used"] and not j["genuine"] and o["surfaced"] != "EAuthentication":
        errs.append(("C06:%s:wrong-exception" % fam,
                     "%s: a reply that does not prove the identity (%s) surfaced as %s instead of AuthenticationError" % (o["proto"], j["why"], o["surfaced_repr"])))
    return errs


def coq_stream_case(W, case, res, nm):
    t = nm.term
    ltpk, ltsk, atv, cid = W.creds(None)
    h = "{| v_priv := %s; v_pub := %s |}" % (t(res["cpriv"]), t(res["cpub"]))
    c = "{| ltpk := %s; ltsk := %s; atv_id := %s; client_id := %s |}" % (t(ltpk), t(ltsk), t(atv), t(cid))
    tab = coq_tables(res["judge"]["tables"], t)
    o = res["obs"][0]

    def opte(e):
        return "None" if e is None else "(Some %s)" % e

    raw = None if o["raw"] == "Accept" else o["raw"]
    ob = "(%s, %s, %s, %s, %s, %s)" % ("V1" if case["stream"]["version"] == "v1" else "V2", opte(raw),
                                        "None" if o["m3"] is None else "(Some %s)" % t(o["m3"]), opte(o["surfaced_before_use"]),
                                        common.cbool(o["used"]), common.cbool(o["keys"]))
    return "(%s, %s, %s, %s, %s, [%s])" % (h, c, tab, t(res["pd"]), t(m4_of(case["spec"])), ob)


def coq_facade_files(items, per=400):
    files = []

    def opte(e):
        return "None" if e is None else "(Some %s)" % e

    for i in range(0, len(items), per):
        chunk = items[i:i + per]
        terms = ["([%s], %s)" % ("; ".join(opte(e) for _, e in r["facade"]["ran"]), opte(r["facade"]["connect"])) for _, _, r in chunk]
        txt = COQ_PRELUDE + "Definition cases : list fcase := [\n%s\n].\nEval vm_compute in (bad_indices check_facade cases).\n" % ";\n".join(terms)
        files.append(("facade_%03d" % (i // per), txt, chunk))
    return files


def coq_stream_files(items, per=100):
    files = []
    for i in range(0, len(items), per):
        chunk = items[i:i + per]
        nm = Namer()
        for W, case, res in chunk:
            for b in case_bytes(W, case, res):
                nm.see(b)
        terms = [coq_stream_case(W, case, res, nm) for W, case, res in chunk]
        txt = (COQ_PRELUDE + "%sDefinition cases : list stcase := [\n%s\n].\nEval vm_compute in (bad_indices (check_stream v1_mapped v1_keys cfg) cases).\n"
               % (nm.preamble(), ";\n".join(terms)))
        files.append(("stream_%03d" % (i // per), txt, chunk))
    return files


# --------------------------------------------------------------------------- the whole pyatv.connect()
ROLE_SPEC = {"genuine": {}, "impostor": {"eph": "M", "signer": "B"}}
UNIFIED = 1 << 30


def facade_service(W, d):
    from pyatv.const import Protocol
    from pyatv.core import MutableService
    creds = W.creds_str() if d.get("creds", "hap") == "hap" else None
    if d["proto"] == "mrp":
        return MutableService("mrp-id", Protocol.MRP, 49152, {}, credentials=creds)
    if d["proto"] == "companion":
        return MutableService("companion-id", Protocol.Companion, 49153, {}, credentials=creds)
    if d["proto"] == "raop":
        return MutableService("raop-id", Protocol.RAOP, 7000, dict(d.get("props", {})), credentials=None)
    kind = d.get("kind", "plain")
    if kind == "tunnel":
        props = {"model": "AppleTV6,2", "osvers": "14.5", "features": "0x4A7FCA00,0xBC354BD0"}
    elif kind == "unified":
        props = {"model": d.get("model", "AirPort10,115"), "features": d["features"]}
    else:
        props = {"features": "0x0"}
        creds = None
    return MutableService("airplay-id", Protocol.AirPlay, 7000, props, credentials=creds)


def stream_version_of(features):
    v = feature_value(features)
    return "v2" if isinstance(v, int) and v & ((1 << 38) | (1 << 48)) else "v1"


async def drive_facade(W, case, resps, pt):
    """pyatv.connect(config) with the services of the case, each answered by its own accessory;
    optionally atv.stream.stream_file() afterwards (the RAOP service embedded in AirPlay)."""
    import pyatv
    from pyatv import conf
    from pyatv.core.facade import FacadeAppleTV
    from pyatv.protocols import mrp as mrp_mod, raop as raop_mod
    from pyatv.protocols.airplay import ap2_session
    from pyatv.protocols.companion import api as comp_api
    from pyatv.protocols.companion.connection import FrameType
    from pyatv.protocols.mrp import messages, protobuf
    from pyatv.protocols.mrp.connection import AbstractMrpConnection
    from pyatv.settings import InfoSettings
    from pyatv.support import opack

    loop = asyncio.get_event_loop()
    conns = {}

    class MrpConn(AbstractMrpConnection):
        def __init__(self, host=None, port=None, loop=None, atv=None):
            super().__init__()
            self.keys, self.closed, self.resp = [], 0, resps["mrp"]
            conns["mrp"] = self

        async def connect(self):
            pass

        def enable_encryption(self, output_key, input_key):
            self.keys.append((output_key, input_key))

        @property
        def connected(self):
            return not self.closed

        def close(self):
            self.closed += 1

        def send(self, message):
            reply = None
            if message.type == protobuf.CRYPTO_PAIRING_MESSAGE:
                ans = self.resp.on_message(message.inner().pairingData)
                if ans is None:
                    return
                reply = messages.create(protobuf.CRYPTO_PAIRING_MESSAGE)
                reply.inner().pairingData = ans
                reply.inner().status = 0
            elif message.type == protobuf.DEVICE_INFO_MESSAGE:
                reply = messages.device_information(InfoSettings(), "accessory")
                reply.identifier = message.identifier
            elif message.identifier:
                reply = messages.create(protobuf.GENERIC_MESSAGE)
                reply.identifier = message.identifier
            if reply is not None and self.listener is not None:
                loop.call_soon(self.listener.message_received, reply, None)

    class CompConn:
        def __init__(self, loop=None, host=None, port=None, device_listener=None):
            self.keys, self.listener, self.resp = [], None, resps["companion"]
            conns["companion"] = self

        def set_listener(self, listener):
            self.listener = listener

        async def connect(self):
            pass

        def close(self):
            pass

        @property
        def connected(self):
            return True

        def enable_encryption(self, output_key, input_key):
            self.keys.append((output_key, input_key))

        def send(self, frame_type, data):
            obj, _ = opack.unpack(data)
            if frame_type in (FrameType.PV_Start, FrameType.PV_Next):
                ans = self.resp.on_message(obj.get("_pd", b""))
                if ans is not None:
                    loop.call_soon(self.listener.frame_received, FrameType.PV_Next, opack.pack({"_pd": ans}))
            elif isinstance(obj, dict) and "_x" in obj and obj.get("_t") == 2:
                loop.call_soon(self.listener.frame_received, frame_type, opack.pack({"_x": obj["_x"], "_t": 3, "_c": {}}))

    def http_for(name):
        async def http_connect(address, port):
            c = fake_http(resps[name])
            conns.setdefault(name, []).append(c)
            c.initial = (c.receive_processor, c.send_processor)
            return c
        return http_connect

    ran = []
    orig_add = FacadeAppleTV.add_protocol

    def add_protocol(self, sd):
        async def connect():
            try:
                r = await sd.connect()
            except BaseException as ex:  # noqa
                ran.append((sd.protocol.name, classify(ex)))
                raise
            ran.append((sd.protocol.name, None))
            return r
        return orig_add(self, sd._replace(connect=connect))

    saved = (mrp_mod.MrpConnection, comp_api.CompanionConnection, ap2_session.http_connect, raop_mod.http_connect)
    mrp_mod.MrpConnection, comp_api.CompanionConnection = MrpConn, CompConn
    ap2_session.http_connect, raop_mod.http_connect = http_for("airplay"), http_for("raop-stream")
    FacadeAppleTV.add_protocol = add_protocol
    config = conf.AppleTV("127.0.0.1", "verif")
    for d in case["facade"]["services"]:
        config.add_service(facade_service(W, d))
    out = {"connect": None, "connect_repr": None, "returned_device": False, "ran": ran, "stream": None}
    atv = None
    try:
        try:
            atv = await pyatv.connect(config, loop)
            out["returned_device"] = True
        except BaseException as ex:  # noqa
            out["connect"], out["connect_repr"] = classify(ex), repr(ex)[:160]
        out["raw_connect"] = [(r[2], "Accept" if r[0] == "ok" else classify(r[1])) for r in pt.raw]
        nraw = len(pt.raw)
        if atv is not None and case["facade"].get("stream"):
            exc = None
            try:
                await asyncio.wait_for(atv.stream.stream_file("/nonexistent/harness.mp3"), 120)
            except BaseException as ex:  # noqa
                exc = ex
            c = (conns.get("raop-stream") or [None])[-1]
            o = obs_record("airplay-embedded-raop", resps["raop-stream"], pt, exc,
                           c is not None and (c.receive_processor is not c.initial[0] or c.send_processor is not c.initial[1]))
            if len(pt.raw) == nraw:
                o["raw"] = o["procedure"] = None
            o["log"] = list(c.log) if c is not None else []
            o["used"] = any(k == "other" for _, _, k in o["log"])
            o["surfaced_before_use"] = None if o["used"] else o["surfaced"]
            out["stream"] = o
    finally:
        mrp_mod.MrpConnection, comp_api.CompanionConnection, ap2_session.http_connect, raop_mod.http_connect = saved
        FacadeAppleTV.add_protocol = orig_add
        if atv is not None:
            try:
                tasks = atv.close()
                if tasks:
                    await asyncio.wait(tasks)
            except Exception:
                pass
    keys = {}
    for name, c in conns.items():
        if isinstance(c, list):
            keys[name] = any(x.receive_processor is not x.initial[0] or x.send_processor is not x.initial[1] for x in c)
        else:
            keys[name] = bool(c.keys)
    out["keys"] = keys
    return out


def evaluate_facade(W, case):
    roles = {}
    for d in case["facade"]["services"]:
        name = {"mrp": "mrp", "companion": "companion", "airplay": "airplay", "raop": "raop"}[d["proto"]]
        roles[name] = d.get("role", "dummy")
    resps = {n: Responder(W, ROLE_SPEC.get(roles.get(n, "dummy"), {})) for n in ("mrp", "companion", "airplay")}
    resps["raop-stream"] = Responder(W, ROLE_SPEC.get(case["facade"].get("stream_role", "impostor"), {}))
    with Patches(W) as pt:
        for r in resps.values():
            r.shim = pt.shim
        f = vloop.run(drive_facade, W, case, resps, pt)
    res = {"obs": [], "v1": None, "judge": None, "pd": None, "cpub": None, "cpriv": None, "harness_error": None, "facade": f, "roles": roles}
    o = f["stream"]
    if o is not None:
        res["obs"] = [o]
        if o["cpub"] is not None and o["cpriv"] is not None and o["raw"] is not None:
            pd = respond(W, resps["raop-stream"].specs[0], o["cpub"])
            res.update(pd=pd, cpub=o["cpub"], cpriv=o["cpriv"], judge=judge(W, None, o["cpriv"], o["cpub"], pd))
        else:
            res["judge"] = {"genuine": False, "why": "no HAP pair-verify exchange took place", "tables": None, "fields": None}
    return res


def facade_errors(case, res):
    """pyatv.connect(): a refused verification of ANY queued protocol makes connect raise
    AuthenticationError, no device is returned, the refused protocol has no keys; the embedded RAOP
    stream of an AirPlay service with stored HAP credentials verifies for them before anything else."""
    f, errs = res["facade"], []
    refused = [(p, e) for p, e in f["ran"] if e is not None]
    impostors = [n for n, r in res["roles"].items() if r == "impostor"]
    failed_verify = [x for x in f.get("raw_connect", []) if x[1] not in ("Accept", "ReturnedFalse")]
    if (refused or failed_verify) and f["returned_device"]:
        errs.append(("C06:connect:verification-failure-swallowed",
                     "pyatv.connect() returned a device although the verification of %s was refused (%s); connect results in order: %s"
                     % (", ".join(p for p, _ in refused) or "a protocol", failed_verify, f["ran"])))
    if failed_verify and not f["returned_device"] and f["connect"] != "EAuthentication":
        errs.append(("C06:connect:wrong-exception", "pyatv.connect(): a refused verification surfaced as %s" % f["connect_repr"]))
    for n in impostors:
        if f["keys"].get(n):
            errs.append(("C06:connect:keys-enabled-without-verify", "%s: keys installed on the connection to an accessory that did not prove the paired identity" % n))
    if f["stream"] is not None:
        st = {"version": stream_version_of(case["facade"]["stream_features"]), "stored": "hap"}
        for key, what in stream_errors(dict(case, stream=st), res):
            errs.append((key.replace("airplay-" + st["version"], "airplay-embedded-raop"), what))
    return errs


def gen_facade(ctx, W, full):
    out = []

    def add(name, services, **kw):
        out.append({"family": "facade:" + name, "spec": {}, "cvar": None, "f1": None, "f3": None, "wseed": W.wseed,
                    "id_len": len(W.acc["A"].ident), "facade": dict({"services": services}, **kw)})

    mrp = lambda role: {"proto": "mrp", "role": role}
    comp = lambda role: {"proto": "companion", "role": role}
    tunnel = lambda role: {"proto": "airplay", "kind": "tunnel", "role": role}
    plain_ap = {"proto": "airplay", "kind": "plain"}
    raop = {"proto": "raop"}
    # (a) the refused verification at every position of the set-up order (AirPlay, Companion, MRP, RAOP)
    add("mrp-impostor-alone", [mrp("impostor")])
    add("mrp-impostor+raop", [mrp("impostor"), raop])
    add("airplay+mrp-impostor+raop", [plain_ap, mrp("impostor"), raop])
    add("companion-impostor-alone", [comp("impostor")])
    add("companion-impostor+mrp-genuine", [comp("impostor"), mrp("genuine")])
    add("companion-impostor+mrp-genuine+raop", [comp("impostor"), mrp("genuine"), raop])
    add("airplay+companion-impostor+raop", [plain_ap, comp("impostor"), raop])
    add("tunnel-impostor-alone", [tunnel("impostor")])
    add("tunnel-impostor+mrp-genuine", [tunnel("impostor"), mrp("genuine")])
    add("tunnel-impostor+companion-impostor+mrp-genuine+raop", [tunnel("impostor"), comp("impostor"), mrp("genuine"), raop])
    add("tunnel-impostor+raop", [tunnel("impostor"), raop])
    add("airplay+mrp-impostor", [plain_ap, mrp("impostor")])
    add("all-impostors", [tunnel("impostor"), comp("impostor"), mrp("impostor"), raop])
    # genuine accessories connect
    add("mrp-genuine+raop", [mrp("genuine"), raop])
    add("airplay+mrp-genuine+raop", [plain_ap, mrp("genuine"), raop])
    # (b) the RAOP service embedded in an AirPlay 2 service (unified advertiser, no RAOP service), HAP
    # credentials stored for AirPlay only; then stream_file
    for feats in ("0x40000000,0x10040", "0x40000000,0x40", "0x40000000", "0x40000000,0x10000", "0x40000000,0x10800", "0x4A7FCA00,0x3C356BD0"):
        for model in ("AirPort10,115", "AudioAccessory5,1", "AppleTV3,2"):
            for role in ("impostor", "genuine"):
                if not full and role == "genuine" and model != "AirPort10,115":
                    continue
                add("embedded-raop:%s:%s:%s" % (feats, model, role),
                    [{"proto": "airplay", "kind": "unified", "features": feats, "model": model}],
                    stream=True, stream_role=role, stream_features=feats)
    return out


# --------------------------------------------------------------------------- credentials replaced while the object exists
HISTORY_PROTOS = ("mrp", "companion", "airplay-stream")


def gen_history(ctx, W):
    """stored credentials at construction x stored credentials at connect x who answers"""
    out = []
    kinds = [None, "ltpk-of-B", "re-paired-B", "none"]
    for init in kinds:
        for at in kinds:
            for name, spec in (("signed-by-A", {}), ("signed-by-B-as-A", {"signer": "B"}), ("accessory-B", {"eph": "B", "id": "B", "signer": "B"}),
                               ("attacker", {"eph": "M", "signer": "B", "id": "B", "sign_id": "A"})):
                for twice in (False, True):
                    if twice and init == "none":
                        continue
                    out.append({"family": "history:%s->%s:%s%s" % (init or "A", at or "A", name, ":second-connect" if twice else ""),
                                "spec": spec, "cvar": at, "f1": None, "f3": None, "wseed": W.wseed, "id_len": len(W.acc["A"].ident),
                                "history": {"init": init if init is not None else "A-initially", "twice": twice}})
    return out


def evaluate_history(W, case):
    hist = dict(case["history"])
    hist["init"] = None if hist["init"] == "A-initially" else hist["init"]
    c2 = dict(case, history=hist)
    protos = [p for p in HISTORY_PROTOS if not hist.get("twice") or p == "airplay-stream"]
    obs = [run_history_proto(p, W, c2) for p in protos]
    for o in obs:
        if o["proto"] == "airplay-stream":
            o["no_top"] = True
    res = {"obs": obs, "v1": None, "judge": None, "pd": None, "cpub": None, "cpriv": None, "harness_error": None}
    at = case.get("cvar")
    ref = next((o for o in obs if o["cpub"] is not None and o["cpriv"] is not None and o["raw"] is not None), None)
    if at == "none" or ref is None:
        res["judge"] = {"genuine": False, "tables": None, "fields": None,
                        "why": "no credentials are stored when the object connects" if at == "none" else "no pair-verify exchange took place although credentials are stored"}
        return res
    pd = respond(W, case["spec"], ref["cpub"])
    res.update(pd=pd, cpub=ref["cpub"], cpriv=ref["cpriv"], judge=judge(W, at, ref["cpriv"], ref["cpub"], pd))
    for o in obs:
        if o["raw"] is not None and o["cpub"] is not None and (o["cpub"] != ref["cpub"] or o["m2"] != pd):
            res["harness_error"] = "client keys / accessory answers differ between the runs of one history case"
    return res


# --------------------------------------------------------------------------- second verify on the same object
async def drive_twice(p, W, resp, pt):
    """Two verify rounds on ONE procedure object (handler re-initialised by verify_credentials);
    the accessory answers the second round with the recorded answer of the first."""
    from pyatv.auth.hap_pairing import HapCredentials, parse_credentials
    out = []
    if p == "mrp":
        from pyatv.auth.hap_srp import SRPAuthHandler
        from pyatv.const import Protocol
        from pyatv.core import MutableService
        from pyatv.protocols.mrp import messages, protobuf
        from pyatv.protocols.mrp.auth import MrpPairVerifyProcedure
        from pyatv.protocols.mrp.connection import AbstractMrpConnection
        from pyatv.protocols.mrp.protocol import MrpProtocol, ProtocolState
        from pyatv.settings import InfoSettings
        loop = asyncio.get_event_loop()

        class Conn(AbstractMrpConnection):
            async def connect(self):
                pass

            def enable_encryption(self, output_key, input_key):
                pass

            @property
            def connected(self):
                return True

            def close(self):
                pass

            def send(self, message):
                ans = resp.on_message(message.inner().pairingData)
                if ans is None:
                    return
                reply = messages.create(protobuf.CRYPTO_PAIRING_MESSAGE)
                reply.inner().pairingData = ans
                loop.call_soon(proto.message_received, reply, None)

        service = MutableService("id", Protocol.MRP, 0, {})
        proto = MrpProtocol(Conn(), SRPAuthHandler(), service, InfoSettings())
        proto._state = ProtocolState.CONNECTED
        proc = MrpPairVerifyProcedure(proto, proto.srp, HapCredentials(*W.creds()))
    elif p == "companion":
        from pyatv.auth.hap_srp import SRPAuthHandler
        from pyatv.const import Protocol
        from pyatv.core import MutableService
        from pyatv.protocols.companion.auth import CompanionPairVerifyProcedure
        from pyatv.protocols.companion.connection import FrameType
        from pyatv.protocols.companion.protocol import CompanionProtocol
        from pyatv.support import opack
        loop = asyncio.get_event_loop()

        class CConn:
            listener = None

            def set_listener(self, listener):
                self.listener = listener

            def close(self):
                pass

            def send(self, frame_type, data):
                obj, _ = opack.unpack(data)
                ans = resp.on_message(obj.get("_pd", b""))
                if ans is not None:
                    loop.call_soon(self.listener.frame_received, FrameType.PV_Next, opack.pack({"_pd": ans}))

        proto = CompanionProtocol(CConn(), SRPAuthHandler(), MutableService("id", Protocol.Companion, 0, {}))
        proc = CompanionPairVerifyProcedure(proto, proto.srp, HapCredentials(*W.creds()))
    else:
        from pyatv.protocols.airplay.auth import pair_verify
        proc = pair_verify(parse_credentials(W.creds_str()), fake_http(resp))
    for _ in range(2):
        try:
            await proc.verify_credentials()
        except BaseException:  # noqa
            pass
        o = obs_record(p, resp, pt, None, False)
        o["no_top"] = True
        out.append(o)
    return out


async def drive_twice_airplay_top(W, resp, pt):
    from pyatv.auth.hap_pairing import parse_credentials
    from pyatv.protocols.airplay.auth import verify_connection
    conn = fake_http(resp)
    out = []
    for _ in range(2):
        before = (conn.receive_processor, conn.send_processor)
        exc = None
        try:
            await verify_connection(parse_credentials(W.creds_str()), conn)
        except BaseException as ex:  # noqa
            exc = ex
        out.append(obs_record("airplay", resp, pt, exc, conn.receive_processor is not before[0] or conn.send_processor is not before[1]))
    return out


def evaluate_twice(W, kind):
    """kind in mrp/companion/airplay (procedure object), airplay-top (verify_connection twice on
    one connection), handler (SRPAuthHandler).  -> (case, res) of the SECOND round."""
    case = {"family": "second-verify-replayed-first:" + kind, "spec": {"replay_round": 0}, "cvar": None, "f1": None, "f3": None,
            "wseed": W.wseed, "id_len": len(W.acc["A"].ident), "twice": kind}
    res = {"obs": [], "v1": None, "judge": None, "pd": None, "cpub": None, "cpriv": None, "harness_error": None, "first_round_ok": None}
    if kind == "handler":
        from pyatv.auth.hap_pairing import HapCredentials
        from pyatv.auth.hap_srp import SRPAuthHandler
        with Patches(W) as pt:
            h = SRPAuthHandler()
            _, cpub1 = h.initialize()
            pd1 = respond(W, {}, cpub1)
            f = tlv_dec(pd1)
            try:
                h.verify1(HapCredentials(*W.creds()), f[3], f[5])
                res["first_round_ok"] = True
            except Exception:
                res["first_round_ok"] = False
            pt.shim.next_round()
            _, cpub2 = h.initialize()
            try:
                v = ("Accept", h.verify1(HapCredentials(*W.creds()), f[3], f[5]))
            except BaseException as ex:  # noqa
                v = (classify(ex), None)
            cpriv2 = pt.client_priv(cpub2)
        if cpriv2 is None or cpub2 == cpub1:
            res["harness_error"] = "second initialize() did not draw a fresh key from os.urandom"
            if cpub2 == cpub1 and v[0] == "Accept":
                res["harness_error"] = None
                cpriv2 = cpriv2 or b""
        res.update(pd=pd1, cpub=cpub2, cpriv=cpriv2, judge=judge(W, None, cpriv2, cpub2, pd1),
                   v1={"proto": "verify1", "raw": v[0], "m3": v[1], "cpub": cpub2, "cpriv": cpriv2})
        return case, res
    resp = Responder(W, [{}, {"replay_round": 0}])
    with Patches(W) as pt:
        resp.shim = pt.shim
        if kind == "airplay-top":
            obs = vloop.run(drive_twice_airplay_top, W, resp, pt)
        else:
            obs = vloop.run(drive_twice, kind, W, resp, pt)
    if len(resp.rounds) < 2 or obs[1]["cpriv"] is None:
        res["harness_error"] = "second verify round not observed"
        return case, res
    res["first_round_ok"] = obs[0]["raw"] == "Accept"
    o2 = obs[1]
    pd1 = resp.rounds[0]["m2"]
    res.update(obs=[o2], pd=pd1, cpub=o2["cpub"], cpriv=o2["cpriv"], judge=judge(W, None, o2["cpriv"], o2["cpub"], pd1))
    return case, res


# --------------------------------------------------------------------------- skeletons (translator)
V_DONE, K_SEND, V1_DONE, K_RECV = 0, 1, 2, 3
W_NAMES = {0: "verify_credentials() returned", 1: "keys enabled (enable_encryption / send_processor)", 2: "verify1() returned",
           3: "receive_processor installed"}

CLS = {"BaseException": "CBaseException", "Exception": "CException", "CancelledError": "CCancelledError", "OSError": "COSError",
       "TimeoutError": "CTimeoutError", "AuthenticationError": "CAuthenticationError", "ProtocolError": "CProtocolError",
       "ConnectionFailedError": "CConnectionFailedError", "BackOffError": "CBackOffError", "NoCredentialsError": "CNoCredentialsError",
       "InvalidResponseError": "CInvalidResponseError", "InvalidStateError": "CInvalidStateError", "ValueError": "CValueError",
       "KeyError": "CKeyError", "IndexError": "CIndexError", "InvalidTag": "CInvalidTag"}
RAISED = {"AuthenticationError": "EAuthentication", "ProtocolError": "EProtocol", "ConnectionFailedError": "EConnectionFailed",
          "BackOffError": "EBackOff", "NoCredentialsError": "ENoCredentials", "InvalidResponseError": "EInvalidResponse",
          "InvalidStateError": "EInvalidState"}

EFFECTS = [
    (r"verify_credentials\(\)$", ("write", V_DONE, True)),
    (r"enable_encryption\(", ("write", K_SEND, True)),
    (r"\.verify1\(", ("write", V1_DONE, True)),
    (r"send_processor =", ("write", K_SEND)),
    (r"receive_processor =", ("write", K_RECV)),
]
NOFAIL = [r"^exceptions\.\w+\(", r"^log_binary\("]


def fn_ast(fn):
    return ast.parse(textwrap.dedent(inspect.getsource(fn))).body[0]


def except_clauses(fn, fallback_param=None):
    """The except-clauses of the single try statement of fn wrapping the awaited verification, as
    (class names, action) - fail closed on anything else."""
    f = fn_ast(fn)
    tries = [n for n in ast.walk(f) if isinstance(n, ast.Try)]
    if len(tries) != 1:
        raise gs.Unsupported("%s: expected exactly one try statement, found %d" % (fn.__name__, len(tries)))
    return try_clauses(tries[0], fn.__name__, fallback_param), tries[0]


def try_clauses(t, where, fallback_param=None):
    fn = types.SimpleNamespace(__name__=where)
    if t.orelse or t.finalbody:
        raise gs.Unsupported("%s: try has else/finally" % fn.__name__)
    out = []
    for h in t.handlers:
        names = gs.Translator.handler_names(h)
        if not names:
            names = ["BaseException"]
        for n in names:
            if n not in CLS:
                raise gs.Unsupported("%s: handler names unknown class %s" % (fn.__name__, n))
        if len(h.body) != 1 or not isinstance(h.body[0], ast.Raise):
            raise gs.Unsupported("%s: handler body is not a single raise" % fn.__name__)
        r = h.body[0]
        if r.exc is None:
            act = "Reraise"
        elif isinstance(r.exc, ast.Call) and isinstance(r.exc.func, ast.Name) and r.exc.func.id == fallback_param:
            act = "RaiseFallback"
        elif isinstance(r.exc, ast.Call) and gs.src(r.exc.func).split(".")[-1] in RAISED:
            act = "(RaiseCls %s)" % RAISED[gs.src(r.exc.func).split(".")[-1]]
        else:
            raise gs.Unsupported("%s: handler raises %s" % (fn.__name__, gs.src(r.exc)))
        out.append((names, act))
    return out


def the_call(fn, callee):
    calls = [n for n in ast.walk(fn_ast(fn)) if isinstance(n, ast.Call) and gs.src(n.func) == callee]
    if len(calls) != 1:
        raise gs.Unsupported("%s: expected exactly one call of %s, found %d" % (fn.__name__, callee, len(calls)))
    return calls[0]


def module_facts(module, cls):
    """(chk_error, chk_m4) of one auth module, read off its source - fail closed."""
    g = fn_ast(module._get_pairing_data)
    if len([n for n in ast.walk(g) if isinstance(n, ast.Call) and gs.src(n.func).split(".")[-1] == "read_tlv"]) != 1:
        raise gs.Unsupported("%s._get_pairing_data does not call read_tlv exactly once" % module.__name__)
    ifs = [n for n in ast.walk(g) if isinstance(n, ast.If) and "Error" in gs.src(n.test)]
    if not ifs:
        chk_error = False
    elif (len(ifs) == 1 and re.fullmatch(r"(\w+\.)*TlvValue\.Error in \w+", gs.src(ifs[0].test)) and not ifs[0].orelse
          and len(ifs[0].body) == 1 and isinstance(ifs[0].body[0], ast.Raise) and isinstance(ifs[0].body[0].exc, ast.Call)
          and gs.src(ifs[0].body[0].exc.func).split(".")[-1] == "AuthenticationError"):
        chk_error = True
    else:
        raise gs.Unsupported("%s._get_pairing_data: unrecognised Error handling" % module.__name__)
    v = fn_ast(cls.verify_credentials)
    gp = sorted(n.lineno for n in ast.walk(v) if isinstance(n, ast.Call) and gs.src(n.func) == "_get_pairing_data")
    v1 = [n.lineno for n in ast.walk(v) if isinstance(n, ast.Call) and gs.src(n.func).endswith(".verify1")]
    if len(v1) != 1 or not gp or gp[0] > v1[0]:
        raise gs.Unsupported("%s.verify_credentials: unrecognised shape" % cls.__name__)
    if len(gp) == 1:
        chk_m4 = False
    elif len(gp) == 2 and gp[1] > v1[0]:
        chk_m4 = True
    else:
        raise gs.Unsupported("%s.verify_credentials: %d calls of _get_pairing_data" % (cls.__name__, len(gp)))
    return chk_error, chk_m4


def v1_entry_fact():
    """How AirPlayV1.setup / play_url verify the device (looking one level into self._helpers):
    through verify_connection (exceptions mapped, keys installed), by a bare
    pair_verify(..).verify_credentials(), or by that call inside a try whose except-clauses are
    those of verify_connection (exceptions mapped, no keys).  -> (maps, keys)"""
    from pyatv.protocols.airplay import auth as ap_auth
    from pyatv.protocols.raop.protocols import airplayv1
    cls = airplayv1.AirPlayV1
    reference = try_clauses([n for n in ast.walk(fn_ast(ap_auth.verify_connection)) if isinstance(n, ast.Try)][0], "verify_connection")
    facts = []
    for name in ("setup", "play_url"):
        nodes = list(ast.walk(fn_ast(getattr(cls, name))))
        for n in list(nodes):
            if isinstance(n, ast.Call) and gs.src(n.func).startswith("self._") and hasattr(cls, gs.src(n.func)[5:]):
                nodes += list(ast.walk(fn_ast(getattr(cls, gs.src(n.func)[5:]))))
        calls = {gs.src(n.func).split(".")[-1] for n in nodes if isinstance(n, ast.Call)}
        if "verify_connection" in calls and "pair_verify" not in calls:
            facts.append((True, True))
        elif "pair_verify" in calls and "verify_credentials" in calls and "verify_connection" not in calls:
            tries = [t for t in nodes if isinstance(t, ast.Try) and any(
                isinstance(c, ast.Call) and gs.src(c.func).endswith(".verify_credentials") for b in t.body for c in ast.walk(b))]
            if not tries:
                facts.append((False, False))
            elif len(tries) == 1 and try_clauses(tries[0], "AirPlayV1." + name) == reference:
                facts.append((True, False))
            else:
                raise gs.Unsupported("AirPlayV1.%s: verify_credentials() is wrapped in a try that is not the one of verify_connection" % name)
        else:
            raise gs.Unsupported("AirPlayV1.%s: cannot tell how the device is verified (calls: %s)" % (name, sorted(calls & {"verify_connection", "pair_verify", "verify_credentials"})))
    if facts[0] != facts[1]:
        raise gs.Unsupported("AirPlayV1.setup and play_url verify the device in different ways")
    return facts[0]


def translate_all():
    from pyatv.auth.hap_pairing import HapCredentials
    from pyatv.protocols.airplay import auth as ap_auth
    from pyatv.protocols.airplay.auth.hap import AirPlayHapPairVerifyProcedure
    from pyatv.protocols.companion import protocol as comp_protocol
    from pyatv.protocols.companion.auth import CompanionPairVerifyProcedure
    from pyatv.protocols.mrp import protocol as mrp_protocol
    from pyatv.protocols.mrp.auth import MrpPairVerifyProcedure
    from pyatv.support import error_handler
    MrpProtocol, CompanionProtocol = mrp_protocol.MrpProtocol, comp_protocol.CompanionProtocol

    # what the inlining below relies on, read off the source (fail closed)
    c = the_call(MrpProtocol.start, "error_handler")
    if [gs.src(a) for a in c.args] != ["self._enable_encryption", "exceptions.AuthenticationError"] or c.keywords:
        raise gs.Unsupported("MrpProtocol.start: error_handler(%s)" % ", ".join(gs.src(a) for a in c.args))
    c = the_call(CompanionProtocol.start, "error_handler")
    if [gs.src(a) for a in c.args] != ["self._setup_encryption", "exceptions.AuthenticationError"] or c.keywords:
        raise gs.Unsupported("CompanionProtocol.start: error_handler(%s)" % ", ".join(gs.src(a) for a in c.args))
    params = [a.arg for a in fn_ast(error_handler).args.args]
    if params[:2] != ["func", "fallback"]:
        raise gs.Unsupported("error_handler parameters %s" % params)
    if gs.src(the_call(error_handler, "func")) != "func(*args, **kwargs)":
        raise gs.Unsupported("error_handler does not call func(*args, **kwargs)")
    if mrp_protocol.MrpPairVerifyProcedure is not MrpPairVerifyProcedure or \
            "pair_verifier = MrpPairVerifyProcedure(" not in inspect.getsource(MrpProtocol._enable_encryption):
        raise gs.Unsupported("MrpProtocol._enable_encryption: pair_verifier is not an MrpPairVerifyProcedure")
    if comp_protocol.CompanionPairVerifyProcedure is not CompanionPairVerifyProcedure or \
            "pair_verifier = CompanionPairVerifyProcedure(" not in inspect.getsource(CompanionProtocol._setup_encryption):
        raise gs.Unsupported("CompanionProtocol._setup_encryption: pair_verifier is not a CompanionPairVerifyProcedure")
    if "verifier = pair_verify(credentials, connection)" not in inspect.getsource(ap_auth.verify_connection) or \
            type(ap_auth.pair_verify(HapCredentials(b"a" * 32, b"b" * 32, b"c", b"d"), None)) is not AirPlayHapPairVerifyProcedure:
        raise gs.Unsupported("verify_connection: verifier for HAP credentials is not an AirPlayHapPairVerifyProcedure")

    def spec(inline):
        return {"effects": EFFECTS, "nofail": NOFAIL, "inline": inline}

    mrp_inl = {"error_handler": error_handler, "func": MrpProtocol._enable_encryption,
               "pair_verifier.verify_credentials": MrpPairVerifyProcedure.verify_credentials}
    comp_inl = {"error_handler": error_handler, "func": CompanionProtocol._setup_encryption,
                "pair_verifier.verify_credentials": CompanionPairVerifyProcedure.verify_credentials}
    todo = {
        "mrp_start": (MrpProtocol.start, spec(mrp_inl)),
        "mrp_enable_encryption": (MrpProtocol._enable_encryption, spec(mrp_inl)),
        "companion_start": (CompanionProtocol.start, spec(comp_inl)),
        "companion_setup_encryption": (CompanionProtocol._setup_encryption, spec(comp_inl)),
        "airplay_verify_connection": (ap_auth.verify_connection, spec({})),
        "airplay_verify_connection_hap": (ap_auth.verify_connection, spec(
            {"verifier.verify_credentials": AirPlayHapPairVerifyProcedure.verify_credentials})),
    }
    sk = {}
    for name, (fn, sp) in todo.items():
        tr = gs.Translator(sp)
        cmd = tr.function(fn)
        sk[name] = (cmd, tr.labels)
    eh, _ = except_clauses(error_handler, fallback_param="fallback")
    vc, t = except_clauses(ap_auth.verify_connection)
    if len(t.body) != 1 or "verifier.verify_credentials()" not in gs.src(t.body[0]):
        raise gs.Unsupported("verify_connection: the try does not wrap exactly the verify_credentials() call")
    from pyatv.protocols.airplay.auth import hap as ap_hap
    from pyatv.protocols.companion import auth as comp_auth
    from pyatv.protocols.mrp import auth as mrp_auth
    facts = {"MRP": module_facts(mrp_auth, MrpPairVerifyProcedure), "Companion": module_facts(comp_auth, CompanionPairVerifyProcedure),
             "AirPlay": module_facts(ap_hap, AirPlayHapPairVerifyProcedure)}
    return sk, {"error_handler": eh, "verify_connection": vc, "module_facts": facts, "v1_mapped": v1_entry_fact()}


def effects_in(cmd):
    out = set()
    if isinstance(cmd, tuple):
        if cmd[0] == "Eff":
            out.add(cmd[2])
        for x in cmd[1:]:
            out |= effects_in(x)
    return out


def gen(ctx):
    sk, clauses = translate_all()
    need = {"mrp_start": {V_DONE, K_SEND, V1_DONE}, "mrp_enable_encryption": {V_DONE, K_SEND, V1_DONE},
            "companion_start": {V_DONE, K_SEND, V1_DONE}, "companion_setup_encryption": {V_DONE, K_SEND, V1_DONE},
            "airplay_verify_connection": {V_DONE, K_SEND, K_RECV}, "airplay_verify_connection_hap": {V_DONE, K_SEND, K_RECV, V1_DONE}}
    for name, (cmd, labels) in sk.items():
        missing = need[name] - effects_in(cmd)
        if missing:
            raise gs.Unsupported("skeleton %s lacks the tracked step(s) %s - the effect table no longer matches the source" % (
                name, [W_NAMES[m] for m in sorted(missing)]))
    lines = ["(* GENERATED by harness/c06.py from /repo's AST on every run - do not edit *)",
             "From Coq Require Import List. Import ListNotations.",
             "From PV Require Import Common.Skeleton C06.Model."]
    for name, (cmd, labels) in sk.items():
        lines.append("Definition sk_%s : cmd := %s." % (name, gs.to_coq(cmd)))
    facts = clauses.pop("module_facts")
    v1m = clauses.pop("v1_mapped")
    lines.append("Definition v1_mapped : bool := %s." % common.cbool(v1m[0]))
    lines.append("Definition v1_keys : bool := %s." % common.cbool(v1m[1]))
    lines.append("Definition cfg (p : proto) : pcfg := match p with %s end." % " ".join(
        "| %s => {| chk_error := %s; chk_m4 := %s |}" % (p, common.cbool(f[0]), common.cbool(f[1])) for p, f in facts.items()))
    for name, cl in clauses.items():
        lines.append("Definition clauses_%s : list clause := [%s]." % (
            name, "; ".join("([%s], %s)" % ("; ".join(CLS[n] for n in names), act) for names, act in cl)))
    txt = "\n".join(lines) + "\n"
    path = os.path.join(common.COQ, "C06", "Gen.v")
    if not os.path.exists(path) or open(path).read() != txt:
        with open(path, "w") as f:
            f.write(txt)
    clauses["module_facts"] = {p: {"chk_error": f[0], "chk_m4": f[1]} for p, f in facts.items()}
    clauses["airplay_v1_entry_points"] = {"exceptions_mapped": v1m[0], "keys_installed": v1m[1]}
    return sk, clauses


def skeleton_witnesses(cmd):
    """executions (Python interpreter of the skeleton semantics) that end with keys but without a
    completed verification."""
    bad, seen = [], set()
    for o, (held, written), path in gs.outcomes(cmd, (frozenset(), frozenset())):
        if (K_SEND in written or K_RECV in written) and V_DONE not in written:
            key = (o, tuple(sorted(written)), tuple(path[-2:]))
            if key not in seen:
                seen.add(key)
                bad.append((o, sorted(written), path))
    return bad


# --------------------------------------------------------------------------- running many cases
def world_of(case):
    return World(case["wseed"], id_len=case.get("id_len"))


def eval_one(arg):
    case, protos = arg
    if case.get("protos"):
        protos = tuple(case["protos"])
    W = world_of(case)
    try:
        if case.get("twice"):
            _, res = evaluate_twice(W, case["twice"])
        elif case.get("announce"):
            res = evaluate_announced(W, case)
        elif case.get("history"):
            res = evaluate_history(W, case)
        elif case.get("stream"):
            res = evaluate_stream(W, case)
        elif case.get("facade"):
            res = evaluate_facade(W, case)
        else:
            res = evaluate(W, case, protos=protos)
    except BaseException as ex:  # noqa
        import traceback
        res = {"obs": [], "v1": None, "judge": None, "pd": None, "cpub": None, "cpriv": None,
               "harness_error": "driver raised: " + traceback.format_exc()[-1500:]}
    return res


def eval_many(cases, protos, procs=8):
    args = [(c, protos) for c in cases]
    if len(args) < 64:
        return [eval_one(a) for a in args]
    import multiprocessing as mp
    with mp.get_context("fork").Pool(procs) as pool:
        return pool.map(eval_one, args, chunksize=32)


def summary(case, res):
    """JSON-able digest of what happened (for replay files and evidence samples)."""
    j = res.get("judge") or {}
    return {
        "family": case["family"], "spec": case["spec"], "credentials_variant": case.get("cvar"),
        "fault_first_exchange": case.get("f1"), "fault_second_exchange": case.get("f3"),
        "pairing_data": None if res.get("pd") is None else res["pd"].hex(),
        "independent_judgement": {"proves_identity": bool(j.get("genuine")), "why_not": j.get("why")},
        "observed": [{"proto": o["proto"], "verify_credentials": o["raw"], "raised_to_caller": o["surfaced_repr"] or None,
                      "keys_installed": o["keys"], "third_message_sent": o["m3"] is not None} for o in res.get("obs", [])],
        "verify1_direct": None if not res.get("v1") else res["v1"]["raw"],
        "facade": None if not res.get("facade") else {
            "services": case["facade"]["services"], "pyatv_connect_raised": res["facade"]["connect_repr"],
            "device_returned": res["facade"]["returned_device"], "connects_in_order": res["facade"]["ran"],
            "verify_credentials_outcomes": res["facade"].get("raw_connect"), "keys_installed": res["facade"]["keys"],
            "stream_requests": None if not res["facade"]["stream"] else [list(x) for x in res["facade"]["stream"]["log"]][:10]},
        "stream": None if not case.get("stream") else dict(case["stream"], requests=[list(x) for x in res["obs"][0].get("log", [])][:12]),
        "announced": None if not case.get("announce") else {
            "stored_credentials": case["announce"]["stored"], "properties": case["announce"]["props"],
            "extract_credentials": None if not res.get("selection") else (
                res["selection"]["raised"] or {"ltpk": res["selection"]["fields"][0].hex()[:24], "atv_id": res["selection"]["fields"][2].hex()}),
            "pair_verify": None if not res.get("selection") else res["selection"]["procedure"],
            "procedure_that_ran": sorted({o.get("procedure") or "none" for o in res.get("obs", [])})},
    }


def judge_and_record(ctx, case, res, coq_items):
    if res.get("harness_error"):
        ctx.tie_broken("harness:" + case["family"], json.dumps({"case": case, "error": res["harness_error"]}, default=repr))
        return
    if case.get("facade"):
        f = res["facade"]
        ctx.case((case["family"],), nontrivial=True, sample=summary(case, res) if ctx.rng.random() < 0.05 else None)
        ctx.count("family:facade")
        ctx.count("impl:pyatv.connect:%s" % ("device" if f["returned_device"] else f["connect"]))
        for key, what in facade_errors(case, res):
            ctx.violation(key, what, {"case": case, "summary": summary(case, res)})
        if coq_items is not None:
            coq_items.append(("facade", world_of(case), case, res))
            if f["stream"] is not None and res["judge"] is not None and res["judge"]["tables"] is not None:
                st = {"version": stream_version_of(case["facade"]["stream_features"]), "stored": "hap"}
                coq_items.append(("stream", world_of(case), dict(case, stream=st), res))
        return
    if case.get("stream"):
        o, j = res["obs"][0], res["judge"]
        ctx.case((case["family"], json.dumps(case["spec"], sort_keys=True)), nontrivial=case["stream"]["stored"] in ("hap", "legacy"),
                 sample=summary(case, res) if ctx.rng.random() < 0.01 else None)
        ctx.count("family:stream")
        ctx.count("impl:%s:%s" % (o["proto"], "used-accessory" if o["used"] else (o["surfaced"] or "returned")))
        for key, what in stream_errors(case, res):
            ctx.violation(key, what, {"case": case, "summary": summary(case, res)})
        if j["tables"] is not None and coq_items is not None:
            coq_items.append(("stream", world_of(case), case, res))
        return
    if case.get("announce"):
        W = world_of(case)
        for key, what in selection_errors(W, case, res):
            ctx.violation(key, what, {"case": case, "summary": summary(case, res)})
        ctx.count("family:announce")
        ctx.count("selected:%s:%s" % (case["announce"]["stored"], res["selection"]["raised"] or res["selection"]["procedure"]))
        if not case["announce"].get("connect"):
            ctx.case((case["family"], json.dumps(case["announce"], sort_keys=True)), nontrivial=case["announce"]["stored"] is not None)
            if coq_items is not None:
                coq_items.append(("sel", W, case, res))
            return
        if coq_items is not None:
            coq_items.append(("sel", W, case, res))
    errs = oracle(case, res)
    j = res["judge"]
    if j is None:
        ctx.tie_broken("harness:" + case["family"], json.dumps({"case": case, "error": "no judgement"}, default=repr))
        return
    if case.get("announce"):
        ctx.case((case["family"], json.dumps(case["announce"], sort_keys=True), json.dumps(case["spec"], sort_keys=True)), nontrivial=True,
                 sample=summary(case, res) if ctx.rng.random() < 0.01 else None)
        ctx.count("judged:" + ("proves-identity" if j["genuine"] else j["why"].split(" (")[0]))
        for o in res["obs"]:
            ctx.count("impl:%s:%s" % (o["proto"], "connected" if o["raw"] == "Accept" and o["surfaced"] is None else (o["surfaced"] or o["raw"] or "nothing-ran")))
        for key, what in errs:
            ctx.violation(key, what, {"case": case, "summary": summary(case, res)})
        if j["tables"] is not None and coq_items is not None:
            coq_items.append((world_of(case), case, res))
        return
    if case["family"].startswith(("otherid:", "flip:id+signed", "trunc:id+signed", "long:id+signed")) and not case.get("cvar"):
        sigs = j["tables"]["sig"]
        if j["why"] != "identifier-differs" or not sigs or sigs[-1][1] is not True:
            ctx.tie_broken("harness:other-identifier-case-not-signed-consistently", json.dumps({"case": case, "why": j["why"]}))
    ctx.case((case["family"], json.dumps(case["spec"], sort_keys=True), case.get("cvar"), case.get("f1"), case.get("f3"), case.get("id_len"),
              tuple(o["proto"] for o in res["obs"])),
             nontrivial=j["why"] != "outer-malformed",
             sample=summary(case, res) if case["family"] in ("genuine", "subst:signature-by-B", "replay:rewrapped-signature-of-other-session",
                                                              "flip:sig", "trunc:spub", "missing:inner-sig", "fault:second-exchange",
                                                              "second-verify-replayed-first:mrp") and ctx.rng.random() < 0.2 else None)
    ctx.count("family:" + case["family"].split(":")[0])
    ctx.count("judged:" + ("proves-identity" if j["genuine"] else j["why"]))
    for o in res["obs"]:
        ctx.count("impl:%s:%s" % (o["proto"], "connected" if o["raw"] == "Accept" and o["surfaced"] is None else (o["surfaced"] or o["raw"])))
    for key, what in errs:
        ctx.violation(key, what, {"case": case, "summary": summary(case, res)})
    if (any(o["proto"] in COQ_PROTO for o in res["obs"]) or res["v1"] is not None) and j["tables"] is not None:
        coq_items.append((world_of(case), case, res))


def recursion_case(W):
    """more TLV items than Python's recursion limit allows read_tlv to walk: judged by the oracle
    only (the model has no recursion limit) - must still be an AuthenticationError without keys."""
    return {"family": "oracle-only:tlv-items-beyond-recursion-limit", "spec": {"raw": (b"\x11\x00" * 3000).hex()}, "cvar": None,
            "f1": None, "f3": None, "wseed": W.wseed, "id_len": len(W.acc["A"].ident)}


def load_corpus_cases():
    out = []
    for fname, d in common.load_corpus("C06"):
        c = dict(d["case"])
        c["corpus"] = fname
        out.append((c, d.get("protos", list(PROTOS) + ["airplay-rc"])))
    return out


def run(ctx):
    sk = clauses = None
    try:
        sk, clauses = gen(ctx)
    except Exception as ex:
        ctx.tie_broken("translator:skeleton", repr(ex))
    ctx.build_property()
    if ctx.thorough:
        ctx.coqchk()
    ctx.extra["skeletons"] = {}
    if sk:
        for name, (cmd, labels) in sk.items():
            bad = skeleton_witnesses(cmd)
            ctx.extra["skeletons"][name] = {"listing": gs.pretty(cmd, 0, labels), "calls": len(labels), "violating_paths": len(bad)}
            ctx.case(("skeleton", name, gs.to_coq(cmd)), nontrivial=True)
            ctx.count("skeleton")
            for o, written, path in bad[:3]:
                ctx.tie_broken("skeleton:%s" % name, json.dumps({
                    "outcome": {"E": "exception", "C": "cancelled", "N": "normal", "R": "return"}[o],
                    "written": [W_NAMES[w] for w in written], "decisions": [(labels[l], what) for l, what in path]}))
        ctx.extra["except_clauses"] = clauses
    ctx.extra["effect_table"] = [[r, [W_NAMES[e[1]]] + list(e[2:])] for r, e in EFFECTS]
    ctx.extra["assumed_not_to_fail"] = NOFAIL + gs.DEFAULT_NOFAIL

    coq_items = []
    import time
    t_build = time.time() - ctx.t0
    # 1. corpus (pre-fix witnesses and past disagreements) - all protocols incl. the remote-control set-up
    deferred = []
    for case, protos in load_corpus_cases():
        if case.get("stream"):
            deferred.append(case)       # judged with the other stream entry cases (2d)
            continue
        res = eval_one((case, tuple(protos)))
        judge_and_record(ctx, case, res, coq_items)
        ctx.count("corpus")
    # 2. generated worlds
    # (identifier length, every bit of every field?, stride otherwise); 300: identifier and encrypted data span TLV fragments
    plan = ([(17, True, 1), (36, False, 16), (1, False, 16), (300, False, 128)] if not ctx.thorough else
            [(17, True, 1), (36, True, 1), (1, True, 1), (6, True, 1), (300, False, 8), (17, True, 1), (36, True, 1)])
    worlds = []
    for id_len, all_bits, stride in plan:
        W = World(ctx.rng.getrandbits(32), id_len=id_len)
        worlds.append(W)
        cases = gen_cases(ctx, W, full=ctx.thorough and all_bits, stride=stride)
        results = eval_many(cases, PROTOS)
        for case, res in zip(cases, results):
            judge_and_record(ctx, case, res, coq_items)
        # the remote-control set-up of AirPlay (what pyatv.connect() raises): special cases + a sample of the flips
        rc = [c for k, c in enumerate(cases) if not c["family"].startswith(("flip:", "trunc:", "fuzz", "fault:")) or k % 23 == 0]
        rc = [c for c in rc if not c["family"].startswith("fault:")]
        for case, res in zip(rc, eval_many(rc, ("airplay-rc",))):
            judge_and_record(ctx, case, res, coq_items)
        for kind in ("handler", "mrp", "companion", "airplay", "airplay-top"):
            case, _ = None, None
            case = {"family": "second-verify-replayed-first:" + kind, "spec": {"replay_round": 0}, "cvar": None, "f1": None, "f3": None,
                    "wseed": W.wseed, "id_len": id_len, "twice": kind}
            res = eval_one((case, ()))
            if res.get("first_round_ok") is False:
                ctx.tie_broken("harness:second-verify", "first round with the genuine reply was not accepted (%s)" % kind)
            judge_and_record(ctx, case, res, coq_items)
        rcase = recursion_case(W)
        res = eval_one((rcase, PROTOS))
        if not res.get("harness_error"):
            for key, what in oracle(rcase, res):
                ctx.violation(key, what, {"case": rcase, "summary": summary(rcase, res)})
            ctx.case((rcase["family"], id_len), nontrivial=False)
            ctx.count("oracle-only")
    # 2b. the glue that chooses the procedure: stored credential kinds x announced properties
    #     (selection), and connecting with stored HAP credentials under each announcement
    Wg = worlds[0]
    acases = gen_announced(ctx, Wg, full=ctx.thorough)
    for case, res in zip(acases, eval_many(acases, ())):
        judge_and_record(ctx, case, res, coq_items)
    # 2c. history: credentials replaced between construction and connect / between two connects
    for Wh in worlds[:2]:
        hcases = gen_history(ctx, Wh)
        for case, res in zip(hcases, eval_many(hcases, ())):
            judge_and_record(ctx, case, res, coq_items)
    # 2d. the stream entry points per protocol version x stored credential kind x who answers
    scases = deferred + gen_stream(ctx, worlds[0], full=ctx.thorough)
    sres = eval_many(scases, ())
    order = sorted(range(len(scases)), key=lambda i: 0 if not sres[i].get("harness_error") and sres[i]["judge"] is not None and any(
        k.endswith("forged-reply-accepted") for k, _ in stream_errors(scases[i], sres[i])) else 1)
    for i in order:
        judge_and_record(ctx, scases[i], sres[i], coq_items)
    # 2e. the whole pyatv.connect(): a refused verification at every position of the set-up order; the
    #     RAOP service embedded in an AirPlay 2 service, then stream_file
    fcases = gen_facade(ctx, worlds[0], full=ctx.thorough)
    for case, res in zip(fcases, eval_many(fcases, ())):
        judge_and_record(ctx, case, res, coq_items)
    # 3. model vs implementation, evaluated inside Coq
    t_impl = time.time() - ctx.t0 - t_build
    facade_items = [x[1:] for x in coq_items if x[0] == "facade"]
    coq_items = [x for x in coq_items if x[0] != "facade"]
    stream_items = [x[1:] for x in coq_items if x[0] == "stream"]
    coq_items = [x for x in coq_items if x[0] != "stream"]
    sel_items = [x[1:] for x in coq_items if x[0] == "sel"]
    coq_items = [x for x in coq_items if x[0] != "sel"]
    files = coq_files(coq_items, per=100) + coq_sel_files(sel_items) + coq_stream_files(stream_items) + coq_facade_files(facade_items)
    res = common.coq_run_many([(n, t) for n, t, _ in files], ctx.pid, par=16)
    ctx.extra["phase_seconds"] = {"build": round(t_build, 1), "implementation_runs": round(t_impl, 1),
                                  "coq_cases": round(time.time() - ctx.t0 - t_build - t_impl, 1),
                                  "coq_case_bytes": sum(len(t) for _, t, _ in files)}
    ctx.note("phases", ctx.extra["phase_seconds"])
    nbad = 0
    for name, txt, chunk in files:
        rc, out = res[name]
        bad = common.parse_eval_nat_list(out) if rc == 0 else None
        if bad is None:
            ctx.tie_broken("correspondence:" + name, out)
            continue
        for b in bad:
            nbad += 1
            if nbad <= 5:
                W, case, r = chunk[b][-3:]
                ctx.tie_broken("correspondence:model-differs-from-implementation", json.dumps({"case": case, "summary": summary(case, r)}, default=repr))
    ctx.traces = sum(len(r["obs"]) + (1 if r["v1"] else 0) for _, _, r in coq_items) + len(sel_items) + len(stream_items) + len(facade_items)
    ctx.extra["coq_case_files"] = len(files)
    ctx.rule = ("per world (fresh long-term and ephemeral keys from the seed; identifier lengths 17/36/1): the genuine reply; every single-bit flip "
                "of session public key, encrypted data, identifier and signature (first world: all bits; others: a stride plus first/last byte; thorough: all "
                "bits of all worlds and of the whole pairing data / plaintext); every truncation of each field, of the plaintext and of the pairing data; "
                "identifier / key / signature / session key substituted from a second valid accessory and from an attacker's ephemeral key; replies "
                "recorded in another session (verbatim, re-wrapped); missing and stray TLV items; stored credentials that do not fit; transport faults "
                "of every exception class at both exchanges; random multi-damage; a second verify round on the same object answered with the first "
                "round's reply; the glue: every stored credential kind (none, HAP, legacy, transient, null, invalid) x announced properties (feature words "
                "incl. the transient-pairing bits under features/ft, absent, garbage; model strings incl. AudioAccessory*/AppleTV*; OS versions; noise) -> "
                "what extract_credentials/pair_verify select, and with stored HAP credentials connecting through verify_connection(extract_credentials(..)) "
                "and airplay.setup() against an impostor (no long-term key; also plays transient pairing along) and the genuine accessory; history: credentials stored at "
                "construction x credentials stored at connect (A, new key, re-paired as B, none) x who answers, for MrpProtocol, CompanionProtocol and an "
                "AirPlayStream object (also as its second connect) - judged against what is stored when the object connects; the stream entry points AirPlayV1/AirPlayV2 "
                "setup/play_url (version chosen by setting and by announcement) x stored credential kind x genuine / impostor / damaged replies, with the list of "
                "requests sent on the connection; the whole pyatv.connect() with 1-4 services (AirPlay incl. the remote-control tunnel, Companion, MRP, RAOP) and an "
                "impostor behind the verifying protocol at every position of the set-up order; an AirPlay 2 service with unified advertiser info (no RAOP service, "
                "HAP credentials stored for AirPlay only) connected through pyatv.connect() and then atv.stream.stream_file() through the embedded RAOP.  Each case runs MrpProtocol.start, CompanionProtocol.start, verify_connection and (where both fields exist) "
                "SRPAuthHandler.verify1; non-trivial = the pairing data carried both fields; distinct by (recipe, credentials variant, faults, id length)")
    ctx.trusted += [
        "hand-written model coq/C06/Model.v (verify1, the three verify_credentials, error_handler, verify_connection mapping) tied by the differential run of this file, evaluated in Coq by vm_compute with the oracles instantiated by tables computed independently with the `cryptography` package",
        "harness/gen_skeleton.py and the statement->effect table in harness/c06.py (printed in this evidence): trusted to emit what the source says; fail closed; the except-clause reader of harness/c06.py likewise",
        "the harness accessory, fake connections and the os.urandom shim in harness/c06.py; harness/vloop.py",
        "coq/C04/TlvModel.v as the model of read_tlv/write_tlv (its own correspondence is part of C04)",
    ]
    ctx.assumptions += [
        "CANNOT CARRY: unforgeability. The theorems say the code asks the right questions (AEAD under the session key, identifier equality, Ed25519 verification under the stored key over both session public keys); that a forged signature / ciphertext makes the oracle answer 'no' is Ed25519's, X25519's, HKDF's and ChaCha20-Poly1305's business (and the `cryptography` package's)",
        "the content of the accessory's answer to the third message is ignored by the code (TODO in the source) and by the model",
        "a reply has fewer TLV items than Python's recursion limit (beyond it read_tlv raises RecursionError - sampled by an oracle-only case: still AuthenticationError, no keys)",
        "calls listed under assumed_not_to_fail do not raise; enable_encryption() installs nothing if it raises",
        "Python >= 3.11: asyncio.TimeoutError is the builtin TimeoutError (a subclass of OSError)",
    ]


def replay(ctx, path):
    d = json.load(open(path))
    r = d.get("replay", d)
    if "case" not in r:
        print(json.dumps(d, indent=1)[:3000])
        return 1
    case = r["case"]
    protos = tuple(r.get("protos") or d.get("protos") or (list(PROTOS) + ["airplay-rc"]))
    res = eval_one((case, protos))
    if res.get("harness_error"):
        print("harness error:", res["harness_error"])
        return 1
    errs = oracle(case, res) if res.get("judge") is not None and not case.get("stream") and not case.get("facade") else []
    if case.get("stream"):
        errs += stream_errors(case, res)
    if case.get("facade"):
        errs = facade_errors(case, res)
    if case.get("announce"):
        errs += selection_errors(world_of(case), case, res)
    print(json.dumps(summary(case, res), indent=1))
    for key, what in errs:
        print("PROPERTY FAILS: %s  %s" % (key, what))
    return 1 if errs else 0
